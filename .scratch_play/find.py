import sys, random, traceback
sys.path.insert(0,'/verif')
from sim import kernel as K
K.install_seams()
from sim import runner
import sim.machines.play as P
vs=int(sys.argv[1])
for i in range(int(sys.argv[2]), int(sys.argv[3])):
    seed = K.derive_seed('C42', vs, i)
    case = P.gen(random.Random(seed), 'quick', 'C42'); case['seed']=seed; case['index']=i
    try:
        res = runner.run_case(P, case)
    except Exception:
        traceback.print_exc()
        print(i, case['cfg'])
        for o in case['ops']: print('   ', o)
        break
