import sys, random, traceback
sys.path.insert(0,'/verif')
from sim import kernel as K
K.install_seams()
from sim import runner, basicdrv
import sim.machines.play as P
vs=int(sys.argv[1]); i=int(sys.argv[2])
seed = K.derive_seed('C42', vs, i)
case = P.gen(random.Random(seed), 'quick', 'C42'); case['seed']=seed; case['index']=i
orig = basicdrv.Driver.exec
def ex(self, line, poll_cap=20000):
    r = orig(self, line, poll_cap)
    print('EXEC', line[:150], '->', r.out[:100], self.w.clock_us)
    return r
basicdrv.Driver.exec = ex
P.Driver.exec = ex
try:
    res = runner.run_case(P, case)
    print(res['violations'])
except Exception:
    traceback.print_exc()
