import sys, random, cProfile, pstats
sys.path.insert(0,'/verif')
from sim import kernel as K
K.install_seams()
from sim import runner
import sim.machines.play as P
def go():
    for i in range(0, 300):
        seed = K.derive_seed('C42', 0, i)
        case = P.gen(random.Random(seed), 'quick', 'C42'); case['seed']=seed; case['index']=i
        runner.run_case(P, case)
cProfile.run('go()', '/dev/shm/play_prof.out')
p = pstats.Stats('/dev/shm/play_prof.out'); p.sort_stats('cumulative').print_stats(45)
