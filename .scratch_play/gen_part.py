STRINGS = ['A$', 'B$', 'M9$']                   # a string may include (X) only strings further right
NUMBERS = ['N%', 'K%', 'T!', 'Q#', 'ZZ.1%']
ARRAYS = ['AR%', 'SA$', 'DV%']                  # elements are referred to through VARPTR$ only
NUMVALUES = [1, 2, 4, 8, 16, 32, 64, 0, 3, 6, 33, 84, 85, 120, 255, 256, 5]
# memory layout constants of the engine, used only to steer addresses (never to judge)
FILE_HEADER = 194
DEFAULT_RESERVED = 3429

# bytes that mean something in MML: an address byte of a VARPTR$ reference that equals one of
# them must still be read as an address byte
BYTE_CLASSES = [
    ('blank', [0x20]), ('semicolon', [0x3B]), ('equals', [0x3D]),
    ('digit', list(range(0x30, 0x3A))), ('sign', [0x23, 0x2B, 0x2D, 0x2E]),
    ('command', [ord(c) for c in 'ABCDEFGLMNOPTX<>']), ('lower', [ord(c) for c in 'abcdefglmnoptx']),
    ('bracket', [0x22, 0x28, 0x29, 0x2C, 0x5B, 0x5D, 0x24, 0x25, 0x21]),
    ('control', list(range(0, 9))), ('edge', [0xFF, 0x80, 0x7F, 0x0D, 0x0A, 0x09]),
]
BYTE_CLASS = {}
for _nm, _vals in BYTE_CLASSES:
    for _v in _vals:
        BYTE_CLASS.setdefault(_v, _nm)


def _pick_byte(rng, lowest=0, highest=255):
    for _ in range(8):
        v = rng.choice(rng.choice(BYTE_CLASSES)[1])
        if lowest <= v <= highest:
            return v
    return 0x20


def _mml(rng, n, speed, names, p_ref=0.10, p_ptr=0.3):
    toks = []
    for _ in range(n):
        r = rng.random()
        if names and r < p_ref:
            nm = rng.choice(names)
            ptr = '(' in nm or rng.random() < p_ptr
            if nm.endswith('$') or '$(' in nm:
                toks.append('X' + VP0 + nm + VP1 if ptr else 'X' + nm + ';')
            else:
                cmd = rng.choice('LTON')
                toks.append(cmd + '=' + VP0 + nm + VP1 if ptr else cmd + '=' + nm + ';')
        else:
            toks.append(_token(rng, speed))
    out = ''
    for i, t in enumerate(toks):
        out += t
        if i + 1 < len(toks):
            k = rng.random()
            if k < 0.25:
                out += ' ' * rng.randint(1, 2)
            elif k < 0.32 and not t.endswith(';') and VP1 not in t:
                out += ';'
    if rng.random() < 0.3:
        # (not inside a VARPTR$ placeholder: the name is BASIC source there)
        parts = re.split('(\x01[^\x02]*\x02)', out)
        out = ''.join(p if p.startswith(VP0) else ''.join(c.lower() if rng.random() < 0.5 else c for c in p) for p in parts)
    return out


def _mml_len(mml):
    """Length of the string PLAY gets: a VARPTR$ reference is three bytes."""
    return len(re.sub('\x01[^\x02]*\x02', '...', mml))


def _fillers(rng, serial, n):
    """n filler scalars of varied sizes: ['PF0301QQ%', ...] (unique names, no keywords inside)."""
    out = []
    for j in range(n):
        stem = 'PF%02d%02d' % (serial % 100, j)
        out.append(stem + 'Q' * rng.choice([0, 0, 0, 1, 2, 3, 5, 9, 17, 30]) + rng.choice('%%!#$'))
    return out


STMTS = ['STOP', 'STOP', 'STOP', 'ERROR 5', 'ERROR 200', 'END', 'PRINT 1', 'ZQ%=ZQ%+1', 'RESTORE', 'LOCATE 1,1',
         'RANDOMIZE 7', 'DEF SEG', 'ZF!=FRE("")', 'PRINT 1/0', 'CONT']


def gen(rng, tier, prop):
    thorough = tier != 'quick'
    speed = rng.choice(['fast', 'fast', 'mixed'])
    n = rng.randint(3, 40 if thorough else 14)
    mode = 'program' if rng.random() < 0.3 else 'direct'
    ops = []
    names = []          # names the strings may refer to (they may have been CLEARed since)
    defined = set()     # names assigned since the last CLEAR
    arrays = set()
    serial = [0]
    schedule = rng.choice(['tight', 'tight', 'drain', 'mixed'])
    # how much the history moves variables about
    spread = rng.choice(['none', 'some', 'some', 'much'])
    p_ref, p_ptr = rng.choice([(0.10, 0.3), (0.10, 0.3), (0.16, 0.6), (0.25, 0.8)])

    def pad(target=None):
        serial[0] += 1
        op = {'op': 'pad', 'id': serial[0], 'names': _fillers(rng, serial[0], rng.choice([0, 1, 2, 3, 5, 8, 13, 30]))}
        if target is not None:
            op['for'] = target
            if rng.random() < 0.6:
                op['lo'] = _pick_byte(rng)
        return op

    def var(nm):
        base = nm.split('(')[0]
        if nm.endswith('$') or '$(' in nm:
            inner = []
            if nm in STRINGS:
                inner = [x for x in names if x in STRINGS and STRINGS.index(x) > STRINGS.index(nm)][:1]
                inner += [x for x in names if x in NUMBERS][:1]
            val = _mml(rng, rng.randint(1, 24), speed, inner, 0.10, 0.0)
            if rng.random() < 0.1:
                val += rng.choice(MALFORMED)[0]
        else:
            val = rng.choice(NUMVALUES)
        if nm not in names:
            names.append(nm)
        defined.add(nm)
        arrays.add(base)
        return {'op': 'var', 'name': nm, 'value': val}

    def pick_name():
        r = rng.random()
        if r < 0.25 or spread == 'none':
            return rng.choice(['A$', 'B$', 'N%', 'K%', 'T!', 'Q#'])
        if r < 0.6:
            return rng.choice(STRINGS + NUMBERS)
        base = rng.choice(ARRAYS)
        if base == 'DV%':
            return 'DV%%(%d)' % rng.choice([0, 1, 10, 11, 100, rng.randint(0, 400), 400])
        return '%s(%d)' % (base, rng.randint(0, 10))

    if spread != 'none' and rng.random() < 0.5:
        # something in memory before the first variable the music will use
        k = rng.random()
        if k < 0.6:
            ops.append(pad())
        elif k < 0.8 and mode == 'direct':
            ops.append({'op': 'line', 'n': rng.randint(0, 245), 'lines': rng.choice([1, 1, 2, 4, 14])})
        else:
            ops.append({'op': 'dim', 'name': 'FL%', 'n': rng.choice([0, 10, 100, 1000, rng.randint(0, 6000)])})
    for _ in range(n):
        r = rng.random()
        if r < 0.16:
            nm = pick_name()
            if spread != 'none':
                if nm.startswith('DV%') and 'DV%' not in arrays and rng.random() < 0.8:
                    if rng.random() < 0.3:
                        ops.append({'op': 'dim', 'name': 'FL%', 'n': rng.choice([100, 1000, rng.randint(0, 6000)])})
                    ops.append({'op': 'dim', 'name': 'DV%', 'n': 400})
                    arrays.add('DV%')
                if nm not in defined and '(' not in nm and rng.random() < (0.7 if spread == 'much' else 0.35):
                    ops.append(pad(nm))
            ops.append(var(nm))
            if '(' in nm and spread == 'much' and rng.random() < 0.5:
                # move the (existing) array
                ops.append(pad(nm))
        elif r < 0.70:
            mml = _mml(rng, rng.randint(1, 30 if rng.random() < 0.8 else 60), speed, names, p_ref, p_ptr)
            if rng.random() < 0.3:
                mml = rng.choice(['MB', 'MB', 'MF', 'MBML', 'MBT255L64']) + mml
            op = {'op': 'play', 'mml': mml}
            if rng.random() < 0.12:
                tok = rng.choice(MALFORMED)[0]
                cut = rng.choice([0, len(mml), len(mml)])
                op['mml'] = mml[:cut] + (' ' if cut and rng.random() < 0.5 else '') + tok + (' ' + mml[cut:] if cut == 0 else '')
            while _mml_len(op['mml']) > 250 and ' ' in op['mml']:
                op['mml'] = op['mml'][:op['mml'].rindex(' ')]
            k = rng.random()
            if k < 0.16:
                op['break_at'] = rng.choice([0.0, 0.01, 0.05, 0.2, 0.5, 1.0, 3.0])
            elif k < 0.24:
                op['break_poll'] = rng.choice([1, 2, 3, 4, 6, 10, 40, 200])
            if mode == 'program' and rng.random() < 0.2:
                op['direct'] = True
            ops.append(op)
        elif r < 0.84:
            if schedule == 'tight':
                s = rng.choice([0.001, 0.01, 0.05, 0.1])
            elif schedule == 'drain':
                s = rng.choice([5, 30, 120])
            else:
                s = rng.choice([0.001, 0.05, 0.3, 1, 2, 10, 60])
            ops.append({'op': 'sleep', 's': s})
        elif r < 0.89:
            ops.append({'op': 'jump', 's': rng.choice([-3, -1, -0.5, -0.01, 0.01, 0.5, 2, 30, 3600])})
        elif r < 0.95:
            ops.append({'op': 'stmt', 'text': rng.choice(STMTS)})
        else:
            ops.append({'op': 'reset'})
            defined.clear()
            arrays.clear()
    session = {'syntax': 'advanced'}
    cfg = {
        'world': {'sleep0_us': rng.choice([0, 1, 50, 50, 500, 5000]), 'start_us': K.DEFAULT_START_US + rng.choice([0, 123456, 86399999999 - 36000000000])},
        'session': session,
        'mode': mode,
    }
    if mode == 'program':
        cfg['rem'] = rng.choice([0, 0, rng.randint(0, 245)])
    # where the variable area starts: the page (high address byte) is steered through the session's
    # memory options, and topped up with REM lines in program mode
    r = rng.random()
    if spread != 'none' and r < 0.45:
        files, reclen = rng.choice([1, 3, 3, 6]), rng.choice([32, 128, 128, 512])
        hi = _pick_byte(rng, 0x06, 0xD0)
        size = 3
        if mode == 'program':
            # upper bound of the size of the stored program
            size += sum(len(t) + 6 for t in _program_text(ops, cfg.get('rem', 0)).values())
        reserved = (hi << 8) + rng.randint(0, 120) - (files + 1) * (FILE_HEADER + reclen) - size
        if reserved < 64:
            files, reclen = 1, 32
            reserved = (hi << 8) + rng.randint(0, 120) - (files + 1) * (FILE_HEADER + reclen) - size
        if reserved >= 64:
            session.update({'reserved_memory': reserved, 'max_files': files, 'max_reclen': reclen})
            cfg['hi'] = hi
    elif spread != 'none' and r < 0.7:
        session.update({'reserved_memory': rng.randint(300, 30000), 'max_files': rng.choice([1, 3, 3, 6]),
                        'max_reclen': rng.choice([32, 128, 128, 512])})
    return {'machine': NAME, 'prop': prop, 'cfg': cfg, 'ops': ops}


def simplify(cfg, ops):
    for i, op in enumerate(ops):
        if op['op'] == 'play':
            for key in ('break_at', 'break_poll', 'direct'):
                if key in op:
                    o = dict(op)
                    del o[key]
                    yield cfg, ops[:i] + [o] + ops[i + 1:]
            m = op['mml']
            # drop one command-sized slice at a time (never to an empty string)
            toks = re.findall(r'[A-Za-z]=?\x01[^\x02]*\x02|[A-Za-z<>][^A-Za-z<>]*', m)
            if len(toks) > 1 and ''.join(toks) == m:
                half = len(toks) // 2
                for cand in (toks[:half], toks[half:]):
                    yield cfg, ops[:i] + [dict(op, mml=''.join(cand))] + ops[i + 1:]
                if len(toks) <= 12:
                    for j in range(len(toks)):
                        yield cfg, ops[:i] + [dict(op, mml=''.join(toks[:j] + toks[j + 1:]))] + ops[i + 1:]
        if op['op'] == 'sleep' and op['s'] > 0.01:
            yield cfg, ops[:i] + [dict(op, s=0.01)] + ops[i + 1:]
        if op['op'] == 'pad':
            if op['names']:
                yield cfg, ops[:i] + [dict(op, names=op['names'][:len(op['names']) // 2])] + ops[i + 1:]
            if 'lo' in op:
                o = dict(op)
                del o['lo']
                yield cfg, ops[:i] + [o] + ops[i + 1:]
        if op['op'] == 'line' and (op['n'] or op['lines'] > 1):
            yield cfg, ops[:i] + [dict(op, n=0, lines=1)] + ops[i + 1:]
    if cfg.get('mode') == 'program':
        yield dict(cfg, mode='direct'), ops
    if cfg.get('rem'):
        yield dict(cfg, rem=0), ops
    if cfg['world'].get('sleep0_us') != 50:
        c = dict(cfg)
        c['world'] = dict(cfg['world'], sleep0_us=50)
        yield c, ops
    if len(cfg.get('session', {})) > 1:
        c = dict(cfg)
        c['session'] = {'syntax': cfg['session'].get('syntax', 'advanced')}
        c.pop('hi', None)
        yield c, ops


###############################################################################
# the run

def _statement(mml):
    """BASIC source of PLAY for an mml string with VARPTR$ placeholders."""
    parts = re.split('(\x01[^\x02]*\x02)', mml)
    out = []
    for p in parts:
        if p.startswith(VP0):
            out.append('VARPTR$(%s)' % p[1:-1])
        elif p:
            out.append('"%s"' % p)
    return b('PLAY ' + '+'.join(out or ['""']))


def _assignment(op):
    """(BASIC source, model value) of a var op."""
    nm = op['name']
    val = op['value']
    if nm.endswith('$') or '$(' in nm:
        if not isinstance(val, str):
            val = str(val)
        # placeholders make no sense inside a variable: they are only generated in PLAY strings
        val = val.replace(VP0, '').replace(VP1, '').replace('"', '')
        return b('%s="%s"' % (nm, val)), val
    val = int(val) if not isinstance(val, str) else 0
    return b('%s=%d' % (nm, val)), val


def _program_text(ops, rem):
    """Program mode: {line number: source}. Op i is line 10*(i+1), followed by a STOP."""
    lines = {1: b('PLAY "%s"' % RefPlayer().defaults_string()), 5: b'STOP'}
    if rem:
        lines[2] = b'REM ' + b'x' * rem
    for i, op in enumerate(ops):
        text = None
        if op['op'] == 'var':
            text = _assignment(op)[0]
        elif op['op'] == 'play' and not op.get('direct'):
            text = _statement(op['mml'] if op['mml'].replace(' ', '') else 'MN')
        elif op['op'] == 'reset':
            text = b'CLEAR'
        if text is not None:
            lines[10 * (i + 1)] = text
            lines[10 * (i + 1) + 1] = b'STOP'
    return lines
