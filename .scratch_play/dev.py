import sys, random, collections, time
sys.path.insert(0,'/verif')
from sim import kernel as K
K.install_seams()
from sim import runner
import sim.machines.play as P
n0, n1 = int(sys.argv[1]), int(sys.argv[2])
vs = int(sys.argv[3]) if len(sys.argv) > 3 else 0
probes = collections.Counter(); viol = collections.Counter(); first = {}
t=time.time()
for i in range(n0, n1):
    seed = K.derive_seed('C42', vs, i)
    case = P.gen(random.Random(seed), 'quick', 'C42'); case['seed']=seed; case['index']=i
    res = runner.run_case(P, case)
    probes.update(res['probes'])
    if res['status'] != 'ok': viol['status:'+res['status']] += 1
    for v in res['violations']:
        viol[v['sig']] += 1
        if v['sig'] not in first: first[v['sig']] = (i, v['detail'], case)
print('time', time.time()-t)
for k in sorted(probes): print('  ', k, probes[k])
for k in viol: print('VIOL', k, viol[k])
for k,(i,dt,case) in first.items():
    print('----', k, 'index', i); print(dt[:1500]); print(case['cfg']); 
    for o in case['ops']: print('   ', o)
