def _byte_tag(addresses):
    """Signature suffix for a statement with VARPTR$ references at these addresses."""
    if not addresses:
        return ''
    found = set()
    for a in addresses:
        for v in (a & 0xFF, (a >> 8) & 0xFF):
            if v in BYTE_CLASS:
                found.add(BYTE_CLASS[v])
    for nm, _ in BYTE_CLASSES:
        if nm in found:
            return ':varptr-address-byte-' + nm
    return ':varptr'


def _body(run):
    case = run.case
    w = run.w
    cfg = case['cfg']
    ops = case['ops']
    program = cfg.get('mode') == 'program'
    from pcbasic.basic.base import signals
    ref = RefPlayer()
    variables = {}
    arrays = {}        # base name -> bound, or None where the model does not know
    doubtful = set()   # scalars that a string may have created by naming them
    # model of the sound queue: absolute end times (us) of entries not yet known to have ended
    queue = []
    timing = [True]
    # STOP and END return to direct mode; whether sound still queued survives that is not
    # specified: until the instant at which it would have ended anyway timing is not judged
    unsure_until = [0]
    slack_us = int(2 * TICK * 1e6) + 12 * w.sleep0_us + 100
    # what happened since the PLAY state was last confirmed by a compared statement
    context = ['']
    lineno = {}
    cont_ok = [False]
    with w:
        d = Driver(w, **cfg.get('session', {}))
        seen = [len(w.audio.signals)]

        def new_tones():
            sigs = w.audio.signals[seen[0]:]
            seen[0] = len(w.audio.signals)
            tones = [(clk, p[1], p[2]) for clk, typ, p in sigs if typ == signals.AUDIO_TONE]
            stops = [clk for clk, typ, p in sigs if typ == signals.AUDIO_STOP]
            return tones, stops

        def waiting(now):
            return [e for e in queue if e > now]

        def forget_everything():
            """CLEAR (also implied by NEW, RUN and by storing a line) on the model side."""
            ref.reset()
            variables.clear()
            arrays.clear()
            doubtful.clear()
            del queue[:]
            timing[0] = True
            unsure_until[0] = 0
            context[0] = ''

        def back_in_direct_mode():
            """STOP, END or an error took the engine to direct mode: sound may have been stopped."""
            if queue and queue[-1] > w.clock_us:
                unsure_until[0] = max(unsure_until[0], queue[-1])

        def direct(text, poll_cap=20000):
            """A direct-mode statement (in program mode: while the program is stopped)."""
            r = d.exec(text, poll_cap=poll_cap)
            if r.errs or b'Break' in r.out:
                cont_ok[0] = False
            return r

        def statement(i, text, poll_cap=20000):
            """Execute the statement of op i: directly, or by continuing the stored program up to its STOP."""
            if i not in lineno:
                return direct(text, poll_cap), False
            r = d.exec(b'CONT' if cont_ok[0] else b'GOTO %d' % lineno[i], poll_cap=poll_cap)
            cont_ok[0] = (b'Break in %d\xff' % (lineno[i] + 1)) in r.out
            return r, True

        def resync():
            r = direct(b(('PLAY "%s"' % ref.defaults_string())), poll_cap=400000)
            if r.err is not None:
                run.violate('C42', 'wellformed-rejected:state-commands', 'PLAY "%s" -> %r' % (ref.defaults_string(), r))
            ref.reset()
            context[0] = ''
            new_tones()

        def create(names):
            """Assign 0 or "" to new scalars, a few to a line."""
            line = []
            for nm in list(names) + [None]:
                if nm is not None:
                    line.append('%s=%s' % (nm, '""' if nm.endswith('$') else '0'))
                    variables[nm.upper()] = '' if nm.endswith('$') else 0
                if line and (nm is None or sum(len(x) + 1 for x in line) > 180):
                    direct(b(':'.join(line)))
                    line = []

        def address(nm):
            """VARPTR of a variable the model knows to exist (coverage and steering only)."""
            return int(d.eval(b('VARPTR(%s)' % nm))) & 0xFFFF

        def exists(nm):
            nm = nm.upper()
            if '(' in nm:
                base, idx = nm[:-1].split('(')
                return arrays.get(base) is not None and int(idx) <= arrays[base]
            return nm in variables and nm not in doubtful

        lost = False
        if program:
            # store the program, then run its first lines, which set every PLAY state variable
            text = _program_text(ops, cfg.get('rem', 0))
            for ln in sorted(text):
                r = d.exec(b'%d %s' % (ln, text[ln]))
                if r.out:
                    raise K.HarnessError('could not store %r: %r' % (text[ln], r))
                if ln % 10 == 0:
                    lineno[ln // 10 - 1] = ln
            if cfg.get('hi') is not None:
                # top up the program size so that the variables start in the page wanted
                for ln in (3, 4, 6):
                    d.exec(b'PZ%=0')
                    room = (cfg['hi'] << 8) + 8 - (address('PZ%') - 4)
                    if room < 8:
                        break
                    d.exec(b'%d REM %s' % (ln, b'x' * min(room - 7, 245)))
            r = d.exec(b'RUN', poll_cap=400000)
            forget_everything()
            new_tones()
            if b'Break in 5\xff' not in r.out or r.errs:
                run.probe('program-lost')
                lost = True
            cont_ok[0] = True

        for i, op in enumerate(ops):
            if lost or run.stop:
                break
            k = op['op']
            if k == 'var':
                nm = op['name'].upper()
                text, val = _assignment(op)
                r, _ = statement(i, text)
                if '(' in nm:
                    base, idx = nm[:-1].split('(')
                    if base not in arrays:
                        # an array comes into being with bound 10; beyond that the outcome is not modelled
                        arrays[base] = 10 if int(idx) <= 10 else None
                    if arrays[base] is not None and int(idx) <= arrays[base]:
                        variables[nm] = val
                else:
                    variables[nm] = val
                    doubtful.discard(nm)
                if r.errs:
                    back_in_direct_mode()
                    if not ('(' in nm and arrays.get(nm.split('(')[0]) is None):
                        run.probe('assignment-error')
                run.state(k, nm[-1], program)
            elif k == 'pad':
                create(op.get('names', []))
                target = op.get('for')
                if target is not None and op.get('lo') is not None:
                    shift = None
                    if '(' in target:
                        if exists(target):
                            shift = (op['lo'] - address(target)) % 256
                    elif target.upper() not in variables:
                        mark = 'PZ%02dXX%%' % (op.get('id', 0) % 100)
                        create([mark])
                        # the next scalar starts after this integer; its value after a header of 4 bytes
                        # and the name beyond two characters
                        stem = target.rstrip('%!#$')
                        shift = (op['lo'] - (address(mark) + 2 + 4 + max(0, len(stem) - 2))) % 256
                    if shift:
                        # integers named PZ<id><j>Q..: 4 + (length - 2) + 2 bytes each, length 6..40
                        if shift < 10:
                            shift += 256
                        count = -(-shift // 44)
                        sizes = [shift // count + (1 if j < shift % count else 0) for j in range(count)]
                        create([('PZ%02d%02d' % (op.get('id', 0) % 100, j)).ljust(sz - 4, 'Q') + '%' for j, sz in enumerate(sizes)])
                        run.probe('variable-placed')
                run.state(k, len(op.get('names', [])) > 4, op.get('lo') is not None, program)
            elif k == 'dim':
                base = op['name'].upper()
                r = direct(b('DIM %s(%d)' % (op['name'], op['n'])))
                if base not in arrays and r.err is None:
                    arrays[base] = int(op['n'])
                elif r.err not in (None, 10):
                    arrays[base] = None
                run.state(k, op['n'] > 500, program)
            elif k == 'line':
                if not program:
                    # a stored program moves the variable area; storing a line clears the variables,
                    # what else it resets is not relied upon: CLEAR follows
                    for j in range(int(op.get('lines', 1))):
                        d.exec(b'%d REM %s' % (60000 + j, b'x' * int(op['n'])))
                    d.exec(b'CLEAR')
                    forget_everything()
                    new_tones()
                run.state(k, program)
            elif k == 'stmt':
                r = direct(b(op['text']))
                if b'Break' in r.out or r.errs or op['text'] == 'END':
                    back_in_direct_mode()
                    if b'Break' in r.out:
                        context[0] = 'after-break'
                    elif not context[0]:
                        context[0] = 'after-error'
                new_tones()
                run.state(k, op['text'], program)
            elif k == 'sleep':
                w.sleep(op['s'])
                run.state(k, len(waiting(w.clock_us)) > 0)
            elif k == 'jump':
                if waiting(w.clock_us) or op['s'] < 0:
                    # a step backwards can also revive an entry that had already ended
                    timing[0] = False
                    run.probe('clock-step-with-sound-queued' if waiting(w.clock_us) else 'clock-step-backwards')
                w.jump_clock(op['s'])
                run.state(k, op['s'] > 0, timing[0])
            elif k == 'reset':
                r, _ = statement(i, b'CLEAR')
                forget_everything()
                new_tones()
                run.state(k, program)
            elif k == 'play':
                mml = op['mml']
                if not mml.replace(' ', ''):
                    mml = 'MN'
                before = (ref.foreground, ref.gap)
                state_before = ref.state()
                pointers = [nm.upper() for nm in re.findall('\x01([^\x02]*)\x02', mml)]
                where = []
                ref.trace = [state_before]
                ref.touched = set()
                if _mml_len(mml) > 255:
                    # String too long: the string expression fails, PLAY does not get to run
                    events, err, kinds = [], 'unspecified-string-too-long', set(['too-long'])
                elif any('(' in nm and not exists(nm) for nm in pointers) or any(nm in doubtful for nm in pointers):
                    # an element of an array the model does not know, or a scalar that an earlier
                    # string may or may not have created
                    events, err, kinds = [], 'unspecified-pointer-target', set(['varptr-unknown'])
                elif any(nm not in variables for nm in pointers if '(' not in nm):
                    # VARPTR$ of a variable that was never assigned is an Illegal function call
                    # of the string expression itself: PLAY does not get to run
                    events, err, kinds = [], 'varptr-of-unassigned-variable', set(['varptr-unassigned'])
                else:
                    where = [address(nm) for nm in pointers]
                    events, err, kinds = ref.run(mml, variables)
                doubtful.update(ref.touched)
                tag = _byte_tag(where)
                if where:
                    run.probe('varptr-statements')
                    for a in where:
                        for v in (a & 0xFF, a >> 8):
                            if v in BYTE_CLASS:
                                run.probe('varptr-address-byte-' + BYTE_CLASS[v])
                want = flatten(events)
                c0 = w.clock_us
                q0 = len(waiting(c0))
                judge_timing = timing[0] and c0 >= unsure_until[0]
                fired = []
                armed = [True]
                if op.get('break_at') is not None or op.get('break_poll') is not None:
                    def fire(world, fired=fired, armed=armed):
                        if armed[0]:
                            fired.append(world.clock_us)
                            world.inputs.pending.append(K.sig_break())
                    if op.get('break_at') is not None:
                        w.at_time(op['break_at'], fire)
                    else:
                        w.at_poll(op['break_poll'], fire)
                source = _statement(mml)
                r, in_program = statement(i, source, poll_cap=400000)
                armed[0] = False
                c1 = w.clock_us
                tones, stops = new_tones()
                got = coalesce([(f, dur) for _, f, dur in tones])
                fg = ref.foreground
                # queue model: every recorded entry starts when its predecessor ends
                for clk, f, dur in tones:
                    start = max(queue[-1] if queue else 0, clk)
                    queue.append(start + int(round(dur * 1e6)))
                if not judge_timing and queue and c0 < unsure_until[0]:
                    unsure_until[0] = max(unsure_until[0], queue[-1])
                end_all = queue[-1] if queue else c0
                blocked = (c1 - c0) > slack_us
                run.state(k, fg, ref.gap, min(q0, 40) // 8, blocked, bool(fired), err or 'ok',
                          tuple(sorted(kinds))[:6], len(want) > 32, in_program, context[0])
                if fired:
                    run.probe('break-fired-during-play')
                if in_program and not fired and r.err is None and not cont_ok[0]:
                    # the program did not arrive at the STOP that follows the statement
                    run.probe('program-lost')
                    lost = True
                    continue
                # ---- outcome ---------------------------------------------------------------
                unspecified = err is not None and err.startswith('unspecified')
                if unspecified:
                    pass
                elif r.err not in (None, 5):
                    run.violate('C42', 'wrong-error' + tag, '%r -> %r' % (source, r))
                elif err is None and r.err == 5:
                    run.violate('C42', 'wellformed-rejected' + tag, '%r (VARPTR$ addresses %r, variables %r) -> Illegal function call; reference sees %d tones' % (
                        source, where, variables, len(want)))
                elif err is not None and r.err is None and not fired:
                    run.violate('C42', 'malformed-accepted:' + err, '%r (variables %r) -> no error, expected Illegal function call' % (source, variables))
                # ---- tones -----------------------------------------------------------------
                if err is None and r.err is None and not fired:
                    run.probe('tones-compared', len(want))
                    if len(want) > 0:
                        run.probe('statements-with-tones')
                        if context[0]:
                            run.probe('tones-compared-' + context[0])
                    bad = None
                    if len(got) != len(want):
                        bad = ('count', 'engine emitted %d entries, reference %d' % (len(got), len(want)))
                    else:
                        for j, ((gf, gd), (wf, wd)) in enumerate(zip(got, want)):
                            if not close(gf, wf):
                                bad = ('frequency', 'entry %d: engine %.6f Hz for %.6f s, reference %.6f Hz for %.6f s' % (j, gf, gd, wf, wd))
                                break
                            if not close(gd, wd):
                                bad = ('gap' if wf == 0 else 'duration',
                                       'entry %d (%.3f Hz): engine %.9f s, reference %.9f s' % (j, wf, gd, wd))
                                break
                    if bad:
                        run.violate('C42', 'tones-mismatch:%s:%s%s%s' % (
                            bad[0], 'foreground' if before[0] else 'background', tag, ':' + context[0] if context[0] else ''),
                                    '%r with variables %r (VARPTR$ addresses %r), state before (O, L, T, gap, MF) %r%s: %s\nengine   %r\nreference %r' % (
                                        source, variables, where, state_before, ' carried over: ' + context[0] if context[0] else '',
                                        bad[1], got[:12], want[:12]))
                    if len(want) > 0:
                        # the state is confirmed (or the violation is reported once)
                        context[0] = ''
                elif unspecified:
                    run.probe('unspecified-shape-statements')
                else:
                    run.probe('malformed-statements' if err is not None else 'interrupted-statements')
                    # whatever was emitted must be a prefix of what the string specifies before the error
                    pre = got[:-1] if got and got[-1][0] == 0 else got
                    if len(pre) > len(want) or any(not (close(g[0], x[0]) and close(g[1], x[1])) for g, x in zip(pre, want)):
                        run.violate('C42', 'tones-before-error-not-a-prefix' + tag,
                                    '%r: engine emitted %r, reference prefix %r' % (source, got[:12], want[:12]))
                # ---- liveness ---------------------------------------------------------------
                if op.get('break_at') is not None and c1 > c0 + int(op['break_at'] * 1e6) + slack_us:
                    # the statement was still running a tick after Ctrl-Break was pressed
                    run.violate('C42', 'liveness:break-ignored',
                                'Break pressed at +%.3f s (%s), PLAY returned at +%.3f s' % (
                                    op['break_at'], 'seen by the engine at +%.3f s' % ((fired[0] - c0) / 1e6) if fired else 'never polled',
                                    (c1 - c0) / 1e6))
                elif fired and c1 > fired[0] + slack_us:
                    run.violate('C42', 'liveness:break-ignored',
                                'Break delivered at poll %d of the statement (+%.3f s), PLAY returned at +%.3f s' % (
                                    op.get('break_poll', 0), (fired[0] - c0) / 1e6, (c1 - c0) / 1e6))
                if fired:
                    del queue[:]
                    timing[0] = True
                    unsure_until[0] = 0
                elif r.err is None and err is None and judge_timing:
                    if fg:
                        if blocked:
                            run.probe('foreground-blocked')
                        if c1 > max(end_all, c0) + slack_us:
                            run.violate('C42', 'liveness:foreground-late',
                                        'queue ends at +%.4f s, PLAY returned at +%.4f s' % ((end_all - c0) / 1e6, (c1 - c0) / 1e6))
                        if events:
                            last = events[-1][1] + events[-1][2]
                            if c1 < end_all - int(last * 1e6) - slack_us:
                                run.violate('C42', 'foreground-returned-before-last-note',
                                            'last note starts at +%.4f s, PLAY returned at +%.4f s' % (
                                                (end_all - last * 1e6 - c0) / 1e6, (c1 - c0) / 1e6))
                    else:
                        ends = sorted(waiting(c0))
                        # instant at which at most 32 entries are left
                        t32 = ends[-33] if len(ends) > 32 else c0
                        if len(ends) > 34:
                            run.probe('background-over-32-entries')
                            if blocked:
                                run.probe('background-blocked')
                        if c1 > max(t32, c0) + slack_us:
                            run.violate('C42', 'liveness:background-late',
                                        '%d entries queued; 32 are left at +%.4f s, PLAY returned at +%.4f s' % (
                                            len(ends), (t32 - c0) / 1e6, (c1 - c0) / 1e6))
                        if len(ends) <= 16 and blocked:
                            run.violate('C42', 'background-blocked-needlessly',
                                        '%d entries queued, PLAY took %.4f s' % (len(ends), (c1 - c0) / 1e6))
                if in_program or r.err is not None:
                    # the STOP after the statement, or the error, took the engine to direct mode
                    back_in_direct_mode()
                    if in_program and not context[0]:
                        context[0] = 'after-stop'
                # ---- the PLAY state after a statement that was not carried out in full ------------
                if (err is not None or r.err is not None or fired) and not run.stop:
                    # the statement may have been given up at any command: the state is known if no
                    # command of the string changes it
                    if unspecified or r.err not in (None, 5) or len(set(ref.trace)) > 1:
                        resync()
                    else:
                        run.probe('state-carried-over-' + ('break' if fired else 'error'))
                        if fired:
                            context[0] = 'after-break'
                        elif not context[0]:
                            context[0] = 'after-error'
                # forget entries that have ended (keep the list short)
                now = w.clock_us
                if timing[0]:
                    queue[:] = [e for e in queue if e > now - 10 ** 6] or queue[-1:]
            else:
                raise K.HarnessError('unknown op %r' % (op,))
        d.close()
