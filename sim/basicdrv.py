"""
sim.basicdrv - drive a PC-BASIC Session inside a World.

Observation is through the public surfaces only: Session.execute/evaluate/get_variable/
get_chars/get_pixels/interact/suspend/resume/close and the interface queues.
"""

import io
import os
import re
import traceback

from . import kernel as K

# GW-BASIC error messages (documented table; kept here so the harness does not
# depend on the engine's own table)
ERRMSG = {
    1: b'NEXT without FOR', 2: b'Syntax error', 3: b'RETURN without GOSUB',
    4: b'Out of DATA', 5: b'Illegal function call', 6: b'Overflow', 7: b'Out of memory',
    8: b'Undefined line number', 9: b'Subscript out of range', 10: b'Duplicate Definition',
    11: b'Division by zero', 12: b'Illegal direct', 13: b'Type mismatch',
    14: b'Out of string space', 15: b'String too long', 16: b'String formula too complex',
    17: b"Can't continue", 18: b'Undefined user function', 19: b'No RESUME',
    20: b'RESUME without error', 22: b'Missing operand', 23: b'Line buffer overflow',
    24: b'Device Timeout', 25: b'Device Fault', 26: b'FOR without NEXT', 27: b'Out of paper',
    29: b'WHILE without WEND', 30: b'WEND without WHILE', 50: b'FIELD overflow',
    51: b'Internal error', 52: b'Bad file number', 53: b'File not found', 54: b'Bad file mode',
    55: b'File already open', 57: b'Device I/O error', 58: b'File already exists',
    61: b'Disk full', 62: b'Input past end', 63: b'Bad record number', 64: b'Bad file name',
    66: b'Direct statement in file', 67: b'Too many files', 68: b'Device Unavailable',
    69: b'Communication buffer overflow', 70: b'Permission Denied', 71: b'Disk not Ready',
    72: b'Disk media error', 73: b'Advanced Feature', 74: b'Rename across disks',
    75: b'Path/File access error', 76: b'Path not found', 77: b'Deadlock',
}
MSG2ERR = {v: k for k, v in ERRMSG.items()}
_ERR_RE = re.compile(
    b'(?:^|\r\n|\r|\n)([A-Za-z/\' ]+?)(?: in (\\d+))?\xff\r\n'
)


def parse_errors(out):
    """All (code, line) error reports in an output byte string, in order."""
    res = []
    for m in _ERR_RE.finditer(out):
        msg = m.group(1)
        code = MSG2ERR.get(msg)
        if code is None and msg == b'Unprintable error':
            code = -1
        if code is None:
            # the message may be preceded by text on the same line
            for k, v in MSG2ERR.items():
                if msg.endswith(k):
                    code = v
                    break
        if code is not None:
            res.append((code, int(m.group(2)) if m.group(2) else None))
    return res


def strip_errors(out):
    """Output with error reports removed."""
    return _ERR_RE.sub(b'\r\n', out)


class EngineCrash(Exception):
    """A host-language exception escaped from a Session call."""

    def __init__(self, exc, where):
        Exception.__init__(self, '%s: %s' % (type(exc).__name__, exc))
        self.exc_type = type(exc).__name__
        self.exc_msg = str(exc)[:200]
        self.where = where
        frame = 'unknown'
        tb = traceback.extract_tb(exc.__traceback__)
        for fr in reversed(tb):
            if '/pcbasic/' in fr.filename:
                frame = '%s:%s' % (fr.filename.split('/pcbasic/', 1)[1], fr.name)
                break
        self.frame = frame
        self.signature = '%s@%s' % (self.exc_type, frame)
        self.tb = ''.join(traceback.format_exception(type(exc), exc, exc.__traceback__))[-3000:]


class Res(object):
    """Result of one executed line."""
    __slots__ = ('out', 'errs', 'polls')

    def __init__(self, out, polls):
        self.out = out
        self.errs = parse_errors(out)
        self.polls = polls

    @property
    def err(self):
        """First error code or None."""
        return self.errs[0][0] if self.errs else None

    @property
    def text(self):
        return strip_errors(self.out)

    def __repr__(self):
        return 'Res(%r, errs=%r)' % (self.out, self.errs)


class ByteSink(object):
    """Output stream that only takes bytes (so the engine does not wrap it in a codec)."""

    def __init__(self, name='sink'):
        self.name = name
        self.buf = bytearray()

    def write(self, s):
        if not isinstance(s, (bytes, bytearray)):
            raise TypeError('bytes only')
        self.buf += s
        return len(s)

    def flush(self):
        pass

    def getvalue(self):
        return bytes(self.buf)

    def take(self):
        v = bytes(self.buf)
        del self.buf[:]
        return v

    def __getstate__(self):
        return {'name': self.name, 'buf': bytearray()}


_EXPECTED = None


def _expected_exc():
    global _EXPECTED
    if _EXPECTED is None:
        from pcbasic.basic.base import error
        _EXPECTED = (error.Exit,)
    return _EXPECTED


class Driver(object):
    """A Session attached to a World."""

    def __init__(self, world, session=None, **kwargs):
        from pcbasic.basic import Session
        self.w = world
        kwargs.setdefault('input_streams', None)
        kwargs.setdefault('output_streams', None)
        kwargs.setdefault('devices', {})
        if 'current_device' not in kwargs and not kwargs['devices']:
            kwargs['current_device'] = u'@'
        self.kwargs = kwargs
        self.closed = False
        if session is not None:
            self.s = session
        else:
            self.s = self._guard('Session', lambda: Session(**kwargs))
        self._guard('attach', lambda: self.s.attach(world))

    # ------------------------------------------------------------------

    def _guard(self, where, fn):
        try:
            return fn()
        except K.SimAbort:
            raise
        except _expected_exc():
            raise
        except K.HarnessError:
            raise
        except Exception as e:
            raise EngineCrash(e, where)

    def exec(self, line, poll_cap=20000):
        """Execute one direct-mode line (bytes). Returns Res."""
        w = self.w
        w.op_poll_base = w.poll_no
        w.op_poll_cap = poll_cap
        w.log.add('exec', line)
        try:
            out = self._guard(line[:40], lambda: self.s.execute(line))
        finally:
            w.op_poll_cap = None
        w.stats['ops'] += 1
        r = Res(out, w.poll_no - w.op_poll_base)
        w.log.add('out', out)
        return r

    def eval(self, expr):
        """Evaluate an expression through the API."""
        return self._guard('evaluate', lambda: self.s.evaluate(expr))

    def get(self, name):
        return self._guard('get_variable', lambda: self.s.get_variable(name))

    def set(self, name, value):
        return self._guard('set_variable', lambda: self.s.set_variable(name, value))

    def chars(self):
        return self._guard('get_chars', lambda: self.s.get_chars())

    def pixels(self):
        return self._guard('get_pixels', lambda: self.s.get_pixels())

    def peek(self, addr, n=1, seg=None):
        """PEEK n bytes through BASIC (DEF SEG unchanged unless seg is given)."""
        res = []
        pre = b''
        if seg is not None:
            pre = b'DEF SEG=%d:' % seg
        # use the API evaluate for speed; PEEK is a BASIC-visible surface
        if pre:
            self.exec(pre.rstrip(b':'))
        for i in range(n):
            res.append(int(self.eval(b'PEEK(%d)' % (addr + i))))
        return bytes(res)

    def close(self):
        if not self.closed:
            self.closed = True
            self._guard('close', lambda: self.s.close())


###############################################################################
# interactive mode

class Typist(object):
    """
    Poll hook that plays the user in interact() mode.

    script items (dicts):
      {'t': 'line', 'text': s}   typed (as stream characters + CR) when the engine idles at the prompt
      {'t': 'keys', 'text': s}   same, but as key-down signals (subject to the 15-key buffer)
      {'t': 'input', 'text': s}  typed when a running program waits for input
      {'t': 'quit'}              QUIT when the engine idles at the prompt
    After the script is exhausted a QUIT is delivered at the next idle prompt.
    `extra` is an optional callable(world, typist) run at every poll before the script logic
    (machines use it for position-keyed events).
    """

    def __init__(self, driver, script, extra=None, stall_polls=4000, input_idle=3):
        self.d = driver
        self.script = list(script)
        self.pos = 0
        self.extra = extra
        self.idle = 0
        self.stall_polls = stall_polls
        self.input_idle = input_idle
        self.stalled = 0
        self.quit_sent = False
        self.breaks_sent = 0
        self.waiting = 0

    def _impl(self):
        return self.d.s._impl

    def engine_idle(self):
        impl = self._impl()
        kb = impl.keyboard
        return kb.buf.empty and not kb._stream_buffer and not kb._expansion_vessel

    def at_prompt(self):
        impl = self._impl()
        return not impl.interpreter.parse_mode and not impl._auto_mode

    def __call__(self, w):
        if self.extra is not None:
            self.extra(w, self)
        if self.quit_sent:
            return
        if not self.engine_idle() or w.inputs.pending:
            self.idle = 0
            return
        self.idle += 1
        item = self.script[self.pos] if self.pos < len(self.script) else None
        if self.at_prompt():
            if not w.nothing_scheduled:
                return
            if item is None or item['t'] == 'quit':
                self.pos += 1
                self.quit_sent = True
                w.inputs.pending.append(K.sig_quit())
                return
            if item['t'] in ('line', 'input'):
                self.pos += 1
                self.idle = 0
                w.inputs.pending.append(K.sig_stream(item['text'] + u'\r'))
                return
            if item['t'] == 'keys':
                self.pos += 1
                self.idle = 0
                for ch in item['text'] + u'\r':
                    w.inputs.pending.append(K.sig_key(ch, None, ()))
                return
        else:
            if item is not None and item['t'] == 'input':
                # the user does not type ahead: the answer comes a few polls after the program has asked
                # (so the statement really waits, and a suspension can land inside it)
                if self._impl().interpreter.input_mode:
                    self.waiting += 1
                    if self.waiting >= self.input_idle:
                        self.pos += 1
                        self.idle = 0
                        self.waiting = 0
                        w.inputs.pending.append(K.sig_stream(item['text'] + u'\r'))
                        return
                else:
                    self.waiting = 0
            if self.idle >= self.stall_polls and w.nothing_scheduled:
                # blocked on input that will never come (or a busy loop): Ctrl-Break
                self.idle = 0
                self.stalled += 1
                self.breaks_sent += 1
                w.stats['stalled'] += 1
                if self.breaks_sent > 5:
                    raise K.SimAbort('stalled')
                w.inputs.pending.append(K.sig_break())


def interact(driver, script, extra=None, poll_cap=200000, **kw):
    """Run Session.interact() under a Typist until QUIT. Returns the typist."""
    from pcbasic.basic.base import error
    w = driver.w
    t = Typist(driver, script, extra, **kw)
    old = w.poll_hook
    w.poll_hook = t
    w.op_poll_base = w.poll_no
    w.op_poll_cap = poll_cap
    try:
        try:
            driver._guard('interact', driver.s.interact)
        except error.Exit:
            pass
    finally:
        w.poll_hook = old
        w.op_poll_cap = None
    return t


def suspend_resume(driver, path):
    """suspend -> close -> resume -> attach, the way the shipped application does."""
    from pcbasic.basic import Session
    driver._guard('suspend', lambda: driver.s.suspend(path))
    driver.close()
    s2 = driver._guard('resume', lambda: Session.resume(path))
    driver.w.faults['restart'] += 1
    return Driver(driver.w, session=s2)
