"""
prog machine - C13 (stored program == entered lines after any edit history) and
               C14 (RENUM renumbers lines, references and armed traps consistently).

C13: one run = one edit history on one Session: enter/replace/delete lines, DELETE ranges, RENUM,
NEW, SAVE (A/B/P) + LOAD/MERGE on the scratch disk and on `@:` bound files, LIST ranges, AUTO
sessions typed through the keyboard seam (interact mode), direct-mode GOTO probes. Faults:
memory pressure (max_memory), injected OSErrors on the save/load path (sim.simfs), torn files
(truncated behind the engine's back before LOAD/MERGE). Oracle: a sorted dict line -> text with
symbolic line references (so RENUM can be modelled); after every op LIST (to a file every op, on
the console for `list` ops and at the end) equals the model; PEEK walk of the line links from
DS:30h; GOTO n lands on line n (prints its uid). Memory-limited histories (small max_memory and / or
CLEAR ,n[,m] during the history; long REM/DATA lines typed or MERGEd in front of, between and behind the
existing lines): a refused line (Out of memory) leaves listing and links as they were, an accepted line,
MERGE, LOAD or CLEAR leaves a program that fits: FRE(0) is not negative, FRE("") works when more than a few
bytes are left, and A=1 succeeds when FRE reports 64 bytes or more.

C14: one run = a generated program with every kind of line reference, entered in two Sessions
(arm A and arm B) and run under the same poll-keyed event schedule so that it stops with traps
armed. Arm A then executes RENUM (random new/old/step) where arm B executes a REM: nothing that
stores program lines is used as the counterpart, because storing a line (typed or MERGEd) clears
variables and traps. Oracle: reference
renumbering (LIST == model, `Undefined line x in y` for missing targets, rejected RENUM leaves
the program unchanged); every later observation (ERROR n in direct mode -> armed error trap,
GOTO <wait loop> with an event scheduled -> armed event trap, RUN under a schedule) must give
the same output in A as in B once the line numbers in error messages are mapped back.
About a third of the programs are *staged*: each stage puts every event trap (KEY(n), TIMER, PEN,
STRIG(0), PLAY) into some state - defined only, ON, ON then STOP, STOP only, ON then OFF, ON before it
is defined, not defined yet - pauses at main level (STOP, or a loop in which a position-keyed
Ctrl-Break arrives; sometimes also a STOP in the error handler), and after the pause defines what
is missing, switches the traps ON and waits for them. The history is RUN, then per pause RENUM
and CONT with the events keyed to the stage's wait
loop (n-th statement boundary on that line of the original numbering; TIMER and PLAY through
steps of the simulated clock). The CONT output must be the same in both arms. COM traps cannot
fire (no serial back end in the simulation) and are left out.
"""

import os
import re
import errno
import struct
import logging

from .. import kernel as K
from ..basicdrv import Driver, EngineCrash, ByteSink, interact
from .. import simfs
from .common import execute, b, u

NAME = 'prog'
PROPS = ('C13', 'C14')
RULE = ('C13: one evaluation = one simulated edit history on one Session (8-400 ops); distinct = distinct '
        '(op kind, previous op kind, program-size bucket, outcome ok/err/crash, fault fired, memory pressure) '
        'tuples; non-trivial = LIST was compared with the model after the op. '
        'C14: one evaluation = one generated program run in two Sessions (with / without RENUM) under one '
        'event schedule; distinct = distinct (op kind, RENUM outcome, which argument given, position of the '
        'armed trap lines relative to `old`, RENUM in a pause before CONT or not, program-size bucket, event kind) '
        'tuples; non-trivial = the '
        'renumbered listing and at least one post-RENUM behaviour were compared.')
REAL = ['pcbasic.basic (whole package): tokeniser, lister, Program, Interpreter.renum_, Files/DiskDevice/'
        'InternalDiskDevice, TextFile/BinaryFile, protect/unprotect, console line editor (AUTO)',
        'host tmpfs for every file operation that is not faulted']
STUB = ['wall clock (simulated)', 'interface queues (simulated; keyboard, pen, joystick signals scripted; audio queue recorded)',
        'host file system errors (injected by sim.simfs wrappers)', 'cassette and serial devices (not attached: COM traps cannot fire)']
ASSUMPTIONS = [
    'line text comes from templates whose listing is canonical (tokenise/list round trip is C17, not judged here)',
    'C14 arm B executes REM as the un-renumbered counterpart of RENUM; the engine drops the GOSUB/FOR/WHILE '
    'stacks at RENUM, which the property does not speak about, so nothing is compared after a RENUM at which a stack '
    'was not empty, until the next RUN (read from the engine only to gate the comparison)',
    'C14 assumes that CONT after RENUM continues the program (GW-BASIC does; the property compares the behaviour of '
    'the renumbered program with the original one, which includes the rest of a paused run)',
    'torn binary (B/P) program files: no equality is claimed after LOAD, only absence of internal errors (tagged C01)',
]
BATCH = 10

MAXLINE = 65529


def quick_runs(prop):
    return 3000


###############################################################################
# line representation: parts = list of str | [lineno]; a one-element list is a line reference

def ptext(parts):
    return ''.join(str(p[0]) if isinstance(p, list) else p for p in parts)


def prefs(parts):
    return [p[0] for p in parts if isinstance(p, list)]


def premap(parts, mp):
    return [[mp.get(p[0], p[0])] if isinstance(p, list) else p for p in parts]


class Model(object):
    """Reference model: dict line number -> {'parts', 'k', 'uid'}."""

    def __init__(self):
        self.lines = {}

    def copy_lines(self):
        return {n: dict(v) for n, v in self.lines.items()}

    def listing(self, lo=None, hi=None, lines=None):
        lines = self.lines if lines is None else lines
        return [(n, ptext(lines[n]['parts'])) for n in sorted(lines)
                if (lo is None or n >= lo) and (hi is None or n <= hi)]

    def renum_plan(self, new, old, step):
        """-> dict(ok=True|False|None (None: not specified, follow the engine), mapping, missing)."""
        new = 10 if new is None else new
        old_given = old is not None
        old = 0 if old is None else old
        step = 10 if step is None else step
        keep = [n for n in self.lines if n < old]
        ren = sorted(n for n in self.lines if n >= old)
        ok = True
        if step < 1:
            ok = False
        elif keep and ren and new <= max(keep):
            ok = False
        elif ren and new + (len(ren) - 1) * step > MAXLINE:
            ok = False
        elif new > MAXLINE:
            ok = None
        elif keep and not ren and new <= max(keep):
            # nothing to renumber but `new` collides: not specified
            ok = None
        elif old_given and old not in self.lines and old != 0:
            # GW-BASIC documents `old` as a line of the program; a missing one is not specified
            ok = None
        mapping = {n: new + i * step for i, n in enumerate(ren)}
        missing = []
        for n in sorted(self.lines):
            for r in prefs(self.lines[n]['parts']):
                if r not in self.lines:
                    missing.append((r, n))
        return {'ok': ok, 'mapping': mapping, 'missing': missing}

    def apply_renum(self, mapping):
        self.lines = {mapping.get(n, n): dict(v, parts=premap(v['parts'], mapping)) for n, v in self.lines.items()}

    def trace(self, n, limit=400):
        """What does `GOTO n` in direct mode print? -> ('out', uid) | ('none',) | ('err8', line) | ('skip',)"""
        order = sorted(self.lines)
        if n not in self.lines:
            return ('err8', None)
        cur = n
        for _ in range(limit):
            rec = self.lines[cur]
            k = rec['k']
            if k == 'print':
                return ('out', rec['uid'])
            if k in ('goto', 'gosub', 'else'):
                refs = prefs(rec['parts'])
                tgt = refs[1] if k == 'else' else refs[0]
                if tgt not in self.lines:
                    return ('err8', cur)
                cur = tgt
                continue
            if k != 'pass':
                return ('skip',)
            i = order.index(cur) + 1
            if i >= len(order):
                return ('none',)
            cur = order[i]
        return ('skip',)


###############################################################################
# engine access

_LINE_RE = re.compile(br'^(\d+) (.*)$', re.S)


def parse_listing(data):
    """LIST output (console capture or file) -> [(n, text)] or None if it is not a listing."""
    if data.endswith(b'\x1a'):
        data = data[:-1]
    if not data:
        return []
    if not data.endswith(b'\r\n'):
        return None
    res = []
    for ln in data[:-2].split(b'\r\n'):
        m = _LINE_RE.match(ln)
        if not m:
            return None
        # a line entered as line 0 keeps its blank in the token stream (GW-BASIC does the same) and shows
        # it once RENUM gives it another number; blanks after the line number are outside the claim
        res.append((int(m.group(1)), u(m.group(2)).lstrip(' ')))
    return res


def _read(path):
    try:
        with simfs.real_open(path, 'rb') as f:
            return f.read()
    except OSError:
        return None


def _write(path, data):
    with simfs.real_open(path, 'wb') as f:
        f.write(data)


def cancel_scheduled(w):
    """Drop external events that were scheduled for an op but never fired (wish: World API)."""
    w._at_poll.clear()
    del w._timed[:]
    w.inputs.pending.clear()


class Eng(object):
    """A Driver plus the housekeeping this machine needs."""

    def __init__(self, run, w, d, root):
        self.run = run
        self.w = w
        self.d = d
        self.root = root
        self.scr = 0
        self.lst = os.path.join(root, 'c', 'LST.TXT')

    def x(self, line, poll_cap=20000):
        r = self.d.exec(line, poll_cap=poll_cap)
        self.scr += r.out.count(b'\n') + 1
        return r

    def room(self, expect=2):
        """Keep console output from scrolling (scrolling costs ~3 ms a line in the engine)."""
        if self.scr + expect > 20:
            self.d.exec(b'CLS')
            self.scr = 0

    def list_file(self):
        """LIST ,"LST.TXT" and parse the file. -> [(n, text)] | None"""
        try:
            os.remove(self.lst)
        except OSError:
            pass
        r = self.x(b'LIST ,"C:LST.TXT"')
        if r.err in (7, 14):
            # no room for the file name string under memory pressure: list on the console
            return self.list_screen(b'', 30)
        if r.err is not None:
            return None
        data = _read(self.lst)
        if data is None:
            return None
        return parse_listing(data)

    def list_screen(self, rng=b'', expect=2):
        self.room(expect + 1)
        r = self.x(b'LIST' + (b' ' + rng if rng else b''), poll_cap=60000)
        if r.err is not None:
            return None
        return parse_listing(r.out)

    def peek16(self, addr):
        return int(self.d.eval(b'PEEK(%d)+256*PEEK(%d)' % (addr, addr + 1)))

    def peek_chain(self, limit):
        """Walk the line links from DS:30h. -> (numbers, problem|None)"""
        start = self.peek16(0x30)
        addr = start
        nums = []
        while True:
            nxt = self.peek16(addr)
            if nxt == 0:
                return nums, None
            if len(nums) >= limit:
                return nums, 'chain-longer-than-program'
            nums.append(self.peek16(addr + 2))
            if nxt < addr + 5 or nxt > 65535:
                return nums, 'link-not-forward'
            if int(self.d.eval(b'PEEK(%d)' % (nxt - 1))) != 0:
                return nums, 'link-not-at-line-end'
            addr = nxt


def _diff(got, exp):
    if got is None:
        return 'engine listing unreadable; expected %r' % (exp[:6],)
    gs, es = set(got), set(exp)
    return 'engine-only lines %r; model-only lines %r; engine order %r' % (
        sorted(gs - es)[:6], sorted(es - gs)[:6], [n for n, _ in got][:40])


###############################################################################
# C13 generator

_ALNUM = 'ABCDEFGHIJKLMNOPQRSTUVWXYZabcdefghijklmnopqrstuvwxyz0123456789'
_PUNCT = ' -_.,;!?()*+/<>=#$%&'
_ERRNOS = ['ENOSPC', 'EIO', 'EACCES', 'EROFS', 'ENOENT', 'EBUSY', 'EMFILE']
DISK_NAMES = ['P0', 'P1', 'P2', 'P3']
BOUND_NAMES = ['B1', 'B2']


def _word(rng, lo, hi, punct=False):
    n = rng.randint(lo, hi)
    alpha = _ALNUM + (_PUNCT if punct else '')
    s = ''.join(rng.choice(alpha) for _ in range(n))
    if punct:
        s = s.strip() or 'x'
    return s


class _Gen13(object):
    def __init__(self, rng, tier):
        self.rng = rng
        self.tier = tier
        self.uidn = 0
        self.have = set()
        self.grave = []
        self.saved = []
        self.savedfmt = {}
        rnd = rng.randint
        # 12301 + 256 k: the tokenised line number is a CR byte followed by an ASCII digit, which matters to
        # anything that reads a tokenised file as text
        self.centres = [0, 10, 100, 1000, 32767, MAXLINE, rnd(0, MAXLINE),
                        12301 + 256 * rnd(0, 9) if rng.random() < 0.5 else rnd(0, MAXLINE)]
        self.dense = rng.random() < 0.5

    def uid(self):
        self.uidn += 1
        rng = self.rng
        r = rng.random()
        if r < 0.8:
            tail = _word(rng, 0, 8)
        elif r < 0.95:
            tail = _word(rng, 10, 60, punct=True)
        else:
            tail = _word(rng, 100, 225, punct=True)
        return 'u%d%s' % (self.uidn, ('.' + tail) if tail else '')

    def number(self, existing=0.3, grave=0.1):
        rng = self.rng
        r = rng.random()
        if self.have and r < existing:
            return rng.choice(sorted(self.have))
        if self.grave and r < existing + grave:
            return rng.choice(self.grave)
        if rng.random() < 0.15:
            return rng.randint(0, MAXLINE)
        c = rng.choice(self.centres[:4] if self.dense and rng.random() < 0.7 else self.centres)
        off = rng.choice([0, 1, 2, 3, 4, 5, 7, 10, 20, 30, -1, -2, -5, -10]) * rng.choice([1, 1, 1, 2, 10])
        return min(MAXLINE, max(0, c + off))

    def target(self):
        """A line reference: mostly existing."""
        if self.have and self.rng.random() < 0.75:
            return self.rng.choice(sorted(self.have))
        return self.number(existing=0, grave=0.3)

    def line_rec(self):
        rng = self.rng
        r = rng.random()
        if r < 0.45:
            uid = self.uid()
            return {'parts': ['PRINT "%s":END' % uid], 'k': 'print', 'uid': uid}
        if r < 0.54:
            return {'parts': ['REM ' + _word(rng, 1, 30 if rng.random() < 0.9 else 200)], 'k': 'pass', 'uid': None}
        if r < 0.60:
            items = [rng.choice([str(rng.randint(0, 999)), '"%s"' % _word(rng, 1, 6), _word(rng, 1, 5)])
                     for _ in range(rng.randint(1, 5))]
            return {'parts': ['DATA ' + ','.join(items)], 'k': 'pass', 'uid': None}
        if r < 0.68:
            t = rng.choice(['A%%=%d' % rng.randint(0, 32767), 'B$="%s"' % _word(rng, 0, 12),
                            'C%%=%d:D%%=%d' % (rng.randint(0, 99), rng.randint(0, 99))])
            return {'parts': [t], 'k': 'pass', 'uid': None}
        if r < 0.80:
            return {'parts': ['GOTO ', [self.target()]], 'k': 'goto', 'uid': None}
        if r < 0.86:
            return {'parts': ['GOSUB ', [self.target()]], 'k': 'gosub', 'uid': None}
        if r < 0.93:
            return {'parts': ['IF Z% THEN ', [self.target()], ' ELSE ', [self.target()]], 'k': 'else', 'uid': None}
        return {'parts': ['ON Z% GOTO ', [self.target()], ',', [self.target()]], 'k': 'pass', 'uid': None}

    def rng_pair(self):
        """A line range (a, b, single) for DELETE/LIST."""
        rng = self.rng
        pick = (lambda: rng.choice(sorted(self.have))) if self.have and rng.random() < 0.7 else (lambda: self.number(0, 0.3))
        form = rng.random()
        if form < 0.3:
            return pick(), None, True
        a, c = pick(), pick()
        if a > c and rng.random() < 0.9:
            a, c = c, a
        if form < 0.7:
            return a, c, False
        if form < 0.85:
            return None, c, False
        return a, None, False

    def fault(self, kinds, maxn):
        rng = self.rng
        # text files are read and written a byte at a time (plus 2-3 calls when opening), tokenised
        # files in 3 calls: small counts hit the open path, large ones the middle of a text file
        f = {'kind': rng.choice(kinds), 'nth': rng.choice([1, 2, 3, rng.randint(4, 40), rng.randint(4, 200), rng.randint(4, maxn)]),
             'err': rng.choice(_ERRNOS)}
        if f['kind'] == 'write' and rng.random() < 0.4:
            f['torn'] = rng.randint(0, 40)
        return f

    def place(self):
        """A line number in front of, between or behind the existing lines."""
        rng = self.rng
        have = sorted(self.have)
        if not have:
            return self.number()
        r = rng.random()
        if r < 0.4 and have[0] > 0:
            return max(0, have[0] - rng.choice([1, 2, 5, 10]))
        if r < 0.7 and len(have) > 1:
            i = rng.randrange(len(have) - 1)
            return have[i] + (have[i + 1] - have[i]) // 2
        if r < 0.8:
            return rng.choice(have)
        return min(MAXLINE, have[-1] + rng.choice([1, 10, 100]))

    def long_rec(self, space):
        """A REM or DATA line whose length matters against `space` bytes of program memory."""
        rng = self.rng
        n = rng.randint(8, max(10, min(240, space)))
        if rng.random() < 0.6:
            return {'parts': ['REM ' + _word(rng, n, n)], 'k': 'pass', 'uid': None}
        items = [_word(rng, 3, 9)]
        while len(','.join(items)) < n - 10:
            items.append(_word(rng, 3, 9))
        return {'parts': ['DATA ' + ','.join(items)], 'k': 'pass', 'uid': None}

    def ops(self, nops, faulty, mem, clr=False):
        rng = self.rng
        out = []
        tight = mem < 65534 or clr
        space = max(16, mem - 5232) if mem < 65534 else 400
        for _ in range(nops):
            if tight:
                q = rng.random()
                if clr and q < 0.05:
                    # CLEAR ,n[,m]: the memory BASIC may use and the stack size; program space is what is left
                    space = int(2 ** rng.uniform(5, 12))
                    stack = rng.choice([None, None, None, 64, 100, 256, 512, 1024])
                    out.append({'op': 'clear', 'mem': 4718 + (512 if stack is None else stack) + space, 'stack': stack})
                    continue
                if q < 0.10 and self.have:
                    # save as text, drop the lines at the front, grow the rest, merge the front lines back in
                    name = rng.choice(DISK_NAMES)
                    have = sorted(self.have)
                    cut = have[rng.randrange(len(have))]
                    out.append({'op': 'save', 'name': name, 'fmt': 'A'})
                    self.savedfmt[name] = ('A', len(self.have))
                    if name not in self.saved:
                        self.saved.append(name)
                    out.append({'op': 'delete', 'a': None, 'b': cut, 'single': False, 'chk': False})
                    for _ in range(rng.randint(0, 3)):
                        n = min(MAXLINE, have[-1] + rng.randint(1, 50))
                        out.append(dict(self.long_rec(space), op='line', n=n, chk=False))
                        self.have.add(n)
                    out.append({'op': 'merge', 'name': name, 'chk': rng.random() < 0.5})
                    continue
            r = rng.random()
            chk = rng.random() < 0.25
            if r < 0.44 or not self.have and r < 0.8:
                n = self.number()
                if rng.random() < 0.01:
                    n = rng.randint(MAXLINE + 1, 65535)
                rec = self.line_rec()
                if tight and rng.random() < 0.4:
                    n = self.place()
                    rec = self.long_rec(space)
                out.append(dict(rec, op='line', n=n, chk=chk))
                if n <= MAXLINE:
                    self.have.add(n)
            elif r < 0.50:
                n = self.number(existing=0.75, grave=0.15)
                out.append({'op': 'empty', 'n': n, 'chk': chk})
                if n in self.have:
                    self.have.discard(n)
                    self.grave.append(n)
            elif r < 0.58:
                a, c, single = self.rng_pair()
                out.append({'op': 'delete', 'a': a, 'b': c, 'single': single, 'chk': chk})
                lo = a if a is not None else 0
                hi = lo if single else (c if c is not None else 65535)
                for n in sorted(self.have):
                    if lo <= n <= hi:
                        self.have.discard(n)
                        self.grave.append(n)
            elif r < 0.63:
                new = rng.choice([None, None, 10, 100, 1000, rng.randint(0, MAXLINE), self.number(0.5)])
                old = rng.choice([None, None, self.number(0.9, 0), self.number(0.9, 0)])
                step = rng.choice([None, None, 1, 2, 5, 10, 100, rng.randint(1, 400), 0 if rng.random() < 0.2 else 3])
                out.append({'op': 'renum', 'new': new, 'old': old, 'step': step, 'chk': True})
                # the generator's idea of the numbers is only a guide from here on
                if self.have and (old is None or old == 0) and (new is None or new < 60000):
                    st = 10 if step is None else step
                    nw = 10 if new is None else new
                    if st >= 1 and nw + st * len(self.have) <= MAXLINE:
                        self.have = set(nw + i * st for i in range(len(self.have)))
            elif r < 0.645:
                out.append({'op': 'new'})
                self.grave.extend(sorted(self.have))
                self.have = set()
            elif r < 0.72:
                name = rng.choice(DISK_NAMES + BOUND_NAMES)
                op = {'op': 'save', 'name': name, 'fmt': rng.choice(['A', 'A', 'B', 'B', 'P'])}
                if faulty and rng.random() < 0.45:
                    op['fault'] = self.fault(['write', 'write', 'open', 'close', 'flush'], 1200)
                out.append(op)
                self.savedfmt[name] = (op['fmt'], len(self.have))
                if name not in self.saved:
                    self.saved.append(name)
            elif r < 0.83:
                name = rng.choice(self.saved) if self.saved and rng.random() < 0.85 else rng.choice(DISK_NAMES + BOUND_NAMES)
                op = {'op': 'load' if rng.random() < 0.5 else 'merge', 'name': name, 'chk': chk}
                if faulty:
                    q = rng.random()
                    if q < 0.30:
                        op['tear'] = rng.choice([0, 1, 2, 999, rng.randint(0, 1000), rng.randint(0, 1000)])
                    elif q < 0.65:
                        op['fault'] = self.fault(['read', 'read', 'read', 'open', 'seek', 'close'], 1200)
                        fmt, nl = self.savedfmt.get(name, ('B', 0))
                        if op['fault']['kind'] == 'read' and fmt != 'B' and rng.random() < 0.7:
                            # text and protected files are read a byte at a time: aim inside the file
                            op['fault']['nth'] = rng.randint(3, 5 + (22 if fmt == 'A' else 12) * max(1, nl))
                out.append(op)
            elif r < 0.88:
                a, c, single = self.rng_pair()
                out.append({'op': 'list', 'a': a, 'b': c, 'single': single})
            elif r < 0.96:
                out.append({'op': 'goto', 'n': self.number(existing=0.9, grave=0.05)})
            else:
                start = rng.choice([None, self.number(0.3), self.number(0.3)])
                inc = rng.choice([None, 1, 2, 5, 10, 100, rng.randint(1, 3000)])
                items = []
                n = 10 if start is None else start
                for _ in range(rng.randint(1, 6)):
                    if n in self.have and rng.random() < 0.5:
                        items.append({'skip': 1})
                    else:
                        rec = self.line_rec()
                        items.append(dict(rec, via=rng.choice(['s', 's', 'k'])))
                        if n <= MAXLINE:
                            self.have.add(n)
                    n += 10 if inc is None else inc
                out.append({'op': 'auto', 'start': start, 'inc': inc, 'items': items, 'chk': chk})
        return out


def gen13(rng, tier):
    quick = tier == 'quick'
    faulty = rng.random() >= 0.4
    mem = 65534
    if faulty and rng.random() < 0.4:
        # program space = max_memory - 514 (stack) - 4718 (code start with the default file buffers)
        mem = 5232 + int(round(2 ** rng.uniform(5.5, 12.5)))
    nops = rng.randint(8, 60) if quick else rng.randint(30, 400)
    # memory-limited histories: a small session (max_memory) and / or CLEAR ,n[,m] during the history
    clr = faulty and rng.random() < 0.3
    g = _Gen13(rng, tier)
    pre = []
    if rng.random() < 0.05:
        # a history that starts with a tokenised file whose first line number is a CR byte followed by a digit
        # (a text-mode reader sees a line break there), then goes on as usual
        n = 12301 + 256 * rng.randint(0, 9)
        pre = [dict(g.line_rec(), op='line', n=n, chk=False),
               {'op': 'save', 'name': 'P0', 'fmt': 'B'}]
        g.have.add(n)
        g.saved.append('P0')
        g.savedfmt['P0'] = ('B', 1)
        if rng.random() < 0.7:
            pre.append({'op': 'merge', 'name': 'P0', 'chk': False})
    ops = pre + g.ops(nops, faulty, mem, clr)
    cfg = {'max_memory': mem, 'faults': faulty, 'syntax': rng.choice(['advanced', 'advanced', 'pcjr', 'tandy'])}
    return {'machine': NAME, 'prop': 'C13', 'cfg': cfg, 'ops': ops}


###############################################################################
# C13 run

def _fname(root, name):
    if name in BOUND_NAMES:
        return b'@:' + b(name), os.path.join(root, 'b', name + '.BAS')
    return b'C:' + b(name), os.path.join(root, 'c', name + '.BAS')


def _range_text(op):
    a, c = op['a'], op['b']
    if op['single']:
        return b'%d' % (a if a is not None else 0), (a if a is not None else 0), (a if a is not None else 0)
    t = (b'%d' % a if a is not None else b'') + b'-' + (b'%d' % c if c is not None else b'')
    return t, a, c


def _renum_text(op):
    new, old, step = op['new'], op['old'], op['step']
    t = b'RENUM'
    if new is not None or old is not None or step is not None:
        t += b' ' + (b'%d' % new if new is not None else b'')
    if old is not None or step is not None:
        t += b',' + (b'%d' % old if old is not None else b'')
    if step is not None:
        t += b',%d' % step
    return t


def _auto_extra(w, t):
    """Typist extension: items typed while the engine is in AUTO mode, and Ctrl-Break."""
    item = t.script[t.pos] if t.pos < len(t.script) else None
    if item is None or item['t'] not in ('ain', 'akeys', 'brk'):
        return
    if not t.engine_idle() or w.inputs.pending:
        return
    if t._impl().interpreter.parse_mode:
        return
    if item['t'] == 'brk':
        t.pos += 1
        w.inputs.pending.append(K.sig_break())
    elif item['t'] == 'ain':
        t.pos += 1
        w.inputs.pending.append(K.sig_stream(item['text'] + u'\r'))
    else:
        text = item['text']
        if text == u'':
            t.pos += 1
            w.inputs.pending.append(K.sig_key(u'\r', None, ()))
        else:
            # at most 8 keys a poll: the keyboard ring holds 15
            for ch in text[:8]:
                w.inputs.pending.append(K.sig_key(ch, None, ()))
            t.script[t.pos] = dict(item, text=text[8:])


def _parse_ascii(data):
    """Bytes of an ASCII program file -> ([(n, text)] complete lines, dirty line number | None)."""
    if b'\x1a' in data:
        data = data[:data.index(b'\x1a')]
    data = data.replace(b'\r\n', b'\r')
    chunks = data.split(b'\r')
    tail = chunks.pop()
    lines = []
    for ch in chunks:
        m = re.match(br'^ *(\d+) ?(.*)$', ch, re.S)
        if m:
            lines.append((int(m.group(1)), u(m.group(2)).lstrip(' ')))
    dirty = None
    m = re.match(br'^ *(\d+)', tail)
    if m:
        dirty = int(m.group(1))
    return lines, dirty


def run13(case):
    simfs.install_fs_seams()
    logging.disable(logging.CRITICAL)
    cfg = case['cfg']

    def body(run):
        w = run.w
        root = run.make_scratch()
        os.makedirs(os.path.join(root, 'c'))
        os.makedirs(os.path.join(root, 'b'))
        fs = simfs.SimFS(w, [root])
        mem = int(cfg.get('max_memory', 65534))
        pressure = mem < 65534
        faults_on = bool(cfg.get('faults'))
        M = Model()
        files = {}
        with w:
            sink = ByteSink()
            d = Driver(w, devices={'C:': os.path.join(root, 'c')}, current_device='C:', output_streams=sink,
                       max_memory=mem, syntax=cfg.get('syntax', 'advanced'))
            for name in BOUND_NAMES:
                spec, host = _fname(root, name)
                d._guard('bind_file', lambda: d.s.bind_file(host, name=name, create=True))
            E = Eng(run, w, d, root)
            prev = ['start']

            def bucket():
                n = len(M.lines)
                return 0 if n == 0 else 1 if n == 1 else 2 if n <= 5 else 3 if n <= 20 else 4

            def note(kind, outcome, fired=False):
                run.state('C13', kind, prev[0], bucket(), outcome, fired, pressure)
                prev[0] = kind

            def c01(e, what):
                # an internal error under an injected fault is C01's business; the class of the
                # host error (PermissionError, FileNotFoundError, ...) is not part of the signature
                import builtins
                et = getattr(builtins, e.exc_type, None)
                name = 'OSError' if isinstance(et, type) and issubclass(et, OSError) else e.exc_type
                run.violate('C01', 'crash:%s@%s:%s' % (name, e.frame, what), '%s: %s\n%s' % (e.exc_type, e.exc_msg, e.tb))

            def check_list(tag, dirty=None):
                got = E.list_file()
                exp = M.listing()
                if dirty is not None and got is not None:
                    got = [x for x in got if x[0] != dirty]
                    exp = [x for x in exp if x[0] != dirty]
                run.probe('list_checks')
                if got != exp:
                    run.violate('C13', 'list-mismatch:' + tag, _diff(got, exp))
                    return False
                return True

            fits_reported = [False]

            def check_fits(tag, alloc=False):
                """The program that was accepted fits in memory: FRE is not negative, FRE("") works, and a small
                allocation succeeds when FRE says there is room for it."""
                if fits_reported[0]:
                    # the same overshoot would be reported after every later op
                    return True
                run.probe('fits_checks')
                f = d.eval(b'FRE(0)')
                if f is None or f < 0:
                    fits_reported[0] = True
                    # an overshoot of one or two bytes comes from the three-byte end marker of the program being
                    # counted as one byte; anything more is a line that was accepted without room for it
                    sig = 'fre-minus-1-or-2' if f is not None and f >= -2 else 'fre-negative'
                    run.violate('C13', 'program-outgrew-memory:%s:%s' % (sig, tag),
                                'FRE(0) gives %r with the program %r...' % (f, M.listing()[:8]))
                    return False
                if f < 16:
                    # with next to nothing left an Out of memory for the operand of FRE("") is in order
                    return True
                g = d.eval(b'FRE("")')
                if g is None or g < 0:
                    fits_reported[0] = True
                    run.violate('C13', 'program-outgrew-memory:fre-string-fails:' + tag,
                                'FRE(0) gives %r but FRE("") gives %r' % (f, g))
                    return False
                if alloc and min(f, g) >= 64:
                    r = E.x(b'A=1')
                    if r.err is not None:
                        fits_reported[0] = True
                        run.violate('C13', 'program-outgrew-memory:allocation-fails-though-fre-reports-room:' + tag,
                                    'FRE(0) gives %r, FRE("") gives %r, and A=1 gives %r' % (f, g, r.errs))
                        return False
                    run.probe('fits_alloc_checks')
                return True

            def check_chain(tag):
                nums, problem = E.peek_chain(len(M.lines) + 3)
                run.probe('chain_checks')
                if problem is not None:
                    run.violate('C13', 'chain:%s:%s' % (problem, tag), 'walk from DS:30h gave %r, model %r' % (
                        nums[:50], sorted(M.lines)[:50]))
                elif nums != sorted(M.lines):
                    run.violate('C13', 'chain:numbers-differ:' + tag, 'walk from DS:30h gave %r, model %r' % (
                        nums[:50], sorted(M.lines)[:50]))

            def store_outcome(r, n, rec, tag):
                """Shared by line entry; returns outcome string."""
                if n > MAXLINE:
                    if r.err is None:
                        run.violate('C13', 'line>65529-accepted', 'line %d was stored' % n)
                        M.lines[n] = rec
                    return 'err'
                if r.err is None:
                    M.lines[n] = rec
                    return 'ok'
                if r.err == 7 and pressure:
                    run.probe('oom_on_store')
                    return 'oom'
                run.violate('C13', 'line-store-error:' + tag, 'entering %d %s gave %r' % (n, ptext(rec['parts'])[:60], r.errs))
                return 'err'

            def with_fault(op, host, fn):
                """Run fn() with op's fault armed. -> (result|None, crash|None, fired)"""
                n0 = len(fs.fired)
                f = op.get('fault')
                if f and faults_on:
                    fs.arm(f['kind'], nth=int(f.get('nth', 1)), err=getattr(errno, f.get('err', 'EIO'), errno.EIO),
                           path_sub=os.path.basename(host), torn=f.get('torn'))
                res, crash = None, None
                try:
                    res = fn()
                except EngineCrash as e:
                    crash = e
                finally:
                    fs.disarm()
                return res, crash, len(fs.fired) > n0

            def canonical(lines):
                return b''.join(b'%d %s\r\n' % (n, b(t)) for n, t in lines) + b'\x1a'

            def do_save(op):
                name, fmt = op['name'], op.get('fmt', 'B')
                spec, host = _fname(root, name)
                before = _read(host)
                snap = M.copy_lines()
                cmd = b'SAVE "' + spec + b'"' + (b',' + b(fmt) if fmt != 'B' else b'')
                r, crash, fired = with_fault(op, host, lambda: E.x(cmd))
                after = _read(host)
                if crash is not None:
                    if not fired:
                        raise crash
                    c01(crash, 'SAVE,%s under injected I/O error' % fmt)
                ok = crash is None and r.err is None
                canon = canonical(M.listing())
                if ok:
                    good = not fired
                    if fmt == 'A' and parse_listing(after or b'') != M.listing():
                        good = False
                        if not fired:
                            run.violate('C13', 'save-ascii-differs-from-listing',
                                        'SAVE,A wrote %r..., listing is %r...' % ((after or b'')[:200], canon[:200]))
                        else:
                            run.violate('C15', 'save-acknowledged-but-file-incomplete:after-io-error',
                                        'SAVE,A reported success, file has %d of %d bytes' % (len(after or b''), len(canon)))
                    files[name] = {'lines': snap, 'bytes': after, 'good': good and after is not None}
                else:
                    if not fired and not (pressure and r.err in (7, 14)):
                        run.violate('C13', 'save-error-without-fault', 'SAVE %s,%s gave %r' % (name, fmt, r and r.errs))
                    if fmt == 'A' and after is not None and after != before:
                        part = _parse_ascii(after)[0]
                        if part != M.listing()[:len(part)]:
                            run.violate('C13', 'save-ascii-wrote-foreign-bytes:after-io-error',
                                        'file %r... is no prefix of the listing %r...' % (after[:200], canon[:200]))
                    if after != before or name not in files:
                        files[name] = {'lines': snap, 'bytes': after, 'good': False}
                note('save' + fmt, 'ok' if ok else 'crash' if crash else 'err', fired)
                check_list('after-save' + (':io-error' if fired else ''))

            def do_load(op, merge):
                name = op['name']
                kindname = 'merge' if merge else 'load'
                spec, host = _fname(root, name)
                rec = files.get(name)
                actual = _read(host)
                torn = False
                if 'tear' in op and faults_on and actual:
                    keep = len(actual) * int(op['tear']) // 1000
                    if keep < len(actual):
                        actual = actual[:keep]
                        _write(host, actual)
                        torn = True
                        run.fault('torn-file')
                        if rec is not None:
                            rec['good'] = False
                before = M.copy_lines()
                cmd = (b'MERGE "' if merge else b'LOAD "') + spec + b'"'
                r, crash, fired = with_fault(op, host, lambda: E.x(cmd))
                if crash is not None:
                    if not (fired or torn or (rec is not None and not rec['good'])):
                        raise crash
                    c01(crash, '%s of a %s file' % (kindname.upper(), 'torn' if torn or not fired else 'faulted'))
                err = None if crash is not None else r.err
                failed = crash is not None or err is not None
                intact = actual is not None and rec is not None and rec['good'] and actual == rec['bytes']
                # a file left behind by a failed SAVE is as good as torn
                relaxed = fired or torn or crash is not None or (actual is not None and not intact)
                tag = 'after-' + kindname + (':torn' if torn or (actual is not None and not intact) else '') + (':io-error' if fired else '')
                got = E.list_file()
                blist = M.listing(lines=before)
                outcome = 'crash' if crash else 'err' if failed else 'ok'
                if actual is None:
                    # no such file: an error, and nothing happens
                    if not failed:
                        run.violate('C13', kindname + '-missing-file-accepted', '%s of a file that does not exist gave no error' % kindname)
                    note(kindname + '-nofile', outcome, fired)
                    check_list(tag)
                    return
                kind = 'B' if actual[:1] == b'\xff' else 'P' if actual[:1] == b'\xfe' else 'A'
                snap = rec['lines'] if rec is not None else {}
                if kind == 'A':
                    flines, dirty = _parse_ascii(actual)
                    if intact:
                        dirty = None
                    # line records for the file's lines (parts with symbolic references come from the snapshot)
                    recs = []
                    for n, t in flines:
                        s = snap.get(n)
                        if s is not None and ptext(s['parts']) == t:
                            recs.append((n, dict(s)))
                        else:
                            recs.append((n, {'parts': [t], 'k': 'opaque', 'uid': None}))
                    base = before if merge else {}

                    def applied(j):
                        ls = {n: dict(v) for n, v in base.items()}
                        for n, v in recs[:j]:
                            if n <= MAXLINE:
                                ls[n] = v
                        return ls

                    def same(ls):
                        e = M.listing(lines=ls)
                        g = got
                        if dirty is not None and g is not None:
                            e = [x for x in e if x[0] != dirty]
                            g = [x for x in g if x[0] != dirty]
                        return g == e

                    chosen = None
                    if not failed:
                        if same(applied(len(recs))):
                            chosen = applied(len(recs))
                    else:
                        if not relaxed and not (pressure and err in (7, 14)):
                            run.violate('C13', kindname + '-error-without-fault',
                                        '%s of an intact ASCII file gave %r' % (kindname, r.errs))
                        for j in range(len(recs), -1, -1):
                            if same(applied(j)):
                                chosen = applied(j)
                                if j < len(recs):
                                    run.probe('prefix_applied')
                                break
                        if chosen is None and same(before):
                            chosen = before
                    if chosen is None:
                        run.violate('C13', '%s-ascii-result-not-from-file:%s' % (kindname, tag),
                                    'after %s (error %r) the program is neither the file\'s lines nor a prefix of them: %s' % (
                                        kindname, err, _diff(got, M.listing(lines=applied(len(recs))))))
                        # resynchronise from the visible state
                        E.x(b'NEW')
                        M.lines = {}
                    else:
                        M.lines = chosen
                        if relaxed:
                            run.probe('ascii_%s_after_fault_or_tear' % kindname)
                        if dirty is not None:
                            run.probe('torn_last_line_removed')
                            # the torn last line is outside the claim: remove it on both sides
                            E.x(b'%d' % dirty)
                            M.lines.pop(dirty, None)
                    note(kindname + 'A', outcome, relaxed)
                    check_list(tag + ':resync')
                    return
                # tokenised / protected file
                if merge and intact and not relaxed:
                    # GW-BASIC answers Bad file mode; the property only needs the program to stay as it was
                    if not failed:
                        run.probe('merge_binary_no_error')
                    note('mergeB', outcome, False)
                    if got != blist:
                        # documented: "Bad file mode ... the program in memory remains unchanged"
                        run.violate('C13', 'merge-of-tokenised-file-changes-program:%s-file' % kind,
                                    'MERGE of a file saved without ,A gave %r and changed the program: %s' % (
                                        r.errs, _diff(got, blist)))
                        E.x(b'NEW')
                        M.lines = {}
                        check_list(tag + ':resync')
                    return
                if intact and not merge:
                    full = {n: dict(v) for n, v in snap.items()}
                    if not failed:
                        M.lines = full
                        note('load' + kind, outcome, relaxed)
                        check_list(tag)
                        return
                    if not relaxed and not (pressure and err in (7, 14)):
                        run.violate('C13', 'load-error-without-fault', 'LOAD of an intact %s file gave %r' % (kind, r.errs))
                    for cand in (before, {}, full):
                        if got == M.listing(lines=cand):
                            M.lines = cand
                            break
                    else:
                        run.violate('C13', 'load-binary-result-not-from-file:' + tag,
                                    'after a failed LOAD the program is neither the old one, empty, nor the file: ' + _diff(got, blist))
                        E.x(b'NEW')
                        M.lines = {}
                    # the listing (index) may look fine while program memory holds something else
                    nums, problem = E.peek_chain(len(full) + len(before) + 3)
                    if problem is not None or nums != sorted(M.lines):
                        try:
                            E.x(b'SAVE "C:GHOST",A')
                            ghost = _read(os.path.join(root, 'c', 'GHOST.BAS'))
                        except EngineCrash as e:
                            ghost = b('[internal error %s: %s]' % (e.signature, e.exc_msg))
                        run.violate('C13', 'load-failed-midway:memory-disagrees-with-listing:%s-file' % kind,
                                    'LOAD of a %s file failed with %r after an injected read error; LIST shows lines %r but the '
                                    'line links from DS:30h give %r (%s) and SAVE,A (sequential scan of program memory) writes %r' % (
                                        kind, r.errs if r else 'internal error', sorted(M.lines)[:20], nums[:20], problem,
                                        (ghost or b'')[:300]))
                        E.x(b'NEW')
                        M.lines = {}
                    note('load' + kind, outcome, relaxed)
                    check_list(tag + ':resync')
                    return
                # torn or unknown tokenised file, or a faulted MERGE of one: no equality claimed
                run.probe('torn_binary_no_claim')
                E.x(b'NEW')
                M.lines = {}
                note(kindname + kind + '-torn', outcome, relaxed)
                check_list(tag + ':resync')

            def do_auto(op):
                if pressure:
                    # AUTO does not advance after Out of memory; not modelled: leave the op out
                    return
                start, inc = op.get('start'), op.get('inc')
                cmd = u'AUTO' + (u' %d' % start if start is not None else u'') + (u',%d' % inc if inc is not None else u'')
                script = [{'t': 'line', 'text': cmd}]
                n = 10 if start is None else start
                step = 10 if inc is None else inc
                for it in op.get('items', []):
                    if it.get('skip'):
                        script.append({'t': 'ain', 'text': u''})
                        if n <= MAXLINE:
                            n += step
                        continue
                    text = ptext(it['parts'])
                    script.append({'t': 'akeys' if it.get('via') == 'k' else 'ain', 'text': text})
                    if n <= MAXLINE:
                        M.lines[n] = {'parts': it['parts'], 'k': it['k'], 'uid': it.get('uid')}
                        n += step
                    else:
                        run.probe('auto_beyond_65529')
                script.append({'t': 'brk'})
                interact(d, script, extra=_auto_extra)
                sink.take()
                E.scr = 99
                run.probe('auto_sessions')
                note('auto', 'ok')
                check_list('after-auto')

            for op in case['ops']:
                k = op['op']
                mutated = True
                if k == 'line':
                    n = int(op['n'])
                    rec = {'parts': op['parts'], 'k': op['k'], 'uid': op.get('uid')}
                    r = E.x(b'%d %s' % (n, b(ptext(rec['parts']))))
                    oc = store_outcome(r, n, rec, 'replace' if n in M.lines else 'insert')
                    note('line', oc)
                    check_list('after-line-entry' + (':oom' if oc == 'oom' else ''))
                    if pressure:
                        check_fits('after-line-entry', op.get('chk'))
                elif k == 'empty':
                    n = int(op['n'])
                    r = E.x(b'%d' % n)
                    if n in M.lines:
                        if r.err is None:
                            del M.lines[n]
                        else:
                            run.violate('C13', 'empty-line-delete-error', 'typing %d (existing line) gave %r' % (n, r.errs))
                    elif r.err is None:
                        run.violate('C13', 'empty-line-missing-accepted', 'typing %d (no such line) gave no error' % n)
                    note('empty', 'ok' if r.err is None else 'err')
                    check_list('after-empty-line')
                elif k == 'delete':
                    t, a, c = _range_text(op)
                    r = E.x(b'DELETE ' + t)
                    lo = a if a is not None else 0
                    hi = c if c is not None else 65535
                    sel = [n for n in M.lines if lo <= n <= hi]
                    ends_exist = (a is None or a in M.lines) and (c is None or c in M.lines)
                    if r.err is None:
                        if not sel:
                            run.violate('C13', 'delete-empty-range-accepted', 'DELETE %s selects no line but gave no error' % u(t))
                        for n in sel:
                            del M.lines[n]
                    elif sel and ends_exist:
                        run.violate('C13', 'delete-error', 'DELETE %s (both ends exist) gave %r' % (u(t), r.errs))
                    note('delete', 'ok' if r.err is None else 'err')
                    check_list('after-delete')
                elif k == 'renum':
                    plan = M.renum_plan(op.get('new'), op.get('old'), op.get('step'))
                    r = E.x(_renum_text(op))
                    if r.err is None:
                        if plan['ok'] is False:
                            run.violate('C13', 'renum-accepted-invalid', '%s accepted; lines %r' % (u(_renum_text(op)), sorted(M.lines)[:40]))
                        M.apply_renum(plan['mapping'])
                    elif plan['ok'] is True:
                        run.violate('C13', 'renum-rejected-valid', '%s gave %r; lines %r' % (u(_renum_text(op)), r.errs, sorted(M.lines)[:40]))
                    note('renum', 'ok' if r.err is None else 'err')
                    check_list('after-renum')
                elif k == 'clear':
                    if not faults_on:
                        continue
                    t = b'CLEAR ,%d' % int(op['mem']) + (b',%d' % int(op['stack']) if op.get('stack') is not None else b'')
                    r = E.x(t)
                    # what CLEAR accepts is not judged here; whatever it answers, the program is as it was, and if
                    # it was accepted the program fits in what is left
                    pressure = True
                    run.probe('clear_accepted' if r.err is None else 'clear_refused')
                    note('clear', 'ok' if r.err is None else 'err')
                    check_list('after-clear')
                    check_fits('after-clear', True)
                    mutated = False
                elif k == 'new':
                    E.x(b'NEW')
                    M.lines = {}
                    note('new', 'ok')
                    check_list('after-new')
                elif k == 'save':
                    do_save(op)
                    mutated = False
                elif k in ('load', 'merge'):
                    head = (_read(_fname(root, op['name'])[1]) or b'')[:1]
                    do_load(op, k == 'merge')
                    if pressure:
                        # text files are stored line by line, tokenised and protected ones in one piece
                        check_fits('after-%s:%s-file' % (k, 'tokenised' if head in (b'\xff', b'\xfe') else 'text'), op.get('chk'))
                elif k == 'auto':
                    do_auto(op)
                elif k == 'list':
                    t, a, c = _range_text(op)
                    if op['single']:
                        exp = M.listing(a, a)
                    else:
                        exp = M.listing(a, c)
                    got = E.list_screen(t, len(exp))
                    run.probe('list_range_checks')
                    if got != exp:
                        run.violate('C13', 'list-range-mismatch', 'LIST %s: %s' % (u(t), _diff(got, exp)))
                    note('list', 'ok')
                    mutated = False
                elif k == 'goto':
                    n = int(op['n'])
                    tr = M.trace(n)
                    mutated = False
                    if tr[0] == 'skip':
                        continue
                    E.room(6)
                    r = E.x(b'GOTO %d' % n, poll_cap=5000)
                    run.probe('goto_checks')
                    out = r.text.replace(b'\r\n', b'')
                    if pressure and any(e[0] in (7, 14) for e in r.errs):
                        # variables of the traversed lines did not fit: nothing to judge
                        run.probe('goto_oom')
                    elif tr[0] == 'out':
                        if r.errs or out != b(tr[1]):
                            run.violate('C13', 'goto-lands-elsewhere', 'GOTO %d printed %r %r, line prints %r' % (n, r.out[:120], r.errs, tr[1][:120]))
                    elif tr[0] == 'none':
                        if r.errs or out:
                            run.violate('C13', 'goto-lands-elsewhere:expected-silent', 'GOTO %d printed %r %r' % (n, r.out[:120], r.errs))
                    elif tr[0] == 'err8':
                        if [e[0] for e in r.errs] != [8] or (tr[1] is not None and r.errs[0][1] != tr[1]) or out:
                            run.violate('C13', 'goto-missing-target', 'GOTO %d gave %r %r, expected error 8 in %r' % (n, r.out[:120], r.errs, tr[1]))
                    note('goto', tr[0])
                else:
                    continue
                if mutated and op.get('chk'):
                    check_chain('after-' + k)
                if sum(1 for v in run.res['violations'] if v['prop'] == 'C13') >= 3:
                    break
            # closing checks: console LIST, chain, and a re-scan through SAVE,A
            if not any(v['prop'] == 'C13' for v in run.res['violations']):
                exp = M.listing()
                if len(exp) <= 60:
                    got = E.list_screen(b'', len(exp))
                    if got != exp:
                        run.violate('C13', 'list-mismatch:console-at-end', _diff(got, exp))
                check_chain('at-end')
                r = E.x(b'SAVE "C:FINAL",A')
                data = _read(os.path.join(root, 'c', 'FINAL.BAS'))
                if r.err is None and parse_listing(data or b'') != exp:
                    run.violate('C13', 'rescan-differs-from-index:save-ascii-at-end',
                                'SAVE,A (sequential scan) wrote %r..., LIST (index) gives %r...' % ((data or b'')[:300], canonical(exp)[:300]))
            d.close()

    return execute(case, body, world_cfg={})


###############################################################################
# C14 generator

class _PB(object):
    """Program builder with symbolic labels. parts items: str | ('@', label) | ('!', k)"""

    def __init__(self, rng):
        self.rng = rng
        self.L = []
        self.nl = 0
        self.nu = 0

    def lab(self):
        self.nl += 1
        return 'L%d' % self.nl

    def uid(self, p='u'):
        self.nu += 1
        return '%s%d%s' % (p, self.nu, _word(self.rng, 0, 4))

    def add(self, parts, lab=None, role=None):
        self.L.append({'lab': lab, 'parts': parts if isinstance(parts, list) else [parts], 'role': role})


_EV_MARK = br'EV(key|timer|pen|strig|play)'


def _ev_name(e, keyno):
    return {'key': 'KEY(%d)' % keyno, 'timer': 'TIMER', 'pen': 'PEN', 'strig': 'STRIG(0)', 'play': 'PLAY'}[e]


def _gen_program(rng, tier, pause=False):
    """
    pause=False: a program that is RUN and probed from direct mode after it stopped.
    pause=True:  a program with `stages`: trap states are changed (defined only / ON / STOP / OFF / not yet
    defined), the program pauses at main level (STOP statement or a loop that waits for Ctrl-Break), the user
    RENUMs and CONTinues, the program switches the traps on, waits for the events, and goes on.
    """
    pb = _PB(rng)
    R = rng.random
    quick = tier == 'quick'
    have_eh = R() < 0.8
    if pause:
        evs = [e for e in ('key', 'timer', 'pen', 'strig', 'play') if R() < 0.4]
        if not evs:
            evs = [rng.choice(['key', 'timer', 'pen', 'strig', 'play'])]
        rng.shuffle(evs)
        # sometimes the error handler pauses as well: RENUM while an error is being handled
        ehpause = have_eh and R() < 0.12
    else:
        evs = [e for e in ('key', 'timer', 'pen', 'strig') if R() < (0.45 if e in ('key', 'timer') else 0.2)]
        ehpause = False
    keyno = rng.choice([1, 2, 10, 11])
    handlers_first = R() < 0.45
    nblocks = rng.randint(2, 8) if quick else rng.randint(4, 25)
    subs = []      # labels of subroutines
    datas = []     # labels of data lines
    sites = []     # (site label, after label)
    waits = []     # labels of wait loop lines
    main = pb.lab()
    eh = pb.lab()
    eh2 = pb.lab() if have_eh and R() < 0.3 else None
    evlab = {e: pb.lab() for e in evs}
    missing = [0]

    def miss():
        missing[0] += 1
        return ('!', missing[0])

    def sub():
        if subs and R() < 0.5:
            return rng.choice(subs)
        s = pb.lab()
        subs.append(s)
        return s

    def aux_section():
        # error handlers
        if have_eh:
            pb.add(['PRINT "%s";ERR' % pb.uid('EH')], lab=eh, role='eh')
            if ehpause:
                pb.add(['STOP'], role='pause')
            for site, after in sites[:2]:
                pb.add(['IF ERL=', ('@', site), ' THEN PRINT "%s":RESUME ' % pb.uid('S'), ('@', after)], role='eh')
            pb.add(['IF ERR=11 THEN X%=1:RESUME'], role='eh')
            pb.add([rng.choice(['RESUME NEXT', 'RESUME NEXT', 'RESUME NEXT'])], role='eh')
            if eh2:
                pb.add(['PRINT "%s";ERR:RESUME NEXT' % pb.uid('EH2')], lab=eh2, role='eh')
        # event handlers
        for e in evs:
            # staged programs count the traps that ran (their wait loops wait for all of them)
            flag = 'F%=F%+1' if pause else 'F%=1'
            if R() < (0.08 if pause else 0.25) and waits:
                pb.add(['PRINT "%s":%s:RETURN ' % (pb.uid('EV' + e), flag), ('@', rng.choice(waits))], lab=evlab[e], role='ev')
            else:
                pb.add(['PRINT "%s":%s:RETURN' % (pb.uid('EV' + e), flag)], lab=evlab[e], role='ev')
        # subroutines
        for s in subs:
            if R() < 0.3:
                pb.add(['PRINT "%s"' % pb.uid('s')], lab=s)
                pb.add(['RETURN'])
            else:
                pb.add(['PRINT "%s":RETURN' % pb.uid('s')], lab=s)
        for dl in datas:
            pb.add(['DATA "%s",%d' % (pb.uid('d'), rng.randint(0, 99))], lab=dl)

    # the aux section needs sites/subs/datas that the main part creates: build main into a
    # separate list first
    save_L = pb.L
    pb.L = []
    # --- main
    def evdef(e):
        if e == 'key':
            return 'ON KEY(%d) GOSUB ' % keyno
        if e == 'timer':
            return 'ON TIMER(%d) GOSUB ' % rng.choice([1, 2])
        if e == 'pen':
            return 'ON PEN GOSUB '
        if e == 'play':
            return 'ON PLAY(%d) GOSUB ' % rng.choice([1, 2, 3])
        return 'ON STRIG(0) GOSUB '

    def block():
        r = R()
        if r < 0.12:
            pb.add(['PRINT "%s"' % pb.uid()])
        elif r < 0.24:
            j = pb.lab()
            pb.add([rng.choice(['GOTO ', 'IF 1 THEN ', 'IF 0 THEN PRINT "n" ELSE ']), ('@', j)])
            pb.add(['PRINT "%s"' % pb.uid('skipped')])
            pb.add(['PRINT "%s"' % pb.uid()], lab=j)
        elif r < 0.36:
            t, e, j = pb.lab(), pb.lab(), pb.lab()
            v = rng.randint(0, 1)
            pb.add(['A%%=%d:IF A%%=1 THEN ' % v, ('@', t), ' ELSE ', ('@', e)])
            pb.add(['PRINT "%s"' % pb.uid('dead')])
            pb.add(['PRINT "%s":GOTO ' % pb.uid('T'), ('@', j)], lab=t)
            pb.add(['PRINT "%s"' % pb.uid('E')], lab=e)
            pb.add(['REM %s' % pb.uid('join')], lab=j)
        elif r < 0.46:
            a, c, j = pb.lab(), pb.lab(), pb.lab()
            gosub = R() < 0.4
            if gosub:
                pb.add(['A%%=%d:ON A%% GOSUB ' % rng.randint(0, 3), ('@', sub()), ',', ('@', sub())])
            else:
                pb.add(['A%%=%d:ON A%% GOTO ' % rng.randint(0, 3), ('@', a), ',', ('@', c)])
                pb.add(['PRINT "%s":GOTO ' % pb.uid('fall'), ('@', j)])
                pb.add(['PRINT "%s":GOTO ' % pb.uid('a'), ('@', j)], lab=a)
                pb.add(['PRINT "%s"' % pb.uid('b')], lab=c)
                pb.add(['REM %s' % pb.uid('join')], lab=j)
        elif r < 0.58:
            q = R()
            if q < 0.6:
                pb.add(['GOSUB ', ('@', sub())])
            elif q < 0.8:
                pb.add(['FOR I%=1 TO 2:GOSUB ', ('@', sub()), ':NEXT'])
            else:
                pb.add(['IF 1 THEN GOSUB ', ('@', sub()), ' ELSE GOSUB ', ('@', sub())])
        elif r < 0.66:
            dl = pb.lab()
            datas.append(dl)
            pb.add(['RESTORE ', ('@', dl), ':READ X$:PRINT X$'])
        elif r < 0.80 and have_eh:
            site, after = pb.lab(), pb.lab()
            if R() < 0.3:
                pb.add(['X%=0'])
                pb.add(['Y%%=7\\X%%:PRINT "%s"' % pb.uid('div')], lab=site, role='site')
            else:
                pb.add(['ERROR %d:PRINT "%s"' % (rng.choice([5, 9, 13, 53, 77, 200, 255]), pb.uid('post'))], lab=site, role='site')
            pb.add(['PRINT "%s"' % pb.uid('after')], lab=after)
            sites.append((site, after))
        elif r < 0.92:
            wl = pb.lab()
            pb.add(['W%=0:F%=0'])
            pb.add(['W%%=W%%+1:IF W%%<%d AND F%%=0 THEN ' % rng.randint(4, 40), ('@', wl)], lab=wl, role='wait')
            waits.append(wl)
        elif r < 0.96 and evs:
            e = rng.choice(evs)
            pb.add(['%s %s' % (_ev_name(e, keyno), rng.choice(['STOP', 'ON', 'OFF', 'ON']))])
        elif have_eh:
            if eh2 and R() < 0.6:
                pb.add(['ON ERROR GOTO ', ('@', eh2)])
            else:
                pb.add(['ON ERROR GOTO 0'])
        else:
            pb.add(['PRINT "%s"' % pb.uid()])

    stages = []

    def emit(stmts, first, role):
        """Statements (lists of parts) as one line or as one line each. -> first"""
        if not stmts:
            return first
        if R() < 0.5:
            joined = []
            for i, st in enumerate(stmts):
                joined.extend(([':'] if i else []) + st)
            stmts = [joined]
        for st in stmts:
            pb.add(st, lab=main if first else None, role=role)
            first = False
        return first

    if pause:
        # what the program did to each trap so far: defined?, and the last of ON / STOP / OFF
        defined = set()
        first = True
        nstages = 1 + (R() < 0.4) + (R() < 0.15)
        per = max(1, nblocks // (2 * nstages))
        for sn in range(nstages):
            # --- trap states at the coming pause
            if sn == 0 and have_eh:
                first = emit([['ON ERROR GOTO ', ('@', eh)]], first, 'setup')
            for e in rng.sample(evs, len(evs)):
                name = _ev_name(e, keyno)
                dfn = [evdef(e), ('@', evlab[e])]
                if e not in defined:
                    st = rng.choice(['def', 'def', 'on', 'on', 'stop', 'stop0', 'off', 'late', 'on-first'])
                    stmts = {'def': [dfn], 'on': [dfn, [name + ' ON']], 'stop': [dfn, [name + ' ON'], [name + ' STOP']],
                             'stop0': [dfn, [name + ' STOP']], 'off': [dfn, [name + ' ON'], [name + ' OFF']],
                             'late': [], 'on-first': [[name + ' ON'], dfn]}[st]
                    if st != 'late':
                        defined.add(e)
                else:
                    stmts = rng.choice([[], [], [[name + ' OFF']], [[name + ' STOP']], [[name + ' ON']],
                                        [[name + ' OFF'], dfn], [[name + ' STOP'], [name + ' OFF']]])
                first = emit(stmts, first, 'setup')
            if first:
                pb.add(['REM main'], lab=main)
                first = False
            for _ in range(rng.randint(0, per)):
                block()
            # --- the pause, at main level; events keyed to the line in front of it arrive with the traps in the
            # states set above: an event on a trap that is ON but held (STOP) stays pending through the pause
            pl = pb.lab()
            pb.add(['P%=P%+1'], lab=pl, role='prep')
            st = {'pause': 'stop', 'bl': None}
            if R() < 0.55:
                pb.add(['STOP'], role='pause')
            else:
                bl = pb.lab()
                pb.add(['B%=0'])
                pb.add(['B%%=B%%+1:IF B%%<%d THEN ' % rng.randint(30, 90), ('@', bl)], lab=bl, role='bwait')
                st = {'pause': 'brk', 'bl': bl}
            st['pl'] = pl
            # --- after CONT: traps are switched on, then the program waits for them
            for e in rng.sample(evs, len(evs)):
                name = _ev_name(e, keyno)
                stmts = []
                if e not in defined:
                    stmts.append([evdef(e), ('@', evlab[e])])
                    defined.add(e)
                if R() < 0.85:
                    stmts.append([name + ' ON'])
                emit(stmts, False, 'setup')
            if 'play' in evs:
                pb.add(['PLAY "MB%s"' % rng.choice(['L8CDEFGAB', 'T200L4CDEFG', 'O3L16CDEFGABCDE'])])
            wl = pb.lab()
            st['wl'] = wl
            st['n'] = rng.randint(20, 50)
            pb.add(['W%=0:F%=0'])
            pb.add(['W%%=W%%+1:IF W%%<%d AND F%%<%d THEN ' % (st['n'], rng.choice([1, len(evs), len(evs)])), ('@', wl)],
                   lab=wl, role='wait')
            waits.append(wl)
            stages.append(st)
            for _ in range(rng.randint(0, per)):
                block()
    else:
        setup = []
        if have_eh:
            setup.append(['ON ERROR GOTO ', ('@', eh)])
        for e in evs:
            if e == 'key':
                setup.append(['ON KEY(%d) GOSUB ' % keyno, ('@', evlab[e]), ':KEY(%d) ON' % keyno])
            elif e == 'timer':
                setup.append(['ON TIMER(%d) GOSUB ' % rng.choice([1, 2]), ('@', evlab[e]), ':TIMER ON'])
            elif e == 'pen':
                setup.append(['ON PEN GOSUB ', ('@', evlab[e]), ':PEN ON'])
            else:
                setup.append(['ON STRIG(0) GOSUB ', ('@', evlab[e]), ':STRIG(0) ON'])
        rng.shuffle(setup)
        first = True
        for s in setup:
            pb.add(s, lab=main if first else None, role='setup')
            first = False
        if first:
            pb.add(['REM main'], lab=main)
        for _ in range(nblocks):
            block()
    # a wait loop near the end makes armed event traps observable after the run
    if evs and not waits or R() < 0.3:
        wl = pb.lab()
        pb.add(['W%=0:F%=0'])
        pb.add(['W%%=W%%+1:IF W%%<%d AND F%%=0 THEN ' % rng.randint(4, 30), ('@', wl)], lab=wl, role='wait')
        waits.append(wl)
    endk = R()
    if endk < 0.6:
        pb.add(['END'], role='end')
    elif endk < 0.8:
        pb.add(['STOP'], role='end')
    elif endk < 0.9:
        pb.add(['PRINT "%s":ERROR %d' % (pb.uid('last'), rng.choice([5, 77]))], role='end')
        pb.add(['END'], role='end')
    else:
        pb.add(['GOTO ', miss()], role='end')
        pb.add(['END'], role='end')
    # dead code with references of every kind, some to missing lines
    for _ in range(rng.randint(0, 4)):
        x = rng.choice(waits + subs + [main]) if R() < 0.6 else None
        ref = ('@', x) if x else miss()
        pb.add(rng.choice([
            ['RUN ', ref], ['GOTO ', ref], ['GOSUB ', ref], ['RESTORE ', ref], ['RESUME ', ref], ['RETURN ', ref],
            ['IF A% THEN ', ref, ' ELSE ', miss() if R() < 0.3 else ('@', main)],
            ['ON A% GOTO ', ref, ',', ('@', main)], ['ON ERROR GOTO ', ref], ['IF ERL=', ref, ' THEN END'],
            ['ON KEY(3) GOSUB ', ref], ['GOTO ', ref, ':ON ERROR GOTO 0:GOSUB ', ('@', main)],
        ]), role='dead')
    main_L = pb.L
    pb.L = save_L
    if handlers_first:
        pb.add(['GOTO ', ('@', main)], role='prologue')
        aux_section()
        pb.L.extend(main_L)
    else:
        pb.L.extend(main_L)
        aux_section()
    # numbering
    n = len(pb.L)
    start = rng.choice([0, 1, 5, 10, 10, 100, 1000, rng.randint(0, 50000)])
    step = rng.choice([1, 2, 3, 5, 10, 10, 10, 20, 100, rng.randint(1, 300)])
    step = max(1, min(step, (MAXLINE - start) // (n + 2)))
    nums = []
    cur = start
    for i in range(n):
        nums.append(cur)
        cur += step * (rng.choice([1, 1, 1, 1, 2, 3]) if step * 3 * (n - i + 2) + cur < MAXLINE else 1)
    used = set(nums)
    labels = {ln['lab']: nums[i] for i, ln in enumerate(pb.L) if ln['lab']}
    misses = {}

    def missnum(k):
        if k not in misses:
            for _ in range(50):
                c = rng.choice([nums[-1] + rng.randint(1, 500), rng.randint(0, MAXLINE), rng.choice(nums) + 1, MAXLINE, 0])
                if c not in used and c <= MAXLINE:
                    misses[k] = c
                    used.add(c)
                    break
            else:
                misses[k] = 65001 + k
        return misses[k]

    lines = []
    for i, ln in enumerate(pb.L):
        parts = []
        for p in ln['parts']:
            if isinstance(p, tuple):
                v = labels[p[1]] if p[0] == '@' else missnum(p[1])
                if v == 0 and parts and isinstance(parts[-1], str) and parts[-1].endswith('ERROR GOTO '):
                    # ON ERROR GOTO 0 is not a reference to line 0
                    v = 64000 + i
                parts.append([v])
            else:
                parts.append(p)
        lines.append({'op': 'line', 'n': nums[i], 'parts': parts, 'role': ln['role']})
    info = {
        'waits': [labels[x] for x in waits], 'evs': evs, 'keyno': keyno, 'nums': nums,
        'stages': [dict(st, bl=labels.get(st['bl']), wl=labels[st['wl']], pl=labels[st['pl']]) for st in stages],
        'ehpause': ehpause,
        'traps': [labels[x] for x in [eh] * have_eh + [evlab[e] for e in evs]],
    }
    return lines, info


def _gen_events(rng, info, span):
    evs = []
    pool = list(info['evs']) or ['key']
    if rng.random() < 0.2:
        pool = ['key', 'timer', 'pen', 'strig']
    for _ in range(rng.choice([0, 1, 1, 2, 3])):
        e = rng.choice(pool)
        evs.append({'at': rng.randint(1, span), 'ev': e, 'key': info['keyno']})
    evs.sort(key=lambda x: x['at'])
    return evs


def gen14(rng, tier):
    pause = rng.random() < 0.35
    lines, info = _gen_program(rng, tier, pause)
    nums = info['nums']
    ops = list(lines)
    if rng.random() < 0.3:
        # enter the lines in another order: the stored program must not depend on it
        rng.shuffle(ops)
    span = 20 + 6 * len(lines)

    def renum_op():
        r = rng.random()
        new = rng.choice([None, None, 10, 100, 1000, rng.randint(0, 60000), rng.choice(nums), rng.choice(nums) + 1,
                          65000 if r < 0.5 else 30000])
        old = rng.choice([None, None, rng.choice(nums), rng.choice(nums), rng.choice(nums), rng.choice(nums) + 1])
        step = rng.choice([None, None, None, 1, 2, 5, 10, 100, rng.randint(1, 500), 0 if rng.random() < 0.3 else 7])
        if old is not None and new is None and rng.random() < 0.7:
            # make acceptance likely: new above the last kept line
            new = rng.choice([old, old + rng.randint(0, 50), nums[-1] + 10])
        return {'op': 'renum', 'new': new, 'old': old, 'step': step}

    def probes():
        out = []
        for _ in range(rng.randint(1, 3)):
            r = rng.random()
            if r < 0.35:
                out.append({'op': 'err', 'code': rng.choice([5, 13, 53, 77, 250])})
            elif r < 0.70 and info['waits']:
                out.append({'op': 'goto', 'n': rng.choice(info['waits']), 'ev': _gen_events(rng, info, 40) or
                            [{'at': rng.randint(1, 20), 'ev': rng.choice(info['evs'] or ['key']), 'key': info['keyno']}]})
            else:
                out.append({'op': 'run', 'ev': _gen_events(rng, info, span)})
        return out

    def brk(st):
        # events just before the pause (they stay pending on a held trap), and Ctrl-Break while the program
        # is in its break-wait loop (keyed by position: see _arm14)
        out = [{'line': st['pl'], 'count': 1, 'ev': e, 'key': info['keyno']} for e in info['evs'] if rng.random() < 0.45]
        if st['pause'] == 'brk':
            out.append({'line': st['bl'], 'count': rng.randint(1, 20), 'ev': 'break'})
        return out

    if pause:
        # RUN up to the first pause, then RENUM / CONT for every stage; events are keyed to the stage's
        # wait loop, where the program has switched its traps on
        stages = info['stages']
        ops.append({'op': 'run', 'ev': _gen_events(rng, info, 10 + 2 * len(lines)) + brk(stages[0])})
        if info['ehpause']:
            # the program also pauses in its error handler: a few more RENUM / CONT rounds
            for _ in range(rng.randint(1, 2)):
                ops.append(dict(renum_op(), keep=True))
                ops.append({'op': 'cont', 'ev': brk(stages[0])})
        for i, st in enumerate(stages):
            op = renum_op()
            if rng.random() < 0.5:
                # likely to be accepted and to move every line
                op = {'op': 'renum', 'new': rng.choice([None, 100, 1000, nums[-1] + rng.randint(1, 100), rng.randint(1, 9)]),
                      'old': None, 'step': rng.choice([None, None, 1, 5, 20, rng.randint(1, 50)])}
            ops.append(dict(op, keep=True))
            ev = []
            pool = list(info['evs']) + ([rng.choice(['key', 'timer', 'pen', 'strig', 'play'])] if rng.random() < 0.15 else [])
            for e in pool:
                if rng.random() < 0.85:
                    ev.append({'line': st['wl'], 'count': rng.randint(1, st['n']), 'ev': e, 'key': info['keyno']})
            if rng.random() < 0.2:
                ev.extend(_gen_events(rng, info, 40))
            ev.sort(key=lambda x: (x.get('at', 0), x.get('count', 0)))
            if i + 1 < len(stages):
                ev.extend(brk(stages[i + 1]))
            ops.append({'op': 'cont', 'ev': ev})
        rounds = rng.choice([0, 0, 1])
    elif rng.random() < 0.2:
        # RENUM before the first run: pure rewrite, then behaviour
        ops.append(renum_op())
        ops.append({'op': 'run', 'ev': _gen_events(rng, info, span)})
        rounds = None
    else:
        ops.append({'op': 'run', 'ev': _gen_events(rng, info, span)})
        rounds = None
    if rounds is None:
        rounds = rng.choice([1, 1, 1, 2, 2, 3]) if tier == 'quick' else rng.randint(1, 6)
    for _ in range(rounds):
        ops.append(renum_op())
        ops.extend(probes())
    cfg = {'syntax': rng.choice(['advanced', 'advanced', 'pcjr', 'tandy'])}
    return {'machine': NAME, 'prop': 'C14', 'cfg': cfg, 'ops': ops}


###############################################################################
# C14 run

_IN_RE = re.compile(br' in (\d+)')


def _fire_event(w, ev, tandy=False):
    from pcbasic.basic.base import scancode as sc
    kind = ev['ev']
    if kind == 'key':
        k = int(ev.get('key', 1))
        if k <= 10:
            code = sc.F1 + k - 1
        elif tandy and k <= 12:
            # Tandy: KEY(11) and KEY(12) are F11 and F12, the cursor keys come after them
            code = sc.F11 + k - 11
        else:
            code = [sc.UP, sc.LEFT, sc.RIGHT, sc.DOWN][(k - 11) % 4]
        w.inputs.pending.append(K.sig_key(u'\0' + chr(code), code, ()))
    elif kind == 'timer':
        w.jump_clock(3)
    elif kind == 'play':
        # the background music runs out
        w.jump_clock(20)
    elif kind == 'break':
        w.inputs.pending.append(K.sig_break())
    elif kind == 'pen':
        w.inputs.pending.append(K.sig_pen_down(10, 10))
        w.inputs.pending.append(K.sig_pen_up())
    elif kind == 'strig':
        w.inputs.pending.append(K.sig_stick_down(0, 0))
        w.inputs.pending.append(K.sig_stick_up(0, 0))


def _keyed_hook(keyed, last, inv, tandy):
    """Poll hook that delivers events keyed by (original line number, n-th poll while that line is the current one)."""
    cnt = {}

    def hook(w):
        o = inv.get(last[0])
        if o is None:
            return
        cnt[o] = cnt.get(o, 0) + 1
        for ev in keyed.get((o, cnt[o]), ()):
            _fire_event(w, ev, tandy)
            w.stats['keyed_events'] += 1
    return hook


def _arm14(run, w, case, root, do_renum, decisions):
    """Run all ops in one Session. -> (records, decisions). records[i] = dict per op."""
    cfg = case['cfg']
    ops = case['ops']
    M = Model()           # current (renumbered) program
    orig = {}             # original number -> current number
    recs = {}
    renumbered = False
    void = [False]
    stackvoid = [False]
    with w:
        d = Driver(w, devices={'C:': os.path.join(root, 'c')}, current_device='C:', syntax=cfg.get('syntax', 'advanced'))
        E = Eng(run, w, d, root)
        prev = 'start'
        tandy = cfg.get('syntax') == 'tandy'
        # the line that was started last (public step hook): position-keyed events are delivered at the n-th
        # poll (statement boundary) at which that is a given line of the *original* numbering
        last = [None]

        def step(token):
            last[0] = struct.unpack_from('<H', token, 2)[0]

        d._guard('set_hook', lambda: d.s.set_hook(step))
        for i, op in enumerate(ops):
            k = op['op']
            # same clock in both arms at the start of every op
            w.clock_us = w.start_us + (i + 1) * 100000000
            if k == 'line':
                if renumbered:
                    continue
                n = int(op['n'])
                r = E.x(b'%d %s' % (n, b(ptext(op['parts']))))
                if r.err is None:
                    M.lines[n] = {'parts': op['parts'], 'k': 'x', 'uid': None, 'role': op.get('role')}
                    orig[n] = n
                else:
                    raise K.HarnessError('C14 generator produced a line the engine rejects: %d %s -> %r' % (
                        n, ptext(op['parts']), r.errs))
            elif k in ('run', 'err', 'goto', 'cont'):
                if k == 'goto' and int(op['n']) not in orig:
                    continue
                E.room(25)
                keyed = {}
                for ev in op.get('ev', []):
                    if ev.get('line') is not None:
                        keyed.setdefault((int(ev['line']), int(ev.get('count', 1))), []).append(ev)
                    else:
                        w.at_poll(int(ev['at']), (lambda e: lambda ww: _fire_event(ww, e, tandy))(ev))
                if k == 'run':
                    cmd = b'RUN'
                elif k == 'cont':
                    cmd = b'CONT'
                elif k == 'err':
                    cmd = b'ERROR %d' % int(op['code'])
                else:
                    cmd = b'F%%=0:W%%=0:GOTO %d' % orig[int(op['n'])]
                last[0] = None
                if keyed:
                    w.poll_hook = _keyed_hook(keyed, last, {c: o for o, c in orig.items()}, tandy)
                try:
                    r = E.x(cmd, poll_cap=4000)
                finally:
                    w.poll_hook = None
                cancel_scheduled(w)
                if k == 'run':
                    # RUN drops the stacks in both arms
                    stackvoid[0] = False
                recs[i] = {'out': r.out, 'inv': {c: o for o, c in orig.items()}, 'void': void[0] or stackvoid[0]}
            elif k == 'renum':
                if any((op.get(f) or 0) > MAXLINE for f in ('new', 'old', 'step')):
                    # not a line number: a syntax matter, outside this check
                    continue
                plan = M.renum_plan(op.get('new'), op.get('old'), op.get('step'))
                # where the lines named by ON ERROR GOTO / ON <event> GOSUB lie relative to `old`
                tl = [t for v in M.lines.values() if v.get('role') == 'setup' for t in prefs(v['parts'])]
                o_ = op.get('old') or 0
                trapcls = (any(t < o_ for t in tl), any(t >= o_ for t in tl))
                keep = bool(op.get('keep'))
                if do_renum:
                    text = _renum_text(op)
                    before = M.listing()
                    # The counterpart of RENUM in arm B is "do nothing" (REM). The engine also drops the
                    # GOSUB/FOR/WHILE stacks at RENUM, which the property neither demands nor forbids: where that
                    # could show (the program did not stop at main level) nothing is compared until the next RUN.
                    # Engine state is read here only to decide that, never to judge.
                    it = d.s._impl.interpreter
                    if it.gosub_stack or it.for_stack or it.while_stack:
                        stackvoid[0] = True
                        run.probe('pause_not_at_main_level' if keep else 'stopped_not_at_main_level')
                    try:
                        r = E.x(text)
                    except EngineCrash as e:
                        which = 'error-trap' if 'self.on_error' in e.tb[-400:] else 'event-trap' if 'handler.gosub' in e.tb[-400:] else 'other'
                        run.state('C14', 'renum', 'crash', which, trapcls, len(M.lines) > 10)
                        run.violate('C14', 'renum-crash:%s:armed-%s-line-not-in-renumbered-range' % (e.signature, which)
                                    if which != 'other' else 'renum-crash:%s' % e.signature,
                                    '%s with program\n%s\n-> %s: %s\n%s' % (
                                        u(text), '\n'.join('%d %s' % x for x in before[:60]), e.exc_type, e.exc_msg, e.tb[-1200:]))
                        decisions[i] = 'crash'
                        return recs, decisions
                    # an error raised by RENUM may be caught by the program's own armed ON ERROR handler, so
                    # the listing decides whether the statement took effect
                    msgs = re.findall(br'Undefined line (\d+) in (\d+)', r.out)
                    mp = plan['mapping']
                    after = Model()
                    after.lines = M.copy_lines()
                    after.apply_renum(mp)
                    got = E.list_file()
                    run.probe('renum_list_checks')
                    progtext = '\n'.join('%d %s' % x for x in before[:60])
                    # anything printed besides the Undefined-line notes is an error message or the output of
                    # the program's error handler (every generated handler prints first)
                    errored = bool(re.sub(br'Undefined line \d+ in \d+\r\n', b'', r.out))
                    if got == after.listing() and (got != before or not errored):
                        accepted = True
                    elif got == before:
                        accepted = False
                    else:
                        accepted = None
                    decisions[i] = accepted
                    recs[i] = {'out': r.out, 'inv': {c: o for o, c in orig.items()}, 'void': void[0]}
                    if accepted is None:
                        exp = after.listing()
                        if got is not None and [x[0] for x in got] != [x[0] for x in exp]:
                            sig = 'renum-list:line-numbers'
                        else:
                            sig = 'renum-list:references'
                        if errored and plan['ok'] is False:
                            # a RENUM that must be (and was) rejected has to leave the program as it was
                            same_nums = got is not None and [x[0] for x in got] == [x[0] for x in before]
                            sig = 'renum-rejected-but-program-changed:' + ('references' if same_nums else 'line-numbers')
                            exp = before
                        bad = [(g, e) for g, e in zip(got or [], exp) if g != e][:5]
                        run.violate('C14', sig, '%s (errors %r) on\n%s\nfirst differing lines (engine, model): %r\n%s' % (
                            u(text), r.errs, progtext, bad, _diff(got, exp)))
                        decisions[i] = 'crash'
                        return recs, decisions
                    if accepted:
                        if plan['ok'] is False:
                            run.violate('C14', 'renum-accepted-invalid', '%s accepted on\n%s' % (u(text), progtext))
                        # messages about missing targets
                        want = {}
                        for ref, ln in plan['missing']:
                            want.setdefault(ref, set()).update((ln, mp.get(ln, ln)))
                        seen = set()
                        for ref, ln in msgs:
                            ref, ln = int(ref), int(ln)
                            if ref not in want:
                                run.violate('C14', 'renum-msg:spurious-undefined-line', '%s printed %r; missing targets are %r' % (
                                    u(text), r.out[:300], sorted(want)))
                            elif ln not in want[ref]:
                                run.violate('C14', 'renum-msg:wrong-containing-line', '%s printed %r; expected lines %r' % (
                                    u(text), r.out[:300], {k_: sorted(v) for k_, v in want.items()}))
                            seen.add(ref)
                        if set(want) - seen:
                            run.violate('C14', 'renum-msg:missing-target-not-reported', '%s printed %r; missing targets are %r on\n%s' % (
                                u(text), r.out[:300], sorted(want), progtext))
                        if want:
                            run.probe('missing_targets_reported')
                        M.apply_renum(mp)
                        orig = {o: mp.get(c, c) for o, c in orig.items()}
                        renumbered = True
                        if any(ref in M.lines for ref, _ in plan['missing']):
                            # a dangling reference now names a real line: the renumbered program is
                            # entitled to behave differently from here on
                            void[0] = True
                            run.probe('dangling_ref_captured')
                    else:
                        if plan['ok'] is True:
                            run.violate('C14', 'renum-rejected-valid', '%s gave %r on\n%s' % (u(text), r.out[:200], progtext))
                        run.probe('renum_rejected')
                        if not r.errs:
                            run.probe('renum_error_trapped_by_program')
                    nums, problem = E.peek_chain(len(M.lines) + 3)
                    if problem or nums != sorted(M.lines):
                        run.violate('C14', 'renum-chain:%s' % (problem or 'numbers-differ'), 'links give %r, model %r' % (nums[:60], sorted(M.lines)[:60]))
                    run.state('C14', 'renum', accepted, plan['ok'], op.get('new') is None, op.get('old') is None,
                              op.get('step') is None, len(M.lines) > 10, bool(plan['missing']), trapcls, not r.errs, keep)
                else:
                    dec = decisions.get(i)
                    if dec is True:
                        r = E.x(b'REM')
                        renumbered = True
                    else:
                        # a rejected RENUM is an Illegal function call in direct mode
                        r = E.x(b'ERROR 5', poll_cap=4000)
                        recs[i] = {'out': r.out, 'inv': {}}
                    E.list_file()
            prev = k
        d.close()
    return recs, decisions


def run14(case):
    logging.disable(logging.CRITICAL)

    def body(run):
        root = run.make_scratch()
        os.makedirs(os.path.join(root, 'c'))
        ops = case['ops']
        ra, dec = _arm14(run, run.w, case, root, True, {})
        if any(v == 'crash' for v in dec.values()):
            return
        rb, _ = _arm14(run, run.new_world({}), case, root, False, dec)
        any_renum = False
        for i, op in enumerate(ops):
            if op['op'] == 'renum':
                any_renum = any_renum or dec.get(i) is True
                if dec.get(i) is not False:
                    continue
            if i not in ra or i not in rb or ra[i].get('void'):
                continue
            inv = ra[i]['inv']
            a = _IN_RE.sub(lambda m: b' in %d' % inv.get(int(m.group(1)), int(m.group(1))), ra[i]['out'])
            bo = rb[i]['out']
            kind = op['op']
            evk = sorted(set(e['ev'] for e in op.get('ev', [])))
            run.state('C14', kind, any_renum, tuple(evk), len(bo) > 0, b'EH' in bo, b'EV' in bo)
            if any_renum:
                run.probe('behaviour_compared')
                if kind == 'err' and b'EH' in bo:
                    run.probe('error_trap_followed')
                if kind == 'goto' and b'EV' in bo:
                    run.probe('event_trap_followed')
                if kind == 'cont' and b'EV' in bo:
                    run.probe('event_trap_followed_after_cont')
            if a != bo:
                if kind == 'renum':
                    sig = 'behaviour:rejected-renum-differs-from-illegal-function-call'
                elif kind == 'err':
                    sig = 'trap-follow:error-trap:direct-mode-ERROR-after-renum'
                elif kind in ('goto', 'cont'):
                    # name the first handler that ran in the original but not after RENUM
                    hb = re.findall(_EV_MARK, bo)
                    ha = re.findall(_EV_MARK, a)
                    lost = [h for h in hb if h not in ha]
                    if kind == 'cont' and not lost:
                        # the handler ran in both arms, but fewer times after RENUM (e.g. a pending event was dropped)
                        lost = [h for h in hb if hb.count(h) > ha.count(h)]
                    what = u(lost[0]) if lost else 'output-differs'
                    if kind == 'cont' and not lost and bo.count(b'EH') != a.count(b'EH'):
                        # the program's ON ERROR handler (every one prints EH...) ran in one arm only
                        what = 'error-trap'
                    sig = 'trap-follow:%s:%s' % ('event-trap' if kind == 'goto' else 'cont-after-renum-in-pause', what)
                else:
                    sig = 'behaviour:run-output-differs' + (':with-events' if evk else '')
                if not any_renum:
                    raise K.HarnessError('C14 arms differ before any RENUM: %r vs %r' % (a[:300], bo[:300]))
                prog = '\n'.join('%d %s' % (o['n'], ptext(o['parts'])) for o in sorted(
                    [o for o in ops if o['op'] == 'line'], key=lambda o: o['n'])[:80])
                renums = [u(_renum_text(o)) for j, o in enumerate(ops) if o['op'] == 'renum' and j < i and dec.get(j) is True]
                run.violate('C14', sig, 'program\n%s\nafter %r, op %r:\n renumbered: %r\n original:   %r' % (
                    prog, renums, {k_: v for k_, v in op.items() if k_ != 'parts'}, a[:600], bo[:600]))
                break

    return execute(case, body, world_cfg={})


###############################################################################
# machine interface

def gen(rng, tier, prop):
    if prop == 'C14':
        return gen14(rng, tier)
    return gen13(rng, tier)


def run(case):
    if case['prop'] == 'C14':
        return run14(case)
    return run13(case)


def simplify(cfg, ops):
    """Simpler candidates for shrinking."""
    for i, op in enumerate(ops):
        k = op['op']
        if op.get('ev'):
            yield cfg, ops[:i] + [dict(op, ev=[])] + ops[i + 1:]
            if len(op['ev']) > 1:
                for j in range(len(op['ev'])):
                    yield cfg, ops[:i] + [dict(op, ev=op['ev'][:j] + op['ev'][j + 1:])] + ops[i + 1:]
        if k == 'renum':
            for f in ('step', 'new', 'old'):
                if op.get(f) is not None:
                    yield cfg, ops[:i] + [dict(op, **{f: None})] + ops[i + 1:]
        if k == 'line' and op.get('k') == 'print' and len(op.get('uid') or '') > 4:
            uid = op['uid'][:3]
            yield cfg, ops[:i] + [dict(op, uid=uid, parts=['PRINT "%s":END' % uid])] + ops[i + 1:]
        if k == 'line' and op.get('k') == 'pass' and len(ptext(op['parts'])) > 8 and op['parts'][0].startswith('REM'):
            yield cfg, ops[:i] + [dict(op, parts=['REM x'])] + ops[i + 1:]
        if k == 'auto' and len(op.get('items', [])) > 1:
            yield cfg, ops[:i] + [dict(op, items=op['items'][:-1])] + ops[i + 1:]
        if k == 'auto':
            its = [it for it in op.get('items', []) if not it.get('skip')]
            if its:
                yield cfg, ops[:i] + [{'op': 'line', 'n': 10, 'parts': its[0]['parts'], 'k': its[0]['k'],
                                      'uid': its[0].get('uid'), 'chk': False}] + ops[i + 1:]
        if k in ('load', 'merge', 'save') and 'fault' in op:
            yield cfg, ops[:i] + [{k_: v for k_, v in op.items() if k_ != 'fault'}] + ops[i + 1:]
        if op.get('chk'):
            yield cfg, ops[:i] + [dict(op, chk=False)] + ops[i + 1:]
    if cfg.get('max_memory', 65534) != 65534:
        yield dict(cfg, max_memory=65534), ops
    if cfg.get('syntax', 'advanced') != 'advanced':
        yield dict(cfg, syntax='advanced'), ops
