"""
chain machine - C23: RUN, CLEAR and NEW reset all state; CHAIN keeps exactly the COMMON variables.

One run: a second program P2 is SAVEd on the scratch disk, a skeleton program P1 (COMMON list,
DEF FN, DEFSTR, OPTION BASE, ON ERROR GOTO, DATA/READ, RND, GOSUB -> FOR -> STOP, CHAIN line) is
entered and RUN until it STOPs inside the nested subroutine/loop; a random variable state (all
types, arrays, 255-byte strings, optionally filled up to the memory limit) is then built with
direct statements against a dict model; then one reset: CLEAR, NEW, RUN n, or CHAIN / CHAIN MERGE
(ALL, DELETE, start line) executed from the program with the stacks live - under forced GC
(seam S7), memory pressure and host errors on the chained file (simfs). Afterwards the state is
probed from direct mode and compared with "fresh" (values of a fresh Session of the same
configuration) and, for CHAIN, with the model's COMMON subset.
"""

import os
import re
import errno as _errno
import logging

from .. import kernel as K
from ..basicdrv import Driver, EngineCrash, ByteSink
from .. import simfs
from .common import Run, execute, b, u, shash
from .errfn import ForcedGC, parse_trace, ERRNO_CODE

NAME = 'chain'
PROPS = ('C23',)
RULE = ('one evaluation = one session history: build state, one reset (CLEAR/NEW/RUN/CHAIN variant), probe; '
        'distinct = (reset kind, chain options, #commons bucket, #string vars bucket, free-memory bucket, '
        'forced-gc on, io fault kind, outcome) ; non-trivial = at least one variable or array held a value '
        'before the reset')
REAL = ['pcbasic.basic (whole package)', 'pcbasic.basic.implementation (_clear_all, chain_, run_, new_, clear_)',
        'pcbasic.basic.memory.memory (preserve_commons, collector)', 'pcbasic.basic.devices.disk on tmpfs',
        'pcbasic.basic.program (save/load/merge)']
STUB = ['wall clock (simulated)', 'interface queues (recording)', 'host FS errors (simfs fault plan)']
ASSUMPTIONS = [
    'after CHAIN, OPTION BASE, DEF FN under ALL and DEFtype under MERGE are not judged (the property is silent; '
    'GW-BASIC documents them per option)',
    'a CHAIN that ends in Out of memory / Out of string space in a memory-pressure run is not judged',
]
BATCH = 10

SCALARS = ['A$', 'B$', 'C$', 'LONGNAME$', 'I%', 'J%', 'X!', 'Y!', 'U#']
ARRAYS = ['AR%', 'S$', 'F!', 'T$']
FILL = 'F$'
CHAIN_LINE = 300
P2_LINE = 2000


def quick_runs(prop):
    return 5000


# ---------------------------------------------------------------------------
# generation

_WORDS = ['ab', 'cd', 'xyz', 'q', 'hello', 'w0', 'mno', 'tt', 'k9', 'zebra', '']


def _gen_sval(rng):
    r = rng.random()
    if r < 0.3:
        return {'k': 'lit', 's': rng.choice(_WORDS)}
    if r < 0.6:
        return {'k': 'cat', 's': rng.choice(_WORDS), 't': rng.choice(_WORDS)}
    if r < 0.8:
        return {'k': 'rep', 'n': rng.choice([1, 2, 17, 100, 254, 255]), 'c': rng.choice('abcXYZ')}
    return {'k': 'var', 'v': rng.choice([v for v in SCALARS if v.endswith('$')]), 's': rng.choice(_WORDS)}


def _gen_nval(rng, name):
    if name.endswith('%'):
        return rng.choice([0, 1, -1, 7, 255, -32768, 32767, rng.randint(-999, 999)])
    return rng.choice([0, 1, -1, 13, 15, 29, -31, 400, rng.randint(-4000, 4000)]) / 4.0


def gen(rng, tier, prop):
    thorough = tier != 'quick'
    faulty = rng.random() < 0.6
    reset = rng.choice(['clear', 'new', 'run', 'chain', 'chain', 'chain', 'chain'])
    names = SCALARS + [a + '()' for a in ARRAYS] + [FILL + '()']
    common = sorted(rng.sample(names, rng.randint(0, len(names)))) if rng.random() < 0.85 else []
    chain = {
        'merge': rng.random() < 0.35,
        'all': rng.random() < 0.3,
        'delete': rng.random() < 0.3,
        'line': rng.random() < 0.6,
    }
    iofault = None
    if faulty and reset == 'chain' and rng.random() < 0.3:
        k = rng.choice(['open', 'read', 'missing'])
        iofault = {'kind': k, 'errno': 'EIO' if k == 'read' else rng.choice(sorted(ERRNO_CODE)), 'r': 1}
    cfg = {
        'session': {'max_memory': rng.choice([65534, 65534, 30000, 14000, 9000]) if faulty else 65534},
        'gc_k': rng.choice([1, 2, 3, 5, 11]) if faulty and rng.random() < 0.7 else 0,
        'reset': reset,
        'chain': chain,
        'common': common,
        'p2fmt': 'A' if chain['merge'] else rng.choice(['A', 'B', 'P']),
        'deftype': rng.random() < 0.6,
        'base1': rng.random() < 0.4,
        'iofault': iofault,
        'world': {},
    }
    ops = []
    n = rng.randint(3, 14 if not thorough else 40)
    for _ in range(n):
        r = rng.random()
        if r < 0.40:
            v = rng.choice(SCALARS)
            if v.endswith('$'):
                ops.append({'op': 'let', 'var': v, 'sval': _gen_sval(rng)})
            else:
                ops.append({'op': 'let', 'var': v, 'nval': _gen_nval(rng, v)})
        elif r < 0.52:
            ops.append({'op': 'dim', 'arr': rng.choice(ARRAYS), 'n': rng.choice([1, 3, 10, 12, 15])})
        elif r < 0.80:
            a = rng.choice(ARRAYS)
            op = {'op': 'setel', 'arr': a, 'i': rng.choice([0, 1, 2, 3, 5, 10, 11, 15])}
            if a.endswith('$'):
                op['sval'] = _gen_sval(rng)
            else:
                op['nval'] = _gen_nval(rng, a)
            ops.append(op)
        elif r < 0.85:
            ops.append({'op': 'erase', 'arr': rng.choice(ARRAYS)})
        elif r < 0.91:
            t = rng.choice(['$', 'n'])
            if t == '$':
                a_, b_ = rng.sample([v for v in SCALARS if v.endswith('$')], 2)
            else:
                s_ = rng.choice(['%', '!'])
                a_, b_ = rng.sample([v for v in SCALARS if v.endswith(s_)], 2)
            ops.append({'op': 'swap', 'a': a_, 'b': b_})
        elif r < 0.95:
            ops.append({'op': 'gc'})
        elif faulty:
            ops.append({'op': 'fill', 'margin': rng.choice([200, 600, 1500, 4000]), 'max': rng.choice([8, 20, 60])})
    if faulty and rng.random() < 0.3:
        # long strings up to the memory limit, right before the reset
        ops.append({'op': 'fill', 'margin': rng.choice([300, 600, 1500, 4000]), 'max': rng.choice([20, 60, 250])})
    return {'machine': NAME, 'prop': prop, 'cfg': cfg, 'ops': ops}


def simplify(cfg, ops):
    if cfg.get('gc_k'):
        yield dict(cfg, gc_k=0), ops
    if cfg.get('gc_k', 0) > 1:
        yield dict(cfg, gc_k=1), ops
    if cfg['session'].get('max_memory', 65534) != 65534:
        yield dict(cfg, session={'max_memory': 65534}), ops
    for key in ('deftype', 'base1'):
        if cfg.get(key):
            yield dict(cfg, **{key: False}), ops
    if cfg.get('iofault') and cfg['iofault']['kind'] != 'missing':
        yield dict(cfg, iofault=dict(cfg['iofault'], kind='missing')), ops
    for key in ('merge', 'all', 'delete', 'line'):
        if cfg['chain'].get(key):
            yield dict(cfg, chain=dict(cfg['chain'], **{key: False}), p2fmt='A'), ops
    if cfg['p2fmt'] != 'A':
        yield dict(cfg, p2fmt='A'), ops
    for i in range(len(cfg['common'])):
        yield dict(cfg, common=cfg['common'][:i] + cfg['common'][i + 1:]), ops
    for i, op in enumerate(ops):
        sv = op.get('sval')
        if sv and sv['k'] != 'lit':
            yield cfg, ops[:i] + [dict(op, sval={'k': 'lit', 's': 'ab'})] + ops[i + 1:]
        if sv and sv['k'] == 'rep' and sv['n'] > 2:
            yield cfg, ops[:i] + [dict(op, sval=dict(sv, n=2))] + ops[i + 1:]


# ---------------------------------------------------------------------------
# programs

def p1_lines(cfg):
    ch = cfg['chain']
    lines = []
    if cfg['common']:
        # several COMMON statements, as a long program would have
        cs = cfg['common']
        half = (len(cs) + 1) // 2
        lines.append('10 COMMON %s' % ','.join(cs[:half]))
        if cs[half:]:
            lines.append('15 COMMON %s' % ','.join(cs[half:]))
    lines.append('20 DEF FNA(P9)=P9+1')
    if cfg['deftype']:
        lines.append('30 DEFSTR S:DEFINT N')
    if cfg['base1']:
        lines.append('40 OPTION BASE 1')
    lines.append('50 ON ERROR GOTO 900')
    lines.append('60 DATA 11,22,33,44')
    lines.append('70 READ D1,D2')
    # (a string in string space from the start: keeps set-up clear of a known crash of the collector
    # with no permanent string, which is not this property's business)
    lines.append('80 Q!=RND:Q!=RND:Q9$="q"+"9"')
    lines.append('90 GOSUB 200')
    lines.append('100 END')
    lines.append('200 FOR L9=1 TO 3')
    lines.append('210 STOP')
    lines.append('220 NEXT')
    lines.append('230 RETURN')
    name = 'NOFILE' if (cfg.get('iofault') or {}).get('kind') == 'missing' else 'P2'
    txt = '%d CHAIN %s"%s"' % (CHAIN_LINE, 'MERGE ' if ch['merge'] else '', name)
    if ch['line'] or ch['all'] or ch['delete']:
        txt += ',%s' % (P2_LINE if (ch['line'] or ch['merge']) else '')
    elif ch['merge']:
        txt += ',%d' % P2_LINE
    if ch['all'] or ch['delete']:
        txt += ',ALL' if ch['all'] else ','
        if ch['delete']:
            # with ALL: "CHAIN f,n,ALL,DELETE r"; without: "CHAIN f,n,DELETE r"
            txt += (',' if ch['all'] else '') + 'DELETE 60-230'
    lines.append(txt)
    lines.append('%d END' % (CHAIN_LINE + 10))
    lines.append('900 PRINT "#E|";ERR;"|";ERL;"|":RESUME NEXT')
    return lines


def p2_lines(cfg):
    lines = ['%d PRINT "#P2|"' % P2_LINE]
    n = P2_LINE + 10
    for v in SCALARS:
        if v.endswith('$'):
            lines.append('%d PRINT "#S|%s|";LEN(%s);"|";LEFT$(%s,16);"|";RIGHT$(%s,16);"|"' % (n, v, v, v, v))
        else:
            lines.append('%d PRINT "#N|%s|";%s;"|"' % (n, v, v))
        n += 10
    lines.append('%d PRINT "#P2END|"' % n)
    lines.append('%d END' % (n + 10))
    return lines


# ---------------------------------------------------------------------------
# model

def _fresh(name):
    return '' if name.endswith('$') else 0


class Model(object):
    def __init__(self, cfg):
        self.base = 1 if cfg['base1'] else 0
        self.sc = {}
        self.ar = {}        # name -> list indexed 0..n (index 0 unused under base 1)

    def sget(self, name):
        return self.sc.get(name, _fresh(name))

    def sval(self, sv):
        k = sv['k']
        if k == 'lit':
            return sv['s']
        if k == 'cat':
            return sv['s'] + sv['t']
        if k == 'rep':
            return sv['c'] * sv['n']
        if k == 'var':
            return (self.sget(sv['v']) + sv['s'])
        raise ValueError(sv)


def sval_text(sv):
    k = sv['k']
    if k == 'lit':
        return '"%s"' % sv['s']
    if k == 'cat':
        return '"%s"+"%s"' % (sv['s'], sv['t'])
    if k == 'rep':
        return 'STRING$(%d,"%s")' % (sv['n'], sv['c'])
    if k == 'var':
        return '%s+"%s"' % (sv['v'], sv['s'])
    raise ValueError(sv)


def nval_text(v):
    if isinstance(v, int):
        return str(v)
    if v == int(v):
        return str(int(v))
    return repr(v).replace('0.', '.', 1) if abs(v) < 1 else repr(v)


def _same(a, b_):
    if isinstance(a, bytes):
        a = a.decode('latin-1')
    if isinstance(b_, bytes):
        b_ = b_.decode('latin-1')
    return a == b_


# ---------------------------------------------------------------------------
# run

def run(case):
    simfs.install_fs_seams()
    logging.disable(logging.CRITICAL)
    cfg = case['cfg']
    ops = case['ops']

    def body(run):
        w = run.w
        scratch = run.make_scratch()
        root = os.path.join(scratch, 'c')
        os.makedirs(root)
        fs = simfs.SimFS(w, [scratch])
        sk = dict(cfg.get('session', {}))
        pressure = sk.get('max_memory', 65534) < 65534
        P1 = p1_lines(cfg)
        P2 = p2_lines(cfg)
        with w, ForcedGC(w, 0) as gc:
            # ---- reference values from a fresh Session of the same configuration
            ref = Driver(w, devices={'C:': root}, current_device='C:', **sk)
            r0 = ref.eval(b'RND')
            fre_new = ref.eval(b'FRE("")')
            for l in P1:
                ref.exec(b(l))
            fre_prog = ref.eval(b'FRE("")')
            ref.close()
            # ---- the session under test
            d = Driver(w, devices={'C:': root}, current_device='C:', **sk)

            def must(line, allow=()):
                r = d.exec(b(line))
                if r.errs and r.err not in allow:
                    raise K.HarnessError('setup statement failed: %r -> %r' % (line, r))
                return r

            for l in P2:
                must(l)
            must('SAVE "P2"%s' % {'A': ',A', 'B': '', 'P': ',P'}[cfg['p2fmt']])
            must('NEW')
            for l in P1:
                must(l)
            r = d.exec(b'RUN')
            if b'Break in 210' not in r.out:
                raise K.HarnessError('skeleton did not stop in 210: %r' % (r,))
            gc.k = int(cfg.get('gc_k') or 0)
            # ---- build the variable state
            m = Model(cfg)
            try:
                nontrivial = build_state(run, d, m, ops, pressure)
            except EngineCrash as e:
                # an internal error while assigning variables is C01's business, not a reset/CHAIN verdict
                run.violate('C01', 'crash-in-set-up:' + e.signature, '%s: %s (during %r)' % (e.exc_type, e.exc_msg, e.where))
                return
            if not readback_ok(run, d, m, 'before-reset'):
                d.close()
                return
            free = d.eval(b'FRE(0)')
            # ---- the reset
            reset = cfg['reset']
            ch = cfg['chain']
            iof = cfg.get('iofault')
            outcome = 'ok'
            failed_chain = False
            if reset == 'clear':
                r = d.exec(b'CLEAR')
            elif reset == 'new':
                r = d.exec(b'NEW')
            elif reset == 'run':
                r = d.exec(b'RUN 100')
            else:
                if iof and iof['kind'] in ('open', 'read'):
                    fs.arm(iof['kind'], nth=1, err=getattr(_errno, iof['errno']), path_sub='P2.BAS', repeat=iof['r'])
                try:
                    r = d.exec(b'GOTO %d' % CHAIN_LINE, poll_cap=40000)
                except EngineCrash as e:
                    if iof and fs.fired:
                        # a host error on the chained file that escapes as a Python exception: C01's oracle
                        run.violate('C01', 'crash-on-io-fault:%s:%s' % (iof['kind'], e.signature),
                                    '%s: %s (during %r)\n%s' % (e.exc_type, e.exc_msg, e.where, e.tb[-1200:]))
                        run.probe('chain-io-fault-escaped-as-exception')
                        return
                    raise
                fs.disarm()
            # forced collection covers the set-up and the reset itself; the probes below only observe
            gc.k = 0
            ev = parse_trace(r.out)
            errs = [e for e in ev if e[0] in ('stop', 'derr')] + [e for e in ev if e[0] == '#' and e[1] == 'E']
            if reset != 'chain':
                if errs:
                    run.violate('C23', 'reset-statement-error:%s' % reset, '%s -> %r' % (reset, r))
                    outcome = 'error'
            else:
                reached = any(e[0] == '#' and e[1] == 'P2' for e in ev)
                if errs or not reached:
                    failed_chain = True
                    codes = [e[1] for e in errs if e[0] in ('stop', 'derr')]
                    ecodes = codes + [int(e[2][0]) for e in errs if e[0] == '#' and e[3] and e[2]]
                    outcome = 'chain-error'
                    if iof:
                        run.probe('chain-io-error')
                    elif (pressure or free < 4000) and ecodes and all(c in (7, 14) for c in ecodes):
                        run.probe('chain-out-of-memory')
                    else:
                        run.violate('C23', 'chain-failed:%s' % ('error-%s' % codes[0] if codes else 'p2-not-reached'),
                                    'CHAIN without fault or memory pressure did not reach the chained program: %r\n'
                                    'P1:\n%s' % (r, '\n'.join(P1)))
                elif iof and iof['kind'] != 'missing' and not fs.fired:
                    run.probe('io-fault-not-fired')
            run.state(reset, tuple(sorted(k for k in ch if ch[k])) if reset == 'chain' else (), len(cfg['common']) // 3,
                      sum(1 for v in m.sc if v.endswith('$') and m.sc[v]) // 2, int(free) // 8000, bool(cfg.get('gc_k')),
                      iof['kind'] if iof else '-', outcome)
            if nontrivial:
                run.probe('nontrivial-state')
            # ---- judge
            if reset == 'chain' and not failed_chain:
                judge_chain(run, d, m, cfg, ev, r)
            elif reset != 'chain' and outcome == 'ok':
                judge_reset(run, d, cfg, reset, r0, fre_new, fre_prog, sk, after_failed_chain=False)
            if failed_chain:
                # whatever a failed CHAIN left behind, NEW must give a fresh machine
                r = d.exec(b'NEW')
                judge_reset(run, d, cfg, 'new', r0, fre_new, fre_prog, sk, after_failed_chain=True)
            d.close()
    return execute(case, body)


def build_state(run, d, m, ops, pressure):
    nontrivial = False
    for op in ops:
        k = op['op']
        if k == 'let':
            name = op['var']
            if 'sval' in op:
                val = m.sval(op['sval'])
                txt = '%s=%s' % (name, sval_text(op['sval']))
                exp_err = 15 if len(val) > 255 else None
            else:
                val = op['nval']
                txt = '%s=%s' % (name, nval_text(val))
                exp_err = None
            r = d.exec(b(txt))
            if _setup_ok(run, r, exp_err, pressure, txt):
                m.sc[name] = val
                nontrivial = nontrivial or bool(val)
        elif k == 'dim':
            name = op['arr']
            r = d.exec(b('DIM %s(%d)' % (name, op['n'])))
            exp_err = 10 if name in m.ar else (9 if op['n'] < m.base else None)
            if _setup_ok(run, r, exp_err, pressure, 'DIM %s(%d)' % (name, op['n'])):
                m.ar[name] = [_fresh(name)] * (op['n'] + 1)
        elif k == 'setel':
            name, i = op['arr'], op['i']
            if 'sval' in op:
                val = m.sval(op['sval'])
                txt = '%s(%d)=%s' % (name, i, sval_text(op['sval']))
            else:
                val = op['nval']
                txt = '%s(%d)=%s' % (name, i, nval_text(val))
            r = d.exec(b(txt))
            size = len(m.ar[name]) - 1 if name in m.ar else 10
            exp_err = None
            if i > size or i < m.base:
                exp_err = 9
            elif isinstance(val, str) and len(val) > 255:
                exp_err = 15
            if _err(r) in (7, 14) and pressure:
                # the implicit DIM may or may not have happened: resynchronise from the engine
                run.probe('setup-pressure-error')
                if name not in m.ar and d.get(b(name + '()')) != []:
                    m.ar[name] = [_fresh(name)] * 11
                continue
            if name not in m.ar and exp_err in (None, 9, 15):
                # first reference dimensions the array (also when the subscript is out of range)
                m.ar[name] = [_fresh(name)] * 11
            if _setup_ok(run, r, exp_err, pressure, txt):
                m.ar[name][i] = val
                nontrivial = nontrivial or bool(val)
        elif k == 'erase':
            name = op['arr']
            r = d.exec(b('ERASE %s' % name))
            if _setup_ok(run, r, None if name in m.ar else 5, pressure, 'ERASE ' + name):
                del m.ar[name]
        elif k == 'swap':
            r = d.exec(b('SWAP %s,%s' % (op['a'], op['b'])))
            if _err(r) in (7, 14) and pressure:
                run.probe('setup-pressure-error')
                # SWAP allocates missing variables first; values are unchanged when it fails
                continue
            # SWAP allocates its first variable and wants the second one to exist already
            # (a variable also exists after a failed assignment to it, so existence is taken from the outcome)
            exp_err = None if (op['b'] in m.sc or _err(r) is None) else 5
            m.sc.setdefault(op['a'], _fresh(op['a']))
            if _setup_ok(run, r, exp_err, pressure, 'SWAP %s,%s' % (op['a'], op['b'])):
                va, vb = m.sget(op['a']), m.sget(op['b'])
                m.sc[op['a']], m.sc[op['b']] = vb, va
        elif k == 'gc':
            d.exec(b'Z9=FRE("")')
        elif k == 'fill':
            if FILL not in m.ar:
                r = d.exec(b('DIM %s(%d)' % (FILL, op['max'])))
                if _err(r) is not None:
                    run.probe('setup-pressure-error')
                    continue
                m.ar[FILL] = [''] * (op['max'] + 1)
            size = len(m.ar[FILL]) - 1
            for i in range(m.base, size + 1):
                if d.eval(b'FRE(0)') < op['margin'] + 260:
                    break
                ch = chr(65 + i % 26)
                r = d.exec(b('%s(%d)=STRING$(255,"%s")' % (FILL, i, ch)))
                if _err(r) is not None:
                    run.probe('setup-pressure-error')
                    break
                m.ar[FILL][i] = ch * 255
                nontrivial = True
            run.probe('filled-to-margin')
    return nontrivial


_E_RE = re.compile(b'#E\\| ?(-?\\d+) \\|')


def _err(r):
    """Error code of an executed line: reported at the prompt, or printed by the armed handler at 900."""
    mm = _E_RE.search(r.out)
    if mm:
        return int(mm.group(1))
    return r.err


def _setup_ok(run, r, exp_err, pressure, txt):
    """True if the statement took effect. Divergence from the dict model in the set-up phase is a harness error."""
    if _err(r) == exp_err and exp_err is None:
        return True
    if _err(r) == exp_err:
        return False
    if pressure and _err(r) in (7, 14):
        run.probe('setup-pressure-error')
        return False
    raise K.HarnessError('set-up statement %r: expected error %r, got %r' % (txt, exp_err, r))


def readback(d, m, names_s, names_a):
    """Differences between the engine's variables and the model: [(name, engine, model)]."""
    diffs = []
    for name in names_s:
        got = d.get(b(name))
        exp = m.sget(name)
        if not _same(got, exp):
            diffs.append((name, got, exp))
    for name in names_a:
        if name not in m.ar:
            got = d.get(b(name + '()'))
            if got != []:
                diffs.append((name + '()', 'exists, %d elements' % len(got), 'not dimensioned'))
            continue
        if d.get(b(name + '()')) == []:
            diffs.append((name + '()', 'not dimensioned', 'exists'))
            continue
        for i in range(m.base, len(m.ar[name])):
            got = d.eval(b('%s(%d)' % (name, i)))
            if not _same(got, m.ar[name][i]):
                diffs.append(('%s(%d)' % (name, i), got, m.ar[name][i]))
    return diffs


def readback_ok(run, d, m, when):
    diffs = readback(d, m, SCALARS, ARRAYS + [FILL])
    if diffs:
        # that is C10's business (values before any reset): record, do not judge here
        run.violate('C10', 'variable-differs-from-model:%s' % when, repr(diffs[:5]))
        return False
    return True


def _short(v):
    if isinstance(v, (bytes, str)) and len(v) > 40:
        return '%r...(%d)' % (v[:20], len(v))
    return repr(v)


def judge_chain(run, d, m, cfg, ev, r):
    ch = cfg['chain']
    common = set(cfg['common'])
    keep_all = ch['all']
    opts = '+'.join(k for k in ('merge', 'all', 'delete', 'line') if ch[k]) or 'plain'
    # expected model after the chain
    exp = Model(cfg)
    for name in SCALARS:
        if keep_all or name in common:
            if name in m.sc:
                exp.sc[name] = m.sc[name]
    for name in ARRAYS + [FILL]:
        if (keep_all or (name + '()') in common) and name in m.ar:
            exp.ar[name] = list(m.ar[name])
    # (1) what the chained program itself saw
    for e in ev:
        if e[0] != '#' or not e[3]:
            continue
        if e[1] == 'S':
            name, ln, left, right = e[2][0], e[2][1], e[2][2], e[2][3]
            val = exp.sget(name)
            if (ln.strip(), left, right) != (str(len(val)), val[:16], val[-16:] if val else ''):
                run.violate('C23', 'chain:%s:string-in-chained-program:%s' % (opts, 'common-changed' if val else 'non-common-survives'),
                            'chained program printed %s len %s %r..%r, expected %s\n%s' % (name, ln, left, right, _short(val), _ctx(cfg)))
        elif e[1] == 'N':
            name, txt = e[2][0], e[2][1]
            val = exp.sget(name)
            try:
                got = float(txt)
            except ValueError:
                got = None
            if got != float(val):
                run.violate('C23', 'chain:%s:number-in-chained-program:%s' % (opts, 'common-changed' if val else 'non-common-survives'),
                            'chained program printed %s = %r, expected %r\n%s' % (name, txt, val, _ctx(cfg)))
    if not any(e[0] == '#' and e[1] == 'P2END' for e in ev):
        run.violate('C23', 'chain:%s:chained-program-did-not-finish' % opts, '%r\n%s' % (r, _ctx(cfg)))
    # (2) after it ended: full contents
    diffs = readback(d, exp, SCALARS, ARRAYS + [FILL])
    for name, got, want in diffs:
        base = name.split('(')[0]
        is_common = keep_all or base in common or (base + '()') in common
        kind = 'array' if '(' in name else 'scalar'
        typ = 'string' if base.endswith('$') else 'number'
        run.violate('C23', 'chain:%s:%s-%s:%s' % (opts, typ, kind, 'common-lost-or-changed' if is_common else 'non-common-survives'),
                    '%s reads %s after CHAIN, expected %s (common list %r, ALL=%s)\n%s' % (
                        name, _short(got), _short(want), cfg['common'], keep_all, _ctx(cfg)))
    run.probe('chain-judged')
    if any(exp.sc.get(v) for v in exp.sc if v.endswith('$')) or any(x for a in exp.ar if a.endswith('$') for x in exp.ar[a]):
        run.probe('chain-with-live-common-strings')
    # (3) everything else is cleared (plain CHAIN only for FN and DEFtype, see ASSUMPTIONS)
    probe_stacks_and_trap(run, d, 'chain:' + opts)
    if not ch['all']:
        rr = d.exec(b'Z9=FNA(1)')
        if rr.err != 18:
            run.violate('C23', 'chain:%s:def-fn-survives' % opts, 'Z9=FNA(1) after CHAIN -> %r\n%s' % (rr, _ctx(cfg)))
    if cfg['deftype'] and not ch['merge']:
        rr = d.exec(b'S9="a"')
        if rr.err != 13:
            run.violate('C23', 'chain:%s:deftype-survives' % opts, 'S9="a" after CHAIN -> %r\n%s' % (rr, _ctx(cfg)))
    # the values must also survive a collection and later allocations in the chained state
    d.exec(b'Z8$=STRING$(40,"z")+"y":Z9=FRE("")')
    diffs = readback(d, exp, SCALARS, ARRAYS + [FILL])
    for name, got, want in diffs[:3]:
        run.violate('C23', 'chain:%s:value-lost-at-next-collection' % opts,
                    '%s reads %s after a string allocation and FRE("") in the chained state, expected %s\n%s' % (
                        name, _short(got), _short(want), _ctx(cfg)))


def _ctx(cfg):
    return 'P1:\n%s\ncfg: gc_k=%s max_memory=%s p2fmt=%s iofault=%r' % (
        '\n'.join(p1_lines(cfg)), cfg.get('gc_k'), cfg['session'].get('max_memory'), cfg['p2fmt'], cfg.get('iofault'))


def probe_stacks_and_trap(run, d, what):
    rr = d.exec(b'NEXT')
    if rr.err != 1:
        run.violate('C23', '%s:for-stack-survives' % what, 'NEXT -> %r (expected NEXT without FOR)' % (rr,))
    rr = d.exec(b'RETURN')
    if rr.err != 3:
        run.violate('C23', '%s:gosub-stack-survives' % what, 'RETURN -> %r (expected RETURN without GOSUB)' % (rr,))
    rr = d.exec(b'RESUME')
    if rr.err != 20:
        run.violate('C23', '%s:error-resume-state-survives' % what, 'RESUME -> %r (expected RESUME without error)' % (rr,))
    rr = d.exec(b'ERROR 97')
    if b'#E|' in rr.out or rr.err != -1:
        run.violate('C23', '%s:error-trap-survives' % what, 'ERROR 97 -> %r (expected an untrapped Unprintable error)' % (rr,))
    # with no error trap, a floating-point error is reported by message and execution continues
    rr = d.exec(b'PRINT 1/0:PRINT "#soft"')
    if b'#soft' not in rr.out:
        run.violate('C23', '%s:error-trap-survives:float-errors-still-fatal' % what,
                    'PRINT 1/0:PRINT "#soft" -> %r (expected the Division by zero message, the maximum and #soft)' % (rr,))


def judge_reset(run, d, cfg, reset, r0, fre_new, fre_prog, sk, after_failed_chain):
    what = reset + ('-after-failed-chain' if after_failed_chain else '')
    # memory accounting equals a fresh machine's (first, before the probes allocate anything)
    fre = d.eval(b'FRE("")')
    want = fre_new if reset == 'new' else fre_prog
    if fre != want and not after_failed_chain or (after_failed_chain and fre != fre_new):
        run.violate('C23', '%s:free-memory-differs-from-fresh' % what,
                    'FRE("") after %s = %r, a fresh session with the same program gives %r\n%s' % (what, fre, want, _ctx(cfg)))
    # no variable or array survives
    fresh = Model(cfg)
    fresh.base = 0
    for name, got, want_ in readback(d, fresh, SCALARS, ARRAYS + [FILL]):
        run.violate('C23', '%s:variable-survives:%s' % (what, 'string' if name.split('(')[0].endswith('$') else 'number'),
                    '%s reads %s after %s\n%s' % (name, _short(got), what, _ctx(cfg)))
    # random sequence restarts
    rnd = d.eval(b'RND')
    if rnd != r0:
        run.violate('C23', '%s:rnd-state-survives' % what, 'first RND after %s = %r, fresh session %r' % (what, rnd, r0))
    # stacks, trap
    probe_stacks_and_trap(run, d, what)
    # DEF FN, DEFtype, OPTION BASE
    rr = d.exec(b'Z9=FNA(1)')
    if rr.err != 18:
        run.violate('C23', '%s:def-fn-survives' % what, 'Z9=FNA(1) -> %r' % (rr,))
    if cfg['deftype']:
        rr = d.exec(b'S9="a"')
        if rr.err != 13:
            run.violate('C23', '%s:deftype-survives' % what, 'S9="a" -> %r (DEFSTR S was active before)' % (rr,))
    if cfg['base1']:
        rr = d.exec(b'Z9=QQ(0)')
        if rr.err is not None:
            run.violate('C23', '%s:option-base-survives' % what, 'Z9=QQ(0) -> %r (OPTION BASE 1 was active before)' % (rr,))
    # DATA pointer
    rr = d.exec(b'READ Z7')
    has_data = reset != 'new' and not after_failed_chain
    if has_data:
        if rr.err is not None or d.get(b'Z7!') != 11:
            run.violate('C23', '%s:data-pointer-survives' % what, 'READ Z7 -> %r, Z7=%r (expected the first DATA item 11)' % (
                rr, d.get(b'Z7!')))
    # the collector works: allocate (and drop) twice the memory size in 200-byte strings
    n = int(sk.get('max_memory', 65534) * 2 // 200)
    rr = d.exec(b('FOR I9=1 TO %d:Z9$=STRING$(200,"a"):NEXT' % n), poll_cap=n * 4 + 1000)
    if rr.errs:
        run.violate('C23', '%s:string-churn-fails' % what,
                    'after %s, assigning a 200-byte string %d times -> %r (a fresh session runs this loop without error)\n%s' % (
                        what, n, rr, _ctx(cfg)))
    run.probe('reset-judged:' + what)
