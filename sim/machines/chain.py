"""
chain machine - C23: RUN, CLEAR and NEW reset all state; CHAIN keeps exactly the COMMON variables.

One run: a second program P2 is SAVEd on the scratch disk, a skeleton program P1 (COMMON list,
DEF FN, DEFSTR, OPTION BASE, ON ERROR GOTO, DATA/READ, RND, CHAIN line) is entered and RUN until it
is left with its stacks live, in one of several histories (cfg 'ctx' x 'hbody'):
  ctx   sub   inside GOSUB -> FOR -> WHILE
        errh  the same, but called from an ON ERROR handler that has not executed RESUME yet
        evh   the same, but called from an ON KEY(2) GOSUB event-trap handler (F2 through the input queue)
  hbody stop  the program executes STOP there
        break the program loops on INKEY$ there and Ctrl+Break arrives through the simulated input
              queue at a chosen poll
A random variable state (all types, arrays, 255-byte strings, optionally filled up to the memory
limit; random-access files opened on the scratch disk with string scalars and string-array elements
FIELDed onto their record buffers and filled with LSET/RSET/GET) is then built with direct statements
against a dict model; then one reset: CLEAR, NEW, RUN n, or CHAIN / CHAIN MERGE (ALL, DELETE, start
line) - typed in direct mode with the stacks live, or (cfg 'via' = handler) executed by the program's
own ON ERROR handler, i.e. from inside an unfinished error handler - under forced GC (seam S7), memory
pressure and host errors on the chained file (simfs). Afterwards the state is probed from direct mode
and compared with "fresh" (values of a fresh Session of the same configuration) and, for CHAIN, with
the model's COMMON subset; finally a fresh program is entered and RUN, which must print nothing but
its own output, and RESUME in it must be refused.
"""

import os
import re
import errno as _errno
import logging

from .. import kernel as K
from ..basicdrv import Driver, EngineCrash, ByteSink
from .. import simfs
from .common import Run, execute, b, u, shash
from .errfn import ForcedGC, parse_trace, ERRNO_CODE

NAME = 'chain'
PROPS = ('C23',)
RULE = ('one evaluation = one session history: leave the skeleton program inside a subroutine / unfinished error '
        'handler / event-trap handler (by STOP or by Ctrl+Break at a poll), build state, one reset '
        '(CLEAR/NEW/RUN/CHAIN variant, typed or executed by the error handler), probe; '
        'distinct = (history, reset kind, issued from, chain options, #commons bucket, #string vars bucket, '
        '#FIELD variables bucket, free-memory bucket, forced-gc on, io fault kind, outcome) ; non-trivial = at least '
        'one variable or array held a value before the reset')
REAL = ['pcbasic.basic (whole package)', 'pcbasic.basic.implementation (_clear_all, chain_, run_, new_, clear_)',
        'pcbasic.basic.interpreter (clear, trap_error, resume_, event and error handler state)',
        'pcbasic.basic.memory.memory (preserve_commons, collector, FIELD buffers)', 'pcbasic.basic.devices.disk on tmpfs',
        'pcbasic.basic.devices.diskfiles (random files, FIELD)', 'pcbasic.basic.program (save/load/merge)']
STUB = ['wall clock (simulated)', 'interface queues (recording; F2 and Ctrl+Break injected at chosen polls)',
        'host FS errors (simfs fault plan)']
ASSUMPTIONS = [
    'after CHAIN, OPTION BASE, DEF FN under ALL and DEFtype under MERGE are not judged (the property is silent; '
    'GW-BASIC documents them per option)',
    'a CHAIN that ends in Out of memory / Out of string space in a memory-pressure run is not judged',
    'event traps (ON KEY GOSUB, KEY(n) ON) and ERR/ERL after a reset are not judged (the property is silent); '
    'the event-trap handler only contributes its subroutine-stack entry',
    'whether files are open after CLEAR/NEW/RUN is not judged; the PUT/GET round trip through the file left open by '
    'CHAIN is reported under C25, not C23',
]
BATCH = 10

SCALARS = ['A$', 'B$', 'C$', 'LONGNAME$', 'I%', 'J%', 'X!', 'Y!', 'U#']
ARRAYS = ['AR%', 'S$', 'F!', 'T$']
STR_SCALARS = [v for v in SCALARS if v.endswith('$')]
STR_ARRAYS = [a for a in ARRAYS if a.endswith('$')]
FILL = 'F$'
CHAIN_LINE = 300
P2_LINE = 2000
RUN_END_LINE = 100      # RUN 100 -> END
RUN_TAIL_LINE = 990     # RUN 990 -> the last line of the program: runs off its end

# random-access data files on the scratch disk: file number -> (name, record length); NREC records each
FILES = {1: ('F1.DAT', 16), 2: ('F2.DAT', 40)}
NREC = 3
_ALNUM = 'abcdefghijklmnopqrstuvwxyzABCDEFGHIJKLMNOPQRSTUVWXYZ0123456789'
# string items of the DATA line 65 of P1 (READ leaves the variable pointing into the program text)
DATA_LINE = 65
DATA_ITEMS = ['alpha', 'bravo xy', 'Charlie9']

# cfg keys added after the first version of this machine (so that older replay files stay executable)
CFG_DEFAULTS = {
    'ctx': 'sub', 'hbody': 'stop', 'via': 'direct', 'runto': RUN_END_LINE, 'p2end': 'end', 'p2trap': False,
    'fresh_first': False, 'trap_first': False, 'key_poll': 30, 'brk_poll': 60,
}


def _full(cfg):
    d = dict(CFG_DEFAULTS)
    d.update(cfg)
    return d


def rec_text(fn, r):
    """Contents of record r (1-based) of data file fn."""
    return ''.join(_ALNUM[(fn * 17 + r * 11 + i * 7) % len(_ALNUM)] for i in range(FILES[fn][1]))


def quick_runs(prop):
    return 5000


# ---------------------------------------------------------------------------
# generation

_WORDS = ['ab', 'cd', 'xyz', 'q', 'hello', 'w0', 'mno', 'tt', 'k9', 'zebra', '']


def _gen_sval(rng):
    r = rng.random()
    if r < 0.3:
        return {'k': 'lit', 's': rng.choice(_WORDS)}
    if r < 0.6:
        return {'k': 'cat', 's': rng.choice(_WORDS), 't': rng.choice(_WORDS)}
    if r < 0.8:
        return {'k': 'rep', 'n': rng.choice([1, 2, 17, 100, 254, 255]), 'c': rng.choice('abcXYZ')}
    if r < 0.88:
        # plain copy of another variable (shares its descriptor if that points into program text)
        return {'k': 'copy', 'v': rng.choice(STR_SCALARS)}
    return {'k': 'var', 'v': rng.choice(STR_SCALARS), 's': rng.choice(_WORDS)}


def _gen_nval(rng, name):
    if name.endswith('%'):
        return rng.choice([0, 1, -1, 7, 255, -32768, 32767, rng.randint(-999, 999)])
    return rng.choice([0, 1, -1, 13, 15, 29, -31, 400, rng.randint(-4000, 4000)]) / 4.0


def _gen_target(rng, prefer=()):
    """A string scalar or string-array element: {'var': name} or {'arr': name, 'i': index}."""
    if prefer and rng.random() < 0.7:
        t = rng.choice(prefer)
        if t.endswith('()'):
            return {'arr': t[:-2], 'i': rng.choice([0, 1, 2, 3, 5, 10])}
        return {'var': t}
    if rng.random() < 0.55:
        return {'var': rng.choice(STR_SCALARS)}
    return {'arr': rng.choice(STR_ARRAYS), 'i': rng.choice([0, 1, 2, 3, 5, 10, 11])}


def _gen_field(rng, fns, prefer=()):
    fn = rng.choice(fns)
    n = FILES[fn][1]
    wd = min(n, rng.choice([1, 2, 4, 8, 12, n]))
    off = rng.choice([0, 0, rng.randint(0, n - wd)])
    op = {'op': 'field', 'fn': fn, 'off': off, 'w': wd}
    op.update(_gen_target(rng, prefer))
    return op


def _gen_lset(rng, target=None):
    op = {'op': 'lset', 'right': rng.random() < 0.3, 'sval': _gen_sval(rng)}
    op.update(target if target is not None else _gen_target(rng))
    return op


def gen(rng, tier, prop):
    thorough = tier != 'quick'
    faulty = rng.random() < 0.6
    reset = rng.choice(['clear', 'new', 'run', 'chain', 'chain', 'chain', 'chain'])
    names = SCALARS + [a + '()' for a in ARRAYS] + [FILL + '()']
    common = sorted(rng.sample(names, rng.randint(0, len(names)))) if rng.random() < 0.85 else []
    chain = {
        'merge': rng.random() < 0.35,
        'all': rng.random() < 0.3,
        'delete': rng.random() < 0.3,
        'line': rng.random() < 0.6,
    }
    iofault = None
    if faulty and reset == 'chain' and rng.random() < 0.3:
        k = rng.choice(['open', 'read', 'missing'])
        iofault = {'kind': k, 'errno': 'EIO' if k == 'read' else rng.choice(sorted(ERRNO_CODE)), 'r': 1}
    # the history in which the state is built and the reset is issued
    ctx = rng.choice(['sub', 'sub', 'errh', 'errh', 'evh'])
    hbody = 'break' if rng.random() < 0.4 else 'stop'
    key_poll = rng.randint(20, 60)
    brk_poll = (key_poll if ctx == 'evh' else 20) + rng.randint(10, 90)
    # an error raised inside an unfinished handler is not trapped: the handler can issue the reset only in the others
    via = 'handler' if ctx != 'errh' and rng.random() < 0.4 else 'direct'
    cfg = {
        'session': {'max_memory': rng.choice([65534, 65534, 30000, 14000, 9000]) if faulty else 65534},
        'gc_k': rng.choice([1, 2, 3, 5, 11]) if faulty and rng.random() < 0.7 else 0,
        'reset': reset,
        'chain': chain,
        'common': common,
        'p2fmt': 'A' if chain['merge'] else rng.choice(['A', 'B', 'P']),
        'deftype': rng.random() < 0.6,
        'base1': rng.random() < 0.4,
        'iofault': iofault,
        'ctx': ctx,
        'hbody': hbody,
        'key_poll': key_poll,
        'brk_poll': brk_poll,
        'via': via,
        'runto': rng.choice([RUN_END_LINE, RUN_TAIL_LINE]),
        'p2end': rng.choice(['end', 'stop', 'off']),
        'p2trap': rng.random() < 0.4,
        'fresh_first': reset != 'chain' and rng.random() < 0.3,
        'trap_first': rng.random() < 0.5,
        'world': {},
    }
    usefiles = rng.random() < 0.55
    str_common = [c for c in common if (c.endswith('$') or c.endswith('$()')) and not c.startswith(FILL)]
    ops = []
    opened = []
    if usefiles:
        ops.append({'op': 'open', 'fn': 1, 'rec': rng.randint(1, NREC)})
        opened.append(1)
        if rng.random() < 0.4:
            ops.append({'op': 'open', 'fn': 2, 'rec': rng.randint(1, NREC)})
            opened.append(2)
    n = rng.randint(3, 14 if not thorough else 40)
    for _ in range(n):
        if usefiles and rng.random() < 0.3:
            q = rng.random()
            fns = opened if rng.random() < 0.9 else [1, 2]
            if q < 0.45:
                ops.append(_gen_field(rng, fns))
            elif q < 0.8:
                ops.append(_gen_lset(rng))
            elif q < 0.95:
                ops.append({'op': 'get', 'fn': rng.choice(fns), 'rec': rng.randint(1, NREC)})
            else:
                fn = rng.choice([1, 2])
                ops.append({'op': 'open', 'fn': fn, 'rec': rng.randint(1, NREC)})
                if fn not in opened:
                    opened.append(fn)
            continue
        if rng.random() < 0.12:
            # one DATA item read into one or several variables: they all point at the same program text
            item = rng.randrange(len(DATA_ITEMS))
            for _k in range(rng.choice([1, 2, 2, 3])):
                op = {'op': 'read', 'item': item}
                op.update(_gen_target(rng, str_common))
                ops.append(op)
            continue
        r = rng.random()
        if r < 0.40:
            v = rng.choice(SCALARS)
            if v.endswith('$'):
                ops.append({'op': 'let', 'var': v, 'sval': _gen_sval(rng)})
            else:
                ops.append({'op': 'let', 'var': v, 'nval': _gen_nval(rng, v)})
        elif r < 0.52:
            ops.append({'op': 'dim', 'arr': rng.choice(ARRAYS), 'n': rng.choice([1, 3, 10, 12, 15])})
        elif r < 0.80:
            a = rng.choice(ARRAYS)
            op = {'op': 'setel', 'arr': a, 'i': rng.choice([0, 1, 2, 3, 5, 10, 11, 15])}
            if a.endswith('$'):
                op['sval'] = _gen_sval(rng)
            else:
                op['nval'] = _gen_nval(rng, a)
            ops.append(op)
        elif r < 0.85:
            ops.append({'op': 'erase', 'arr': rng.choice(ARRAYS)})
        elif r < 0.91:
            t = rng.choice(['$', 'n'])
            if t == '$':
                a_, b_ = rng.sample(STR_SCALARS, 2)
            else:
                s_ = rng.choice(['%', '!'])
                a_, b_ = rng.sample([v for v in SCALARS if v.endswith(s_)], 2)
            ops.append({'op': 'swap', 'a': a_, 'b': b_})
        elif r < 0.95:
            ops.append({'op': 'gc'})
        elif faulty:
            ops.append({'op': 'fill', 'margin': rng.choice([200, 600, 1500, 4000]), 'max': rng.choice([8, 20, 60])})
    if usefiles and rng.random() < 0.75:
        # a variable that is attached to a record buffer holding data at the moment of the reset
        # (preferably one that CHAIN has to carry over)
        f = _gen_field(rng, opened, str_common)
        ops.append(f)
        if rng.random() < 0.4:
            # a second variable on the very same bytes of the buffer
            f2 = {k: f[k] for k in ('op', 'fn', 'off', 'w')}
            f2.update(_gen_target(rng, str_common))
            ops.append(f2)
        if rng.random() < 0.6:
            ops.append(_gen_lset(rng, {k: f[k] for k in ('var', 'arr', 'i') if k in f}))
    if faulty and rng.random() < 0.3:
        # long strings up to the memory limit, right before the reset
        ops.append({'op': 'fill', 'margin': rng.choice([300, 600, 1500, 4000]), 'max': rng.choice([20, 60, 250])})
    return {'machine': NAME, 'prop': prop, 'cfg': cfg, 'ops': ops}


def simplify(cfg, ops):
    full = _full(cfg)
    if cfg.get('gc_k'):
        yield dict(cfg, gc_k=0), ops
    if cfg.get('gc_k', 0) > 1:
        yield dict(cfg, gc_k=1), ops
    if cfg['session'].get('max_memory', 65534) != 65534:
        yield dict(cfg, session={'max_memory': 65534}), ops
    for key in ('deftype', 'base1', 'p2trap', 'fresh_first', 'trap_first'):
        if cfg.get(key):
            yield dict(cfg, **{key: False}), ops
    if full['via'] != 'direct':
        yield dict(cfg, via='direct'), ops
    if full['hbody'] != 'stop':
        yield dict(cfg, hbody='stop'), ops
    if full['ctx'] != 'sub':
        yield dict(cfg, ctx='sub'), ops
    if full['p2end'] != 'end':
        yield dict(cfg, p2end='end'), ops
    if full['runto'] != RUN_END_LINE:
        yield dict(cfg, runto=RUN_END_LINE), ops
    if cfg.get('iofault') and cfg['iofault']['kind'] != 'missing':
        yield dict(cfg, iofault=dict(cfg['iofault'], kind='missing')), ops
    for key in ('merge', 'all', 'delete', 'line'):
        if cfg['chain'].get(key):
            yield dict(cfg, chain=dict(cfg['chain'], **{key: False}), p2fmt='A'), ops
    if cfg['p2fmt'] != 'A':
        yield dict(cfg, p2fmt='A'), ops
    for i in range(len(cfg['common'])):
        yield dict(cfg, common=cfg['common'][:i] + cfg['common'][i + 1:]), ops
    for i, op in enumerate(ops):
        sv = op.get('sval')
        if sv and sv['k'] != 'lit':
            yield cfg, ops[:i] + [dict(op, sval={'k': 'lit', 's': 'ab'})] + ops[i + 1:]
        if sv and sv['k'] == 'rep' and sv['n'] > 2:
            yield cfg, ops[:i] + [dict(op, sval=dict(sv, n=2))] + ops[i + 1:]
        if op['op'] == 'field' and op['off']:
            yield cfg, ops[:i] + [dict(op, off=0)] + ops[i + 1:]


# ---------------------------------------------------------------------------
# programs

def _body_line(cfg):
    """First line of the block in which the skeleton program is left."""
    return 250 if cfg['hbody'] == 'break' else 200


def _loop_lines(cfg):
    """(line of the block's NEXT, line of its WEND)."""
    return (265, 260) if cfg['hbody'] == 'break' else (220, 215)


def p1_lines(cfg):
    cfg = _full(cfg)
    ch = cfg['chain']
    body = _body_line(cfg)
    lines = []
    if cfg['common']:
        # several COMMON statements, as a long program would have
        cs = cfg['common']
        half = (len(cs) + 1) // 2
        lines.append('10 COMMON %s' % ','.join(cs[:half]))
        if cs[half:]:
            lines.append('15 COMMON %s' % ','.join(cs[half:]))
    # (a string function too: its entry among the variables holds a code pointer, not a string)
    lines.append('20 DEF FNA(P9)=P9+1:DEF FNB$(P9$)=P9$+"q"')
    if cfg['deftype']:
        lines.append('30 DEFSTR S:DEFINT N')
    if cfg['base1']:
        lines.append('40 OPTION BASE 1')
    lines.append('50 ON ERROR GOTO 900')
    lines.append('60 DATA 11,22,33,44')
    lines.append('%d DATA %s' % (DATA_LINE, ','.join('"%s"' % x if ' ' in x else x for x in DATA_ITEMS)))
    lines.append('70 READ D1,D2')
    # (a string in string space from the start: keeps set-up clear of a known crash of the collector
    # with no permanent string, which is not this property's business)
    lines.append('80 Q!=RND:Q!=RND:Q9$="q"+"9"')
    if cfg['ctx'] == 'errh':
        # trapped at 900, which hands over to 800: the block is entered from an unfinished error handler
        lines.append('90 ERROR 77')
    elif cfg['ctx'] == 'evh':
        # F2 arrives while line 90 spins: the block is entered from the event-trap handler at 700
        lines.append('85 ON KEY(2) GOSUB 700:KEY(2) ON')
        lines.append('90 FOR W9=1 TO 600:NEXT')
        lines.append('95 PRINT "#NOEVENT|"')
    else:
        lines.append('90 GOSUB %d' % body)
    lines.append('%d END' % RUN_END_LINE)
    # the block left by STOP
    lines.append('200 FOR L9=1 TO 3')
    lines.append('205 WHILE L9<9')
    lines.append('210 STOP')
    lines.append('215 WEND')
    lines.append('220 NEXT')
    lines.append('230 RETURN')
    # the block left by Ctrl+Break
    lines.append('250 FOR L9=1 TO 3')
    lines.append('255 WHILE INKEY$=""')
    lines.append('260 WEND')
    lines.append('265 NEXT')
    lines.append('270 RETURN')
    name = 'NOFILE' if (cfg.get('iofault') or {}).get('kind') == 'missing' else 'P2'
    txt = '%d CHAIN %s"%s"' % (CHAIN_LINE, 'MERGE ' if ch['merge'] else '', name)
    if ch['line'] or ch['all'] or ch['delete']:
        txt += ',%s' % (P2_LINE if (ch['line'] or ch['merge']) else '')
    elif ch['merge']:
        txt += ',%d' % P2_LINE
    if ch['all'] or ch['delete']:
        txt += ',ALL' if ch['all'] else ','
        if ch['delete']:
            # with ALL: "CHAIN f,n,ALL,DELETE r"; without: "CHAIN f,n,DELETE r"
            txt += (',' if ch['all'] else '') + 'DELETE 60-230'
    lines.append(txt)
    lines.append('%d END' % (CHAIN_LINE + 10))
    # the reset issued by the error handler: ERROR 99 is trapped at 900, which goes to the reset statement
    lines.append('400 ERROR 99')
    lines.append('410 END')
    lines.append('700 GOSUB %d' % body)
    lines.append('710 RETURN')
    lines.append('800 GOSUB %d' % body)
    lines.append('810 RESUME NEXT')
    lines.append('900 IF ERR=77 THEN 800')
    lines.append('905 IF ERR=99 THEN %d' % {'clear': 950, 'new': 960, 'run': 970, 'chain': CHAIN_LINE}[cfg['reset']])
    lines.append('910 PRINT "#E|";ERR;"|";ERL;"|":RESUME NEXT')
    lines.append('950 CLEAR')
    lines.append('955 STOP')
    lines.append('960 NEW')
    lines.append('970 RUN %d' % cfg['runto'])
    lines.append('%d PRINT "#R|"' % RUN_TAIL_LINE)
    return lines


def p2_lines(cfg):
    cfg = _full(cfg)
    lines = ['%d PRINT "#P2|"' % P2_LINE]
    if cfg['p2trap']:
        # the chained program sets its own error trap, which must work as in a program started afresh
        lines.append('%d GOTO %d' % (P2_LINE + 2, P2_LINE + 6))
        lines.append('%d PRINT "#T|";ERR;"|":RESUME NEXT' % (P2_LINE + 4))
        lines.append('%d ON ERROR GOTO %d' % (P2_LINE + 6, P2_LINE + 4))
        lines.append('%d ERROR 98' % (P2_LINE + 7))
        lines.append('%d ON ERROR GOTO 0' % (P2_LINE + 8))
    n = P2_LINE + 10
    for v in SCALARS:
        if v.endswith('$'):
            lines.append('%d PRINT "#S|%s|";LEN(%s);"|";LEFT$(%s,16);"|";RIGHT$(%s,16);"|"' % (n, v, v, v, v))
        else:
            lines.append('%d PRINT "#N|%s|";%s;"|"' % (n, v, v))
        n += 10
    lines.append('%d PRINT "#P2END|"' % n)
    # the chained program ends with END, with STOP (files stay open) or by running off its last line
    if cfg['p2end'] == 'end':
        lines.append('%d END' % (n + 10))
    elif cfg['p2end'] == 'stop':
        lines.append('%d STOP' % (n + 10))
    return lines


# ---------------------------------------------------------------------------
# model

def _fresh(name):
    return '' if name.endswith('$') else 0


def _tkey(op):
    """Text of the string variable an op refers to (also its key in Model.fld)."""
    return op['var'] if 'var' in op else '%s(%d)' % (op['arr'], op['i'])


class Model(object):
    def __init__(self, cfg):
        self.base = 1 if cfg['base1'] else 0
        self.sc = {}
        self.ar = {}        # name -> list indexed 0..n (index 0 unused under base 1)
        self.files = set()  # numbers of the open random-access files
        self.buf = {}       # file number -> contents of its record buffer (str)
        self.fld = {}       # 'A$' / 'S$(3)' -> (file number, offset, width): variable lives in that record buffer

    def kget(self, key):
        """Value of the variable or array element written as in BASIC."""
        f = self.fld.get(key)
        if f is not None:
            return self.buf[f[0]][f[1]:f[1] + f[2]]
        if '(' in key:
            name, i = key[:-1].split('(')
            return self.ar[name][int(i)]
        return self.sc.get(key, _fresh(key))

    def kput(self, key, s):
        """Store in place (LSET/RSET: same length)."""
        f = self.fld.get(key)
        if f is not None:
            fn, off, wd = f
            self.buf[fn] = self.buf[fn][:off] + s + self.buf[fn][off + wd:]
        elif '(' in key:
            name, i = key[:-1].split('(')
            self.ar[name][int(i)] = s
        else:
            self.sc[key] = s

    def sget(self, name):
        return self.kget(name)

    def eget(self, name, i):
        return self.kget('%s(%d)' % (name, i))

    def sval(self, sv):
        k = sv['k']
        if k == 'lit':
            return sv['s']
        if k == 'cat':
            return sv['s'] + sv['t']
        if k == 'rep':
            return sv['c'] * sv['n']
        if k == 'var':
            return (self.sget(sv['v']) + sv['s'])
        if k == 'copy':
            return self.sget(sv['v'])
        raise ValueError(sv)


def sval_text(sv):
    k = sv['k']
    if k == 'lit':
        return '"%s"' % sv['s']
    if k == 'cat':
        return '"%s"+"%s"' % (sv['s'], sv['t'])
    if k == 'rep':
        return 'STRING$(%d,"%s")' % (sv['n'], sv['c'])
    if k == 'var':
        return '%s+"%s"' % (sv['v'], sv['s'])
    if k == 'copy':
        return sv['v']
    raise ValueError(sv)


def nval_text(v):
    if isinstance(v, int):
        return str(v)
    if v == int(v):
        return str(int(v))
    return repr(v).replace('0.', '.', 1) if abs(v) < 1 else repr(v)


def _same(a, b_):
    if isinstance(a, bytes):
        a = a.decode('latin-1')
    if isinstance(b_, bytes):
        b_ = b_.decode('latin-1')
    return a == b_


# ---------------------------------------------------------------------------
# run

def run(case):
    simfs.install_fs_seams()
    logging.disable(logging.CRITICAL)
    cfg = _full(case['cfg'])
    ops = case['ops']

    def body(run):
        w = run.w
        scratch = run.make_scratch()
        root = os.path.join(scratch, 'c')
        os.makedirs(root)
        # the data files (written before the world is active: plain host I/O)
        for fn in sorted(FILES):
            with open(os.path.join(root, FILES[fn][0]), 'wb') as f:
                f.write(b(''.join(rec_text(fn, r) for r in range(1, NREC + 1))))
        fs = simfs.SimFS(w, [scratch])
        sk = dict(cfg.get('session', {}))
        pressure = sk.get('max_memory', 65534) < 65534
        P1 = p1_lines(cfg)
        P2 = p2_lines(cfg)
        with w, ForcedGC(w, 0) as gc:
            # ---- reference values from a fresh Session of the same configuration
            ref = Driver(w, devices={'C:': root}, current_device='C:', **sk)
            r0 = ref.eval(b'RND')
            fre_new = ref.eval(b'FRE("")')
            for l in P1:
                ref.exec(b(l))
            fre_prog = ref.eval(b'FRE("")')
            ref.close()
            # ---- the session under test
            d = Driver(w, devices={'C:': root}, current_device='C:', **sk)

            def must(line, allow=()):
                r = d.exec(b(line))
                if r.errs and r.err not in allow:
                    raise K.HarnessError('setup statement failed: %r -> %r' % (line, r))
                return r

            for l in P2:
                must(l)
            must('SAVE "P2"%s' % {'A': ',A', 'B': '', 'P': ',P'}[cfg['p2fmt']])
            must('NEW')
            for l in P1:
                must(l)
            # ---- leave the skeleton inside its subroutine / handler, by STOP or by Ctrl+Break
            if cfg['ctx'] == 'evh':
                w.at_poll(cfg['key_poll'], K.sig_key(u'\x00\x3c', 0x3c, ()))
            if cfg['hbody'] == 'break':
                w.at_poll(cfg['brk_poll'], K.sig_break())
                left_at = (b'Break in 255\xff', b'Break in 260\xff')
            else:
                left_at = (b'Break in 210\xff',)
            r = d.exec(b'RUN')
            if r.errs or not any(x in r.out for x in left_at) or b'#' in r.out:
                raise K.HarnessError('skeleton was not left in %r: %r' % (left_at, r))
            run.probe('left-in:%s:%s' % (cfg['ctx'], cfg['hbody']))
            gc.k = int(cfg.get('gc_k') or 0)
            # ---- build the variable state
            m = Model(cfg)
            try:
                nontrivial = build_state(run, d, m, ops, pressure)
            except EngineCrash as e:
                # an internal error while assigning variables is C01's business, not a reset/CHAIN verdict
                run.violate('C01', 'crash-in-set-up:' + e.signature, '%s: %s (during %r)' % (e.exc_type, e.exc_msg, e.where))
                return
            if not readback_ok(run, d, m, 'before-reset'):
                d.close()
                return
            free = d.eval(b'FRE(0)')
            # ---- the reset
            reset = cfg['reset']
            ch = cfg['chain']
            iof = cfg.get('iofault')
            outcome = 'ok'
            failed_chain = False
            # (an error raised inside an unfinished error handler is not trapped, so there the reset is typed)
            via = cfg['via'] if cfg['ctx'] != 'errh' else 'direct'
            if via == 'handler':
                cmd = 'GOTO 400'
            else:
                cmd = {'clear': 'CLEAR', 'new': 'NEW', 'run': 'RUN %d' % cfg['runto'], 'chain': 'GOTO %d' % CHAIN_LINE}[reset]
            if reset != 'chain':
                r = d.exec(b(cmd))
            else:
                if iof and iof['kind'] in ('open', 'read'):
                    fs.arm(iof['kind'], nth=1, err=getattr(_errno, iof['errno']), path_sub='P2.BAS', repeat=iof['r'])
                try:
                    r = d.exec(b(cmd), poll_cap=40000)
                except EngineCrash as e:
                    if iof and fs.fired:
                        # a host error on the chained file that escapes as a Python exception: C01's oracle
                        run.violate('C01', 'crash-on-io-fault:%s:%s' % (iof['kind'], e.signature),
                                    '%s: %s (during %r)\n%s' % (e.exc_type, e.exc_msg, e.where, e.tb[-1200:]))
                        run.probe('chain-io-fault-escaped-as-exception')
                        return
                    raise
                fs.disarm()
            # forced collection covers the set-up and the reset itself; the probes below only observe
            gc.k = 0
            ev = parse_trace(r.out)
            errs = [e for e in ev if e[0] in ('stop', 'derr')] + [e for e in ev if e[0] == '#' and e[1] == 'E']
            if reset != 'chain':
                if errs:
                    run.violate('C23', 'reset-statement-error:%s' % reset, '%s -> %r\n%s' % (cmd, r, _ctx(cfg)))
                    outcome = 'error'
                elif ((via == 'handler' and reset == 'clear' and ('break', 955) not in ev)
                        or (reset == 'run' and cfg['runto'] == RUN_TAIL_LINE and not any(e[0] == '#' and e[1] == 'R' for e in ev))):
                    run.violate('C23', 'reset-statement-error:%s:statement-not-reached' % reset, '%s -> %r\n%s' % (cmd, r, _ctx(cfg)))
                    outcome = 'error'
            else:
                reached = any(e[0] == '#' and e[1] == 'P2' for e in ev)
                if errs or not reached:
                    failed_chain = True
                    codes = [e[1] for e in errs if e[0] in ('stop', 'derr')]
                    ecodes = codes + [int(e[2][0]) for e in errs if e[0] == '#' and e[3] and e[2]]
                    outcome = 'chain-error'
                    if iof:
                        run.probe('chain-io-error')
                    elif (pressure or free < 4000) and ecodes and all(c in (7, 14) for c in ecodes):
                        run.probe('chain-out-of-memory')
                    else:
                        run.violate('C23', 'chain-failed:%s' % ('error-%s' % codes[0] if codes else 'p2-not-reached'),
                                    'CHAIN without fault or memory pressure did not reach the chained program, or the chained '
                                    'program did not run clean: %r\n%s' % (r, _ctx(cfg)))
                elif iof and iof['kind'] != 'missing' and not fs.fired:
                    run.probe('io-fault-not-fired')
            nfld = len(m.fld)
            run.state(cfg['ctx'], cfg['hbody'], via, reset, tuple(sorted(k for k in ch if ch[k])) if reset == 'chain' else (),
                      len(cfg['common']) // 3, sum(1 for v in STR_SCALARS if m.sget(v)) // 2, min(nfld, 3),
                      int(free) // 8000, bool(cfg.get('gc_k')), iof['kind'] if iof else '-', outcome)
            if nontrivial:
                run.probe('nontrivial-state')
            if nfld:
                run.probe('reset-with-field-variables')
            # ---- judge
            if reset == 'chain' and not failed_chain:
                judge_chain(run, d, m, cfg, ev, r, tight=pressure or free < 4000)
                if cfg['p2end'] == 'stop' and not (pressure or free < 4000):
                    probe_random_file(run, d, m, root, 'chain')
                probe_fresh_program(run, d, cfg, 'chain')
            elif reset != 'chain' and outcome == 'ok':
                if cfg['fresh_first']:
                    # (the fresh program replaces P1 and ends with NEW: what follows is judged as after NEW)
                    probe_fresh_program(run, d, cfg, reset)
                    judge_reset(run, d, cfg, 'new', r0, fre_new, fre_prog, sk, after_failed_chain=False,
                                label=reset + '+fresh-program+new')
                else:
                    judge_reset(run, d, cfg, reset, r0, fre_new, fre_prog, sk, after_failed_chain=False)
                    probe_fresh_program(run, d, cfg, reset)
            if failed_chain:
                # whatever a failed CHAIN left behind, NEW must give a fresh machine
                r = d.exec(b'NEW')
                judge_reset(run, d, cfg, 'new', r0, fre_new, fre_prog, sk, after_failed_chain=True)
                probe_fresh_program(run, d, cfg, 'new-after-failed-chain')
            d.close()
    return execute(case, body)


def _touch_elem(m, name, i):
    """Model of a reference to name(i): dimensions the array on first use; returns the error it gives."""
    if name not in m.ar:
        # first reference dimensions the array (also when the subscript is out of range)
        m.ar[name] = [_fresh(name)] * 11
    return 9 if (i > len(m.ar[name]) - 1 or i < m.base) else None


def _pressure_resync(run, d, m, name=None):
    """A statement failed for lack of memory: its implicit DIM may or may not have happened."""
    run.probe('setup-pressure-error')
    if name is not None and name not in m.ar and d.get(b(name + '()')) != []:
        m.ar[name] = [_fresh(name)] * 11


def build_state(run, d, m, ops, pressure):
    nontrivial = False
    for op in ops:
        k = op['op']
        if k == 'let':
            name = op['var']
            if 'sval' in op:
                val = m.sval(op['sval'])
                txt = '%s=%s' % (name, sval_text(op['sval']))
                exp_err = 15 if len(val) > 255 else None
            else:
                val = op['nval']
                txt = '%s=%s' % (name, nval_text(val))
                exp_err = None
            r = d.exec(b(txt))
            if _setup_ok(run, r, exp_err, pressure, txt):
                # (assignment detaches a FIELD variable from its buffer)
                m.fld.pop(name, None)
                m.sc[name] = val
                nontrivial = nontrivial or bool(val)
        elif k == 'dim':
            name = op['arr']
            r = d.exec(b('DIM %s(%d)' % (name, op['n'])))
            exp_err = 10 if name in m.ar else (9 if op['n'] < m.base else None)
            if _setup_ok(run, r, exp_err, pressure, 'DIM %s(%d)' % (name, op['n'])):
                m.ar[name] = [_fresh(name)] * (op['n'] + 1)
        elif k == 'setel':
            name, i = op['arr'], op['i']
            if 'sval' in op:
                val = m.sval(op['sval'])
                txt = '%s(%d)=%s' % (name, i, sval_text(op['sval']))
            else:
                val = op['nval']
                txt = '%s(%d)=%s' % (name, i, nval_text(val))
            r = d.exec(b(txt))
            if _err(r) in (7, 14) and pressure:
                _pressure_resync(run, d, m, name)
                continue
            exp_err = _touch_elem(m, name, i)
            if exp_err is None and isinstance(val, str) and len(val) > 255:
                exp_err = 15
            if _setup_ok(run, r, exp_err, pressure, txt):
                m.fld.pop('%s(%d)' % (name, i), None)
                m.ar[name][i] = val
                nontrivial = nontrivial or bool(val)
        elif k == 'erase':
            name = op['arr']
            r = d.exec(b('ERASE %s' % name))
            if _setup_ok(run, r, None if name in m.ar else 5, pressure, 'ERASE ' + name):
                del m.ar[name]
                for key in [key for key in m.fld if key.startswith(name + '(')]:
                    del m.fld[key]
        elif k == 'swap':
            r = d.exec(b('SWAP %s,%s' % (op['a'], op['b'])))
            if _err(r) in (7, 14) and pressure:
                run.probe('setup-pressure-error')
                # SWAP allocates missing variables first; values are unchanged when it fails
                continue
            # SWAP allocates its first variable and wants the second one to exist already
            # (a variable also exists after a failed assignment to it, so existence is taken from the outcome)
            exp_err = None if (op['b'] in m.sc or _err(r) is None) else 5
            m.sc.setdefault(op['a'], _fresh(op['a']))
            if _setup_ok(run, r, exp_err, pressure, 'SWAP %s,%s' % (op['a'], op['b'])):
                # the variables' descriptors change places: an attachment to a record buffer goes along
                fa, fb = m.fld.pop(op['a'], None), m.fld.pop(op['b'], None)
                va, vb = m.sc.get(op['a'], _fresh(op['a'])), m.sc.get(op['b'], _fresh(op['b']))
                m.sc[op['a']], m.sc[op['b']] = vb, va
                if fb is not None:
                    m.fld[op['a']] = fb
                if fa is not None:
                    m.fld[op['b']] = fa
        elif k == 'gc':
            d.exec(b'Z9=FRE("")')
        elif k == 'read':
            # READ a string item of line 65 (D9$ takes the items before it): the variable points into the program text
            key = _tkey(op)
            txt = 'RESTORE %d:READ %s%s' % (DATA_LINE, 'D9$,' * op['item'], key)
            r = d.exec(b(txt))
            if _err(r) in (7, 14) and pressure:
                _pressure_resync(run, d, m, op.get('arr'))
                continue
            exp_err = _touch_elem(m, op['arr'], op['i']) if 'arr' in op else None
            if _setup_ok(run, r, exp_err, pressure, txt):
                m.fld.pop(key, None)
                if 'arr' in op:
                    m.ar[op['arr']][op['i']] = DATA_ITEMS[op['item']]
                else:
                    m.sc[key] = DATA_ITEMS[op['item']]
                nontrivial = True
                run.probe('read-from-data')
        elif k == 'fill':
            if FILL not in m.ar:
                r = d.exec(b('DIM %s(%d)' % (FILL, op['max'])))
                if _err(r) is not None:
                    run.probe('setup-pressure-error')
                    continue
                m.ar[FILL] = [''] * (op['max'] + 1)
            size = len(m.ar[FILL]) - 1
            for i in range(m.base, size + 1):
                if d.eval(b'FRE(0)') < op['margin'] + 260:
                    break
                ch = chr(65 + i % 26)
                r = d.exec(b('%s(%d)=STRING$(255,"%s")' % (FILL, i, ch)))
                if _err(r) is not None:
                    run.probe('setup-pressure-error')
                    break
                m.ar[FILL][i] = ch * 255
                nontrivial = True
            run.probe('filled-to-margin')
        elif k == 'open':
            # open the data file for random access and read a record, so that the buffer's contents are defined
            fn = op['fn']
            txt = 'OPEN "R",#%d,"%s",%d' % (fn, FILES[fn][0], FILES[fn][1])
            r = d.exec(b(txt))
            if _setup_ok(run, r, 55 if fn in m.files else None, pressure, txt):
                m.files.add(fn)
            txt = 'GET #%d,%d' % (fn, op['rec'])
            r = d.exec(b(txt))
            if _setup_ok(run, r, None, pressure, txt):
                m.buf[fn] = rec_text(fn, op['rec'])
        elif k == 'get':
            fn = op['fn']
            txt = 'GET #%d,%d' % (fn, op['rec'])
            r = d.exec(b(txt))
            if _setup_ok(run, r, None if fn in m.files else 54, pressure, txt):
                m.buf[fn] = rec_text(fn, op['rec'])
        elif k == 'field':
            # attach a string scalar or array element to `w` bytes at offset `off` of the record buffer
            # (D9$ is a filler for the bytes before it)
            fn, off, wd = op['fn'], op['off'], op['w']
            key = _tkey(op)
            txt = 'FIELD #%d,%s%d AS %s' % (fn, '%d AS D9$,' % off if off else '', wd, key)
            r = d.exec(b(txt))
            if _err(r) in (7, 14) and pressure:
                # (the memory check precedes the attachment: the target is as it was)
                _pressure_resync(run, d, m, op.get('arr'))
                continue
            if fn not in m.files:
                exp_err = 52
            elif 'arr' in op:
                exp_err = _touch_elem(m, op['arr'], op['i'])
            else:
                exp_err = None
            if _setup_ok(run, r, exp_err, pressure, txt):
                if 'var' in op:
                    m.sc.setdefault(op['var'], '')
                m.fld[key] = (fn, off, wd)
                nontrivial = True
                run.probe('field-attached')
        elif k == 'lset':
            # LSET/RSET: justify into the variable's present length, in place (in the record buffer for a FIELD variable)
            val = m.sval(op['sval'])
            key = _tkey(op)
            txt = '%s %s=%s' % ('RSET' if op.get('right') else 'LSET', key, sval_text(op['sval']))
            r = d.exec(b(txt))
            if _err(r) in (7, 14) and pressure:
                _pressure_resync(run, d, m, op.get('arr'))
                continue
            if 'arr' in op:
                exp_err = _touch_elem(m, op['arr'], op['i'])
            else:
                exp_err = None
                m.sc.setdefault(op['var'], '')
            if exp_err is None and len(val) > 255:
                exp_err = 15
            if _setup_ok(run, r, exp_err, pressure, txt):
                n = len(m.kget(key))
                m.kput(key, val[:n].rjust(n) if op.get('right') else val[:n].ljust(n))
                if key in m.fld and n:
                    run.probe('field-variable-written')
    return nontrivial


_E_RE = re.compile(b'#E\\| ?(-?\\d+) \\|')


def _err(r):
    """Error code of an executed line: reported at the prompt, or printed by the armed handler at 900."""
    mm = _E_RE.search(r.out)
    if mm:
        return int(mm.group(1))
    return r.err


def _setup_ok(run, r, exp_err, pressure, txt):
    """True if the statement took effect. Divergence from the dict model in the set-up phase is a harness error."""
    if _err(r) == exp_err and exp_err is None:
        return True
    if _err(r) == exp_err:
        return False
    if pressure and _err(r) in (7, 14):
        run.probe('setup-pressure-error')
        return False
    # the dict model and the engine disagree while the state is being built: nothing that follows could be judged.
    # The run is given up (counted in the evidence as probe 'setup-diverged' and status 'aborted'), not the check.
    run.probe('setup-diverged')
    run.w.log.add('setup-diverged', txt, exp_err, _err(r))
    raise K.SimAbort('set-up statement %r: expected error %r, got %r' % (txt, exp_err, r))


def readback(d, m, names_s, names_a):
    """Differences between the engine's variables and the model: [(name, engine, model)]."""
    diffs = []
    for name in names_s:
        got = d.get(b(name))
        exp = m.sget(name)
        if not _same(got, exp):
            diffs.append((name, got, exp))
    for name in names_a:
        if name not in m.ar:
            got = d.get(b(name + '()'))
            if got != []:
                diffs.append((name + '()', 'exists, %d elements' % len(got), 'not dimensioned'))
            continue
        if d.get(b(name + '()')) == []:
            diffs.append((name + '()', 'not dimensioned', 'exists'))
            continue
        for i in range(m.base, len(m.ar[name])):
            got = d.eval(b('%s(%d)' % (name, i)))
            if not _same(got, m.eget(name, i)):
                diffs.append(('%s(%d)' % (name, i), got, m.eget(name, i)))
    return diffs


def readback_ok(run, d, m, when):
    diffs = readback(d, m, SCALARS, ARRAYS + [FILL])
    if diffs:
        # that is C10's business (values before any reset): record, do not judge here
        run.violate('C10', 'variable-differs-from-model:%s' % when, repr(diffs[:5]))
        return False
    return True


def _short(v):
    if isinstance(v, (bytes, str)) and len(v) > 40:
        return '%r...(%d)' % (v[:20], len(v))
    return repr(v)


def judge_chain(run, d, m, cfg, ev, r, tight=False):
    ch = cfg['chain']
    common = set(cfg['common'])
    keep_all = ch['all']
    opts = '+'.join(k for k in ('merge', 'all', 'delete', 'line') if ch[k]) or 'plain'
    # expected model after the chain: the values, wherever they lived (string space, program text, record buffer)
    exp = Model(cfg)
    for name in SCALARS:
        if keep_all or name in common:
            if name in m.sc:
                exp.sc[name] = m.sget(name)
    for name in ARRAYS + [FILL]:
        if (keep_all or (name + '()') in common) and name in m.ar:
            exp.ar[name] = [m.ar[name][i] if i < m.base else m.eget(name, i) for i in range(len(m.ar[name]))]

    def fsuffix(name):
        # a variable that was attached to a record buffer when CHAIN ran is its own class of input
        return ':field-variable' if name in m.fld else ''

    # (1) what the chained program itself saw
    for e in ev:
        if e[0] != '#' or not e[3]:
            continue
        if e[1] == 'S':
            name, ln, left, right = e[2][0], e[2][1], e[2][2], e[2][3]
            val = exp.sget(name)
            if (ln.strip(), left, right) != (str(len(val)), val[:16], val[-16:] if val else ''):
                run.violate('C23', 'chain:%s:string-in-chained-program:%s%s' % (
                                opts, 'common-changed' if val else 'non-common-survives', fsuffix(name)),
                            'chained program printed %s len %s %r..%r, expected %s\n%s' % (name, ln, left, right, _short(val), _ctx(cfg)))
        elif e[1] == 'N':
            name, txt = e[2][0], e[2][1]
            val = exp.sget(name)
            try:
                got = float(txt)
            except ValueError:
                got = None
            if got != float(val):
                run.violate('C23', 'chain:%s:number-in-chained-program:%s' % (opts, 'common-changed' if val else 'non-common-survives'),
                            'chained program printed %s = %r, expected %r\n%s' % (name, txt, val, _ctx(cfg)))
    if not any(e[0] == '#' and e[1] == 'P2END' for e in ev):
        run.violate('C23', 'chain:%s:chained-program-did-not-finish' % opts, '%r\n%s' % (r, _ctx(cfg)))
    if cfg['p2trap']:
        # nothing of the previous program's error handling is left: the chained program's own trap takes its error
        t = [e for e in ev if e[0] == '#' and e[1] == 'T']
        if len(t) != 1 or not t[0][3] or [x.strip() for x in t[0][2]] != ['98']:
            run.violate('C23', 'chain:%s:error-trap-set-by-chained-program-not-honoured' % opts,
                        'ON ERROR GOTO / ERROR 98 in the chained program -> %r\n%s' % (r, _ctx(cfg)))
    # (2) after it ended: full contents
    diffs = readback(d, exp, SCALARS, ARRAYS + [FILL])
    values_ok = not diffs
    for name, got, want in diffs:
        base = name.split('(')[0]
        is_common = keep_all or base in common or (base + '()') in common
        kind = 'array' if '(' in name else 'scalar'
        typ = 'string' if base.endswith('$') else 'number'
        run.violate('C23', 'chain:%s:%s-%s:%s%s' % (opts, typ, kind, 'common-lost-or-changed' if is_common else 'non-common-survives',
                                                    fsuffix(name) if is_common else ''),
                    '%s reads %s after CHAIN, expected %s (common list %r, ALL=%s; before CHAIN %s)\n%s' % (
                        name, _short(got), _short(want), cfg['common'], keep_all,
                        'it was FIELDed onto %d bytes at offset %d of the record buffer of file #%d' % (
                            m.fld[name][2], m.fld[name][1], m.fld[name][0]) if name in m.fld else 'it was an ordinary variable',
                        _ctx(cfg)))
    run.probe('chain-judged')
    if any(exp.sc.get(v) for v in exp.sc if v.endswith('$')) or any(x for a in exp.ar if a.endswith('$') for x in exp.ar[a]):
        run.probe('chain-with-live-common-strings')
    if any(m.kget(key) for key in m.fld if key in exp.sc or ('(' in key and key.split('(')[0] in exp.ar)):
        run.probe('chain-with-common-field-variables')
    # (3) everything else is cleared (plain CHAIN only for FN and DEFtype, see ASSUMPTIONS)
    probe_stacks_and_trap(run, d, 'chain:' + opts)
    # (probes that create no variable: after a CHAIN in a full memory an assignment would end in Out of memory)
    if not ch['all']:
        rr = d.exec(b'PRINT FNA(1)')
        if rr.err != 18:
            run.violate('C23', 'chain:%s:def-fn-survives' % opts, 'PRINT FNA(1) after CHAIN -> %r\n%s' % (rr, _ctx(cfg)))
    if cfg['deftype'] and not ch['merge']:
        rr = d.exec(b'PRINT LEN(S9)')
        if rr.err != 13:
            run.violate('C23', 'chain:%s:deftype-survives' % opts, 'PRINT LEN(S9) after CHAIN -> %r\n%s' % (rr, _ctx(cfg)))
    # the values must also survive a collection and later allocations in the chained state
    d.exec(b'Z8$=STRING$(40,"z")+"y":Z9=FRE("")')
    diffs = readback(d, exp, SCALARS, ARRAYS + [FILL])
    for name, got, want in diffs[:3]:
        run.violate('C23', 'chain:%s:value-lost-at-next-collection' % opts,
                    '%s reads %s after a string allocation and FRE("") in the chained state, expected %s\n%s' % (
                        name, _short(got), _short(want), _ctx(cfg)))
    # (4) they are present as independent variables: changing one in place leaves the others as they were
    if values_ok and not diffs:
        probe_shared_storage(run, d, exp, cfg, opts, tight)


def _string_refs(exp):
    """The non-empty string scalars and string-array elements of a model, as written in BASIC."""
    refs = [name for name in STR_SCALARS if exp.sc.get(name)]
    for name in STR_ARRAYS + [FILL]:
        if name in exp.ar:
            refs.extend('%s(%d)' % (name, i) for i in range(exp.base, len(exp.ar[name])) if exp.ar[name][i])
    return refs


def probe_shared_storage(run, d, exp, cfg, opts, tight):
    """
    After CHAIN the carried-over strings are separate variables again, whatever they shared before
    (the same DATA item or program literal, the same bytes of a record buffer): MID$=, LSET or RSET on
    one of several variables of equal value changes that one only. Updates exp.
    """
    groups = {}
    for ref in _string_refs(exp):
        groups.setdefault(exp.kget(ref), []).append(ref)
    picked = [g for g in groups.values() if len(g) > 1][:3] or [g for g in groups.values()][:1]
    changed = {}
    for j, group in enumerate(picked):
        x = group[0]
        old = exp.kget(x)
        n = len(old)
        how = ('mid', 'lset', 'rset')[(j + len(cfg['common'])) % 3]
        if how == 'mid':
            txt, new = 'MID$(%s,1,1)="#"' % x, '#' + old[1:]
        elif how == 'lset':
            txt, new = 'LSET %s="#<"' % x, '#<'[:n].ljust(n)
        else:
            txt, new = 'RSET %s=">#"' % x, '>#'[:n].rjust(n)
        rr = d.exec(b(txt))
        if rr.errs:
            if tight and all(c in (7, 14) for c, _ in rr.errs):
                # (the one-byte operand did not fit into a full memory)
                continue
            run.violate('C23', 'chain:%s:common-string-cannot-be-changed-in-place' % opts,
                        '%s (%s held %s after CHAIN) -> %r\n%s' % (txt, x, _short(old), rr, _ctx(cfg)))
            continue
        exp.kput(x, new)
        changed[x] = (txt, group)
    if not changed:
        return
    stmts = ' / '.join(changed[x][0] for x in changed)
    for name, got, want in readback(d, exp, SCALARS, ARRAYS + [FILL])[:4]:
        if name in changed:
            run.violate('C23', 'chain:%s:in-place-change-of-common-string-not-seen' % opts,
                        'after CHAIN: %s; %s reads %s, expected %s\n%s' % (stmts, name, _short(got), _short(want), _ctx(cfg)))
        else:
            run.violate('C23', 'chain:%s:common-strings-share-storage' % opts,
                        'after CHAIN: %s; now %s reads %s, expected its value from before the CHAIN %s '
                        '(variables of equal value before the change: %s)\n%s' % (
                            stmts, name, _short(got), _short(want),
                            '; '.join(','.join(changed[x][1][:6]) for x in changed), _ctx(cfg)))
    run.probe('shared-storage-probed')
    if any(len(changed[x][1]) > 1 for x in changed):
        run.probe('shared-storage-probed:equal-values')


def _ctx(cfg):
    cfg = _full(cfg)
    how = {'sub': 'inside GOSUB/FOR/WHILE', 'errh': 'inside GOSUB/FOR/WHILE called from the unfinished ON ERROR handler (900 -> 800)',
           'evh': 'inside GOSUB/FOR/WHILE called from the ON KEY(2) handler at 700 (F2 pushed at poll %d of RUN)' % cfg['key_poll']}[cfg['ctx']]
    left = 'by STOP in 210' if cfg['hbody'] == 'stop' else 'by Ctrl+Break pushed at poll %d of RUN (INKEY$ loop at 255)' % cfg['brk_poll']
    via = cfg['via'] if cfg['ctx'] != 'errh' else 'direct'
    return ('P1 (RUN and left %s, %s; then the state is built in direct mode and the reset %s):\n%s\n'
            'cfg: reset=%s gc_k=%s max_memory=%s p2fmt=%s p2end=%s iofault=%r' % (
                how, left, 'is typed' if via == 'direct' else 'is executed by the error handler (GOTO 400 -> ERROR 99 -> 900)',
                '\n'.join(p1_lines(cfg)), cfg['reset'], cfg.get('gc_k'), cfg['session'].get('max_memory'), cfg['p2fmt'],
                cfg['p2end'], cfg.get('iofault')))


def probe_stacks_and_trap(run, d, what):
    rr = d.exec(b'NEXT')
    if rr.err != 1:
        run.violate('C23', '%s:for-stack-survives' % what, 'NEXT -> %r (expected NEXT without FOR)' % (rr,))
    rr = d.exec(b'RETURN')
    if rr.err != 3:
        run.violate('C23', '%s:gosub-stack-survives' % what, 'RETURN -> %r (expected RETURN without GOSUB)' % (rr,))
    rr = d.exec(b'RESUME')
    if rr.err != 20:
        run.violate('C23', '%s:error-resume-state-survives' % what, 'RESUME -> %r (expected RESUME without error)' % (rr,))
    rr = d.exec(b'ERROR 97')
    if b'#E|' in rr.out or rr.err != -1:
        run.violate('C23', '%s:error-trap-survives' % what, 'ERROR 97 -> %r (expected an untrapped Unprintable error)' % (rr,))
    # with no error trap, a floating-point error is reported by message and execution continues
    rr = d.exec(b'PRINT 1/0:PRINT "#soft"')
    if b'#soft' not in rr.out:
        run.violate('C23', '%s:error-trap-survives:float-errors-still-fatal' % what,
                    'PRINT 1/0:PRINT "#soft" -> %r (expected the Division by zero message, the maximum and #soft)' % (rr,))


def probe_new_trap(run, d, cfg, what):
    """P1 is still in memory: an error trap set now takes the next error, as it would in a fresh session."""
    rr = d.exec(b'ON ERROR GOTO 900:ERROR 98')
    if rr.errs or b'#E| 98 |' not in rr.out:
        run.violate('C23', '%s:error-handling-state-survives:new-trap-not-honoured' % what,
                    'ON ERROR GOTO 900:ERROR 98 -> %r (expected "#E| 98 | 65535 |" printed by the handler at 900)\n%s' % (rr, _ctx(cfg)))
    d.exec(b'ON ERROR GOTO 0')


def probe_program_loops(run, d, cfg, what):
    """P1 is still in memory: its own NEXT and WEND find no loop of the previous execution to continue."""
    nxt, wend = _loop_lines(cfg)
    rr = d.exec(b'GOTO %d' % nxt)
    if rr.errs != [(1, nxt)]:
        run.violate('C23', '%s:for-stack-survives:next-in-program' % what,
                    'GOTO %d (the NEXT of the loop the program was in) -> %r (expected NEXT without FOR in %d)\n%s' % (nxt, rr, nxt, _ctx(cfg)))
    rr = d.exec(b'GOTO %d' % wend)
    if rr.errs != [(30, wend)]:
        run.violate('C23', '%s:while-stack-survives:wend-in-program' % what,
                    'GOTO %d (the WEND of the loop the program was in) -> %r (expected WEND without WHILE in %d)\n%s' % (wend, rr, wend, _ctx(cfg)))


def probe_fresh_program(run, d, cfg, what):
    """
    NEW, a fresh program, RUN: it prints nothing but its own output (no error or No RESUME from earlier
    history), and RESUME in it is refused as there is no error to resume from. Ends with NEW.
    """
    d.exec(b'NEW')
    d.exec(b'10 PRINT "#F1|"')
    r = d.exec(b'RUN')
    ev = parse_trace(r.out)
    if ev != [('#', 'F1', [], True)] or r.errs:
        bad = [e for e in ev if e[0] in ('stop', 'derr')]
        run.violate('C23', '%s:fresh-program:%s' % (what, 'error-%s-reported' % bad[0][1] if bad else 'output-differs'),
                    'NEW / 10 PRINT "#F1|" / RUN -> %r (expected just #F1|)\n%s' % (r, _ctx(cfg)))
    d.exec(b'20 RESUME NEXT')
    d.exec(b'30 PRINT "#F3|"')
    r = d.exec(b'RUN')
    ev = parse_trace(r.out)
    if ev != [('#', 'F1', [], True), ('stop', 20, 20)]:
        run.violate('C23', '%s:fresh-program:resume-not-refused' % what,
                    'NEW / 10 PRINT "#F1|" / 20 RESUME NEXT / 30 PRINT "#F3|" / RUN -> %r '
                    '(expected #F1| and RESUME without error in 20)\n%s' % (r, _ctx(cfg)))
    d.exec(b'NEW')
    run.probe('fresh-program-probed')


def probe_random_file(run, d, m, root, what):
    """
    Cross-property observation (C25, not judged by C23's check): the random-access file that CHAIN left
    open still works - what LSET/PUT write is what GET reads and what the host file holds.
    """
    if not m.files:
        return
    fn = min(m.files)
    name, n = FILES[fn]
    pat = ('after%d' % fn).ljust(n)[:n]
    for s in ('FIELD #%d,%d AS Z7$' % (fn, n), 'LSET Z7$="%s"' % pat.rstrip(), 'PUT #%d,2' % fn, 'GET #%d,1' % fn):
        rr = d.exec(b(s))
        if rr.errs:
            run.violate('C25', 'random-file-left-open-by-%s:statement-fails' % what, '%s -> %r' % (s, rr))
            return
    g1 = d.get(b'Z7$')
    d.exec(b('GET #%d,2' % fn))
    g2 = d.get(b'Z7$')
    d.exec(b('CLOSE #%d' % fn))
    with simfs.real_open(os.path.join(root, name), 'rb') as f:
        data = f.read()
    seq = 'FIELD #%d,%d AS Z7$ / LSET Z7$="%s" / PUT #%d,2 / GET #%d,1 / GET #%d,2 / CLOSE' % (fn, n, pat.rstrip(), fn, fn, fn)
    if not _same(g1, rec_text(fn, 1)):
        run.violate('C25', 'random-file-left-open-by-%s:get-reads-other-than-the-record' % what,
                    '%s: after GET #%d,1 the FIELD variable reads %r, record 1 of the file is %r' % (seq, fn, g1, rec_text(fn, 1)))
    if not _same(g2, pat):
        run.violate('C25', 'random-file-left-open-by-%s:get-after-put-differs' % what,
                    '%s: after GET #%d,2 the FIELD variable reads %r, PUT wrote %r' % (seq, fn, g2, pat))
    want = b(rec_text(fn, 1) + pat + rec_text(fn, 3))
    if data != want:
        run.violate('C25', 'random-file-left-open-by-%s:host-file-differs' % what,
                    '%s: the file holds %r, expected %r' % (seq, data, want))
    m.files.discard(fn)
    run.probe('random-file-probed-after-' + what)


def judge_reset(run, d, cfg, reset, r0, fre_new, fre_prog, sk, after_failed_chain, label=None):
    what = label or (reset + ('-after-failed-chain' if after_failed_chain else ''))
    # P1 is in memory as entered (after CLEAR and RUN n)
    p1_intact = reset in ('clear', 'run') and not after_failed_chain
    # memory accounting equals a fresh machine's (first, before the probes allocate anything)
    fre = d.eval(b'FRE("")')
    want = fre_new if reset == 'new' else fre_prog
    if fre != want and not after_failed_chain or (after_failed_chain and fre != fre_new):
        run.violate('C23', '%s:free-memory-differs-from-fresh' % what,
                    'FRE("") after %s = %r, a fresh session with the same program gives %r\n%s' % (what, fre, want, _ctx(cfg)))
    # no variable or array survives
    fresh = Model(cfg)
    fresh.base = 0
    for name, got, want_ in readback(d, fresh, SCALARS, ARRAYS + [FILL]):
        run.violate('C23', '%s:variable-survives:%s' % (what, 'string' if name.split('(')[0].endswith('$') else 'number'),
                    '%s reads %s after %s\n%s' % (name, _short(got), what, _ctx(cfg)))
    # random sequence restarts
    rnd = d.eval(b'RND')
    if rnd != r0:
        run.violate('C23', '%s:rnd-state-survives' % what, 'first RND after %s = %r, fresh session %r' % (what, rnd, r0))
    # stacks, trap
    if p1_intact and cfg['trap_first']:
        probe_new_trap(run, d, cfg, what)
    probe_stacks_and_trap(run, d, what)
    if p1_intact and not cfg['trap_first']:
        probe_new_trap(run, d, cfg, what)
    if p1_intact:
        probe_program_loops(run, d, cfg, what)
    # DEF FN, DEFtype, OPTION BASE
    rr = d.exec(b'Z9=FNA(1)')
    if rr.err != 18:
        run.violate('C23', '%s:def-fn-survives' % what, 'Z9=FNA(1) -> %r' % (rr,))
    if cfg['deftype']:
        rr = d.exec(b'S9="a"')
        if rr.err != 13:
            run.violate('C23', '%s:deftype-survives' % what, 'S9="a" -> %r (DEFSTR S was active before)' % (rr,))
    if cfg['base1']:
        rr = d.exec(b'Z9=QQ(0)')
        if rr.err is not None:
            run.violate('C23', '%s:option-base-survives' % what, 'Z9=QQ(0) -> %r (OPTION BASE 1 was active before)' % (rr,))
    # DATA pointer
    rr = d.exec(b'READ Z7')
    has_data = reset != 'new' and not after_failed_chain
    if has_data:
        if rr.err is not None or d.get(b'Z7!') != 11:
            run.violate('C23', '%s:data-pointer-survives' % what, 'READ Z7 -> %r, Z7=%r (expected the first DATA item 11)' % (
                rr, d.get(b'Z7!')))
    # the collector works: allocate (and drop) twice the memory size in 200-byte strings
    n = int(sk.get('max_memory', 65534) * 2 // 200)
    rr = d.exec(b('FOR I9=1 TO %d:Z9$=STRING$(200,"a"):NEXT' % n), poll_cap=n * 4 + 1000)
    if rr.errs:
        run.violate('C23', '%s:string-churn-fails' % what,
                    'after %s, assigning a 200-byte string %d times -> %r (a fresh session runs this loop without error)\n%s' % (
                        what, n, rr, _ctx(cfg)))
    run.probe('reset-judged:' + what)
