"""
fs machine - C27 (BASIC file access stays inside the mounted drives) and
             C28 (DOS file names map to host files consistently).

Scratch layout of every run (all on tmpfs, removed by finish()):

    <scratch>/TOP.TXT                      sentinel above the watched root
    <scratch>/proccwd/CWDSENT.TXT A.TXT .. the process cwd during the run (relative-path escapes land here); it holds
                                           sentinels under the names the workload opens on the drives
    <scratch>/harness/                     where the harness puts the suspend/resume state file (removed after resume)
    <scratch>/away/                        where 'the medium' goes while a drive's directory is taken away
    <scratch>/outer/SENTINEL.TXT .BAS      sentinels next to the mounts
    <scratch>/outer/QZLEAK7.DAT            a name the workload never types (found only by listing)
    <scratch>/outer/secret/...             sentinel directory
    <scratch>/outer/mountCX/PFX.TXT        sibling whose name has the mount's name as a prefix
    <scratch>/outer/mountC  -> C:   (optionally with a start cwd)
    <scratch>/outer/mountD  -> D:
    <scratch>/outer/mountAt -> @:   (some runs; otherwise @: stays unmounted)
    <scratch>/outer/linkC, linkD           symbolic links to mountC, mountD (a drive may be mounted through them)

The mount point of C: and D: is passed to Session(devices=...) under one of many spellings of the
same directory (cfg spellC/spellD: trailing or doubled separators, '.' and '..' elements, through the
symbolic link, relative to the process cwd, or a subdirectory of the tree as the drive); the drive's
tree is the real path of whatever was passed, and everything else is outside.

Some histories keep disk files open on #2/#3 (keep_* / io_* statements) and restart the session
(Session.suspend, close, Session.resume) with them open; while the session is down another party
may remove or rename the open files or take the drive's directory away (and bring it back later).
Suspend, close and resume run under the same monitor as a statement; the only extra entry on the
allow-list is the state file itself.

SimFS watches <scratch>/outer only, so sentinel accesses are 'inside the watched root, outside
the mounts'.

C27 oracle (monitor): during every BASIC statement every path seen by the simfs wrappers and,
independently, by the audit hook must resolve inside a mount root, except an allow-list fixed in
advance (os.devnull; read-only access under sys.prefix / the stdlib / the pcbasic package directory
for imports and package data; the suspend/resume state file named by the harness). rename/remove/
rmdir do not follow a final symbolic link, so for those the entry really operated on is recorded too
(zone 'mount-point-symlink' when it is the link a drive is mounted through); a path containing a NUL
never reaches the host and is not judged. The sentinel trees (process cwd included) are byte-identical
at the end; sentinel marker contents and never-typed sentinel names appear in no statement output and
in no file inside a mount. Signatures are outside-mount:<call class>:<where>:<path shape>, with
':mount-<spelling class>' appended when the drive the path addresses is mounted under a spelling other
than the plain absolute path; the path shape of a restart is 'suspend' / 'resume'.

Found by the wider configuration and since repaired in /repo (reverse patches under mutants/):
  * f9d9b8f7: KILL on a drive mounted by a relative host path removed <root>/<root>/<name> (disk.py:kill joined
    native_dir onto names that _get_dirs_files already made complete): outside-mount:remove:*:mount-relative
  * fdc4ab44: NAME "\\" AS ... / RMDIR "\\" handed the mount point itself to os.rename / os.rmdir; through a
    symbolic link NAME moved the link out of its directory: outside-mount:rename|rmdir:mount-point-symlink

C28 histories: half of them also move about (CHDIR / MKDIR / RMDIR with relative, '..' and absolute paths,
in any capitalisation) in a family of directories on one level whose names are prefixes of one another
(AB, ABC, ABCD, AB.D; also the siblings of the start directory). The judge keeps a model of the drive's
working directory (host names from the root; changed only by a CHDIR that reports no error, to the
directory its path stands for) and every name is judged in the model's directory. After every directory
statement, failed or not, and after a sample of the others, BASIC must show the model's directory (first
line of a FILES that matches nothing) and, for a sample, a probe file created under a bare name must land
in it. Legal 8.3 directory names: MKDIR creates exactly the upper-case host directory, RMDIR removes
exactly the one empty host directory that stands for the name, CHDIR into an existing one succeeds.
While the property does not say where the working directory is (it was removed from BASIC or by the other
party, a CHDIR through ambiguous names succeeded) only the monitor and crash checks run, until an absolute
CHDIR succeeds. RMDIR of the working directory or a directory above it is not judged.

C28 oracle: the live host directory is the ground truth (listed by the harness between
statements, so files that 'another party' made vanish or appear are simply part of it). For a
DOS name that is strictly legal 8.3 (no blanks, at most one dot) the set S of host files whose
name equals it up to capitalisation is computed, and the statement's effect, seen as a host
directory diff and through the contents read back (every file carries a unique number), must be
the one the property states. See `Judge28`. Names that are neither strictly legal nor clearly
illegal (over-long, blanks, leading dot, several dots, bytes >= 0x80, '.', '..', reserved device
names) get only C27's monitor and the crash check, because the property is silent on them; the
BLOAD/BSAVE default extension, KILL/FILES of names with forbidden characters (wildcard matching,
not name validation) and the choice among several pre-existing host files that differ only in
case are left unjudged for the same reason.
"""

import os
import re
import sys
import logging
import stat as _stat

from .. import kernel as K
from ..basicdrv import Driver, Res, EngineCrash
from .. import simfs
from .common import execute, b, u

NAME = 'fs'
PROPS = ('C27', 'C28')
RULE = ('one evaluation = one simulated session history of file statements (OPEN/LOAD/SAVE/MERGE/CHAIN/RUN/'
        'BLOAD/BSAVE/KILL/NAME/FILES/MKDIR/RMDIR/CHDIR, I/O through files kept open, suspend/resume with open '
        'files) on two or three scratch trees mounted under varying spellings of their path, with sentinels '
        'around them and host-side changes by another party between statements and while suspended; distinct = distinct (property, '
        'statement kind, path/name shape class, outcome error code, candidate-count bucket, cwd depth) tuples; '
        'non-trivial = at least one statement reached the host file system under the monitor')
REAL = ['pcbasic.basic (whole package)', 'pcbasic.basic.devices.disk / files (path resolution, name matching)',
        'host tmpfs for every file operation', 'simfs wrappers + sys.addaudithook monitor']
STUB = ['wall clock (simulated)', 'interface queues (simulated, recording)',
        'the other party on the shared mount (scripted host-side create/remove/rename between statements and '
        'while the session is suspended, including taking the mounted directory away)']
ASSUMPTIONS = [
    'no symlinks are placed inside a mount (host configuration, outside C27); the mount point itself may be one',
    'POSIX host: hidden = dot files, no Windows short names',
    'stat-like probes are seen by the wrappers only (there is no audit event for os.stat)',
]
BATCH = 20

SENT_NUM = [7770001, 7770002, 7770003, 7770004, 7770005, 7770006, 7770007, 7770008, 7770009, 7770010]
MARKERS = [b'MRKQZ', b'QZLEAK', b'QZHID'] + [str(n).encode() for n in SENT_NUM]
PH_B = '<<OB>>'      # outer path with backslashes
PH_N = '<<O>>'       # outer path, native
PH_M = '<<M>>'       # mount spelling: the drive's directory name (mountC / mountD)
PH_L = '<<L>>'       # mount spelling: the symbolic link to it (linkC / linkD)
SPELL_PLAIN = PH_N + '/' + PH_M
_FREE = re.compile(br'\d+ Bytes free')
_UID = re.compile(br'PRINT (\d{7})')


def quick_runs(prop):
    # ~27 (C27) / ~12 (C28) runs per second per core
    return 6000 if prop == 'C27' else 2500


###############################################################################
# names

LETTERS = 'ABCDEFGHIJKLMNOPQRSTUVWXYZ'
DIGITS = '0123456789'
PUNCT_OK = "!#$%&'()-@^_`{}~"
ALLOWED = set(LETTERS + DIGITS + PUNCT_OK)       # blanks deliberately excluded from 'strictly legal'
FORBIDDEN = '+,;=[]|<>*?' + ''.join(chr(c) for c in (1, 7, 27, 31))


DOS_DEVICES = ('AUX', 'CON', 'NUL', 'PRN', 'COM1', 'COM2', 'COM3', 'COM4', 'LPT1', 'LPT2', 'LPT3', 'CLOCK$')


def strictly_legal(name, devices_too=False):
    """(TRUNK, EXT) in upper case if `name` (latin-1 str) is a strictly legal 8.3 name, else None."""
    if not name.isascii():
        return None
    if aupper(name).partition('.')[0] in DOS_DEVICES and not devices_too:
        return None
    if name.endswith('.') and name.count('.') == 1:
        name = name[:-1]
    if name.count('.') > 1:
        return None
    trunk, _, ext = name.partition('.')
    if not (1 <= len(trunk) <= 8 and len(ext) <= 3):
        return None
    if '.' in name and not ext:
        return None
    up = aupper(name)
    if not set(up.replace('.', '')) <= ALLOWED:
        return None
    t, _, e = up.partition('.')
    return t, e


def clearly_illegal(name):
    """8.3-shaped, but with a character DOS forbids in file names."""
    if not name or name.count('.') > 1 or name[0] == '.' or aupper(name).partition('.')[0] in DOS_DEVICES:
        return False
    trunk, _, ext = name.partition('.')
    if not (1 <= len(trunk) <= 8 and len(ext) <= 3):
        return False
    chars = set(aupper(name).replace('.', ''))
    if not chars & set(FORBIDDEN):
        return False
    return chars <= (ALLOWED | set(FORBIDDEN))


def aupper(s):
    """Upper-case the ASCII letters only (BASIC text is latin-1 bytes in a str)."""
    return ''.join(c.upper() if 'a' <= c <= 'z' else c for c in s)


def alower(s):
    return ''.join(c.lower() if 'A' <= c <= 'Z' else c for c in s)


def aswap(s):
    return ''.join(c.lower() if 'A' <= c <= 'Z' else c.upper() if 'a' <= c <= 'z' else c for c in s)


def recase(rng, s):
    mode = rng.randint(0, 3)
    if mode == 0:
        return aupper(s)
    if mode == 1:
        return alower(s)
    return ''.join(aupper(c) if rng.random() < 0.5 else alower(c) for c in s)


def rand_legal(rng):
    alpha = LETTERS * 3 + DIGITS + PUNCT_OK
    trunk = ''.join(rng.choice(alpha) for _ in range(rng.choice([1, 2, 3, 5, 7, 8, 8])))
    r = rng.random()
    if r < 0.35:
        return trunk
    if r < 0.45:
        return trunk + '.'
    ext = ''.join(rng.choice(alpha) for _ in range(rng.choice([1, 2, 3, 3])))
    if r < 0.55:
        ext = rng.choice(['BAS', 'TXT', 'DAT'])
    return trunk + '.' + ext


def rand_illegal(rng):
    base = rand_legal(rng).rstrip('.')
    i = rng.randrange(len(base))
    if base[i] == '.':
        i = 0
    return base[:i] + rng.choice(FORBIDDEN) + base[i + 1:]


def rand_weak(rng):
    return rng.choice([
        'LONGFILENAME.TXT', 'LongFileName.txt', 'TOOLONGEXT.TEXT', 'A.B.C', 'AB.CDE.F', 'A..B', '..B', '.X',
        ' LEAD', 'TRAIL ', 'TRAIL .TXT', 'IN SIDE.TXT', 'DOTS..', 'DOTS...', '.', '..', '', ' ', 'NUL', 'PRN',
        'CAF\xc9.TXT', 'caf\x82.txt', '\xe1\xe2.\xff', 'X.TXT ', 'ABCDEFGHI', 'ABCDEFGH.IJKL', 'A.', 'A. ',
        'LONGFILE.TXT', 'LONGFILE.TEX', 'A\x00B',
    ])


###############################################################################
# generator

DIRSEG = ['..', '..', '..', '.', '...', '....', 'SUB', 'sub', 'Sub', 'DEEP', 'LongDirName', 'LONGDI~1', 'LONGDIRN',
          'secret', 'SECRET', 'mountC', 'mountD', 'mountCX', 'outer', 'proccwd', '*', '?', '', ' ', '.. ', '..\\..',
          'NEWDIR', 'MIXed', 'caf\xe9', 'linkC', 'linkD', 'D3', 'away', 'harness', '..\x00', '.\x00', '..\x00X', 'SUB\x00']
LEAF27 = ['SENTINEL.TXT', 'SENTINEL.BAS', 'sentinel.txt', 'SENTINEL', 'SENTINEL.*', '*.*', '*', '????????.???',
          'S.BAS', 'SECRET.TXT', 'PFX.TXT', 'TOP.TXT', 'CWDSENT.TXT', 'A.TXT', 'a.txt', 'B.BAS', 'B', 'NEW1.TXT',
          'NEW2', 'X', '..', '.', '', '...', 'LongFileName.txt', 'caf\xe9.txt', 'mountC', 'mountD', 'secret', 'outer',
          'SUB', 'DEEP', 'NEWDIR', 'D.DAT', '.. ', '..\\', 'NUL', 'PRN', 'S1.TXT', 'linkC', 'FS.STATE', '..\x00', 'A.TXT\x00']
DRIVES27 = (['', 'C:', '', 'D:'] * 6 + ['c:', 'd:', '@:', 'A:', 'Z:', 'C:D:', 'D:C:', 'C:\\D:'] * 2 +
            ['1:', 'CD:', ':', 'AB:', '@A:'])
LEADS27 = ['', '', '', '', '\\', '\\', '\\\\', '\\\\?\\', '\\\\.\\', '\\\\A\\', '\\\\SUB\\', '\\\\SUB\\DEEP\\', '/',
           '\\\\?\\UNC\\', PH_B + '\\', PH_N + '/', PH_B + '\\mountC\\..\\', '..\\' * 12]
STMT27 = ['open_o', 'open_a', 'open_i', 'open_i', 'open_r', 'open_old', 'load', 'run', 'merge', 'chain', 'save',
          'save_a', 'save_p', 'bload', 'bsave', 'kill', 'kill', 'name', 'name', 'files', 'files', 'mkdir', 'rmdir',
          'chdir', 'chdir', 'chdir']

# every way a user may legally spell the directory given to Session(devices={'C:': ...}); PH_N is the
# absolute path of <scratch>/outer, '../outer' the same place seen from the process cwd
SPELL27 = [SPELL_PLAIN] * 9 + [
    PH_N + '/' + PH_M + '/', PH_N + '/' + PH_M + '/', PH_N + '/' + PH_M + '//', PH_N + '//' + PH_M,
    PH_N + '//' + PH_M + '/', '/' + PH_N + '/' + PH_M, PH_N + '/./' + PH_M, PH_N + '/' + PH_M + '/.',
    PH_N + '/' + PH_M + '/./', PH_N + '/secret/../' + PH_M, PH_N + '/' + PH_M + '/../' + PH_M + '/',
    PH_N + '/' + PH_M + '/SUB/..', PH_N + '/' + PH_M + '/SUB/../',
    PH_N + '/' + PH_L, PH_N + '/' + PH_L + '/', PH_N + '/' + PH_L + '/.',
    '../outer/' + PH_M, '../outer/' + PH_M + '/', './../outer//' + PH_M, '../outer/' + PH_L + '/',
    '../proccwd/../outer/' + PH_M,
    PH_N + '/' + PH_M + '/SUB', PH_N + '/' + PH_M + '/SUB/', '../outer/' + PH_M + '/SUB//',
]


def spell_class(tmpl):
    """Coarse class of a mount spelling (for signatures), None for the plain absolute path."""
    if not tmpl or tmpl == SPELL_PLAIN:
        return None
    if not tmpl.startswith(PH_N) and not tmpl.startswith('/'):
        return 'relative'
    if PH_L in tmpl:
        return 'symlink'
    t = tmpl.rstrip('/')
    if t.endswith('/SUB'):
        return 'subdirectory'
    if '/../' in tmpl or t.endswith('/..'):
        return 'dotdot-element'
    if '/./' in tmpl or t.endswith('/.'):
        return 'dot-element'
    if '//' in t:
        return 'doubled-sep'
    return 'trailing-sep'


# files kept open over several statements and over suspend/resume (numbers 2 and 3; #1 is the
# scratch number of the one-line statements)
KEEP_KINDS = ['keep_i', 'keep_i', 'keep_o', 'keep_o', 'keep_a', 'keep_r']
KEEP_PATHS = ['A.TXT', 'B.BAS', 'C:\\A.TXT', 'C:\\B.BAS', 'C:\\SUB\\S1.TXT', 'SUB\\S1.TXT', 'S1.TXT', 'D:D.DAT',
              'D:\\D.DAT', 'NEW1.TXT', 'C:\\NEW1.TXT', 'SUB\\NEW2', 'D:\\SUB\\X', 'X', 'C:\\SUB\\DEEP\\S2.BAS',
              'LongDirName\\LongFileName.txt', '@:A.TXT', '..\\A.TXT', '..\\..\\B.BAS']
IO_KINDS = ['io_in', 'io_in', 'io_out', 'io_out', 'io_get', 'io_put', 'io_close', 'io_eof']
DOWN_NAMES = ['A.TXT', 'A.TXT', 'B.BAS', 'S1.TXT', 'D.DAT', 'NEW1.TXT', 'NEW2', 'X', 'S2.BAS', 'SUB', 'DEEP']


def gen_path27(rng):
    r = rng.random()
    if r < 0.12:
        # ordinary in-mount use, so that histories (cwd, created dirs/files) develop
        return rng.choice(['SUB', 'SUB\\DEEP', 'A.TXT', 'B.BAS', 'NEW1.TXT', 'NEWDIR', 'SUB\\NEW2', 'D:D.DAT',
                           'C:\\SUB', '\\', 'D:\\', '..', 'LongDirName', 'NEWDIR\\X', '\\SUB\\DEEP', 'MIXed',
                           'DEEP', 'D3', 'SUB\\DEEP\\D3', 'D3\\D4', '\\SUB\\DEEP\\D3\\D4', 'D:SUB', 'D:SUB\\DEEP'])
    if r < 0.22:
        # more leading '..' than any working directory is deep, towards names that exist above the drive
        p = (rng.choice(['', '', '', 'C:', 'D:', 'c:', '@:']) + rng.choice(['', '', '', '.\\', 'SUB\\..\\']) +
             '..\\' * rng.randint(1, 6) +
             rng.choice(['', '', '', 'secret\\', 'outer\\', 'mountCX\\', 'proccwd\\', 'mountC\\', 'mountD\\SUB\\..\\..\\']) +
             rng.choice(LEAF27))
        return p
    drive = rng.choice(DRIVES27)
    lead = rng.choice(LEADS27)
    sep = rng.choice(['\\', '\\', '\\', '\\', '/', '\\\\', '\\.\\'])
    segs = [rng.choice(DIRSEG) for _ in range(rng.choice([0, 0, 1, 1, 2, 2, 3, 4, 6]))]
    leaf = rng.choice(LEAF27)
    p = drive + lead + ''.join(s + sep for s in segs) + leaf
    if rng.random() < 0.04:
        p += rng.choice(['\x00', '\x00X', ' ', '.', '\\', '"', '\r'])
    if rng.random() < 0.1:
        p = recase(rng, p) if PH_B not in p and PH_N not in p else p
    return p[:200]


def _pre27(rng):
    pre = [
        {'d': 'C', 'p': 'SUB', 'k': 'd'}, {'d': 'C', 'p': 'SUB/DEEP', 'k': 'd'},
        {'d': 'C', 'p': 'A.TXT', 'k': 'f'}, {'d': 'C', 'p': 'B.BAS', 'k': 'f'},
        {'d': 'C', 'p': 'SUB/S1.TXT', 'k': 'f'}, {'d': 'C', 'p': 'SUB/DEEP/S2.BAS', 'k': 'f'},
        {'d': 'D', 'p': 'D.DAT', 'k': 'f'}, {'d': 'D', 'p': 'SUB', 'k': 'd'},
    ]
    extra = [
        {'d': 'C', 'p': 'LongDirName', 'k': 'd'}, {'d': 'C', 'p': 'LongDirName/LongFileName.txt', 'k': 'f'},
        {'d': 'C', 'p': 'MIXed', 'k': 'd'}, {'d': 'C', 'p': 'caf\xe9', 'k': 'd'}, {'d': 'C', 'p': 'caf\xe9.txt', 'k': 'f'},
        {'d': 'C', 'p': 'secret', 'k': 'd'}, {'d': 'C', 'p': 'SENTINEL.TXT', 'k': 'f'},
        {'d': 'D', 'p': 'SUB/DEEP', 'k': 'd'}, {'d': 'C', 'p': '.hidden', 'k': 'f'},
        {'d': 'C', 'p': 'sub', 'k': 'd'}, {'d': 'C', 'p': 'a.txt', 'k': 'f'},
        {'d': 'C', 'p': 'SUB/DEEP/D3/D4', 'k': 'd'}, {'d': 'C', 'p': 'SUB/SUB/DEEP', 'k': 'd'},
        {'d': 'C', 'p': 'SUB/A.TXT', 'k': 'f'},
    ]
    pre += [e for e in extra if rng.random() < 0.35]
    return pre


def _host27(rng, uid):
    act = rng.choice(['vanish', 'vanish', 'appear', 'appear_dir', 'rename'])
    op = {'op': 'host', 'act': act, 'd': rng.choice(['C', 'C', 'D']),
          'p': rng.choice(['SUB', 'SUB/DEEP', 'A.TXT', 'NEWDIR', 'NEW1.TXT', 'LongDirName', 'sub', 'X', 'B.BAS']),
          'uid': uid}
    if act == 'rename':
        op['q'] = rng.choice(['SUB2', 'Sub', 'moved.txt', 'NEWDIR', 'A.TXT'])
    return op


def _st27(rng, uid):
    k = rng.choice(STMT27)
    op = {'op': 'st', 'k': k, 'p': gen_path27(rng), 'uid': uid}
    if k == 'name':
        op['q'] = gen_path27(rng) if rng.random() < 0.6 else rng.choice(['NEW3.TXT', 'X', '..\\Y', 'SUB\\Z'])
    if k in ('files', 'kill') and rng.random() < 0.15:
        op['p'] = rng.choice(['', '*.*', '..\\*.*', '..\\..\\*.*', 'D:*.*', '\\..\\*.*', '*', '..', '.', '...'])
    return op


def _keep27(rng, uid, num=None):
    return {'op': 'st', 'k': rng.choice(KEEP_KINDS), 'n': num or rng.choice([2, 3]),
            'p': rng.choice(KEEP_PATHS) if rng.random() < 0.85 else gen_path27(rng), 'uid': uid}


def _io27(rng, uid):
    return {'op': 'st', 'k': rng.choice(IO_KINDS), 'n': rng.choice([2, 2, 3, 3, 1]), 'p': None, 'uid': uid}


def _down27(rng):
    """What the other party does to the mounted trees while the session is down."""
    r = rng.random()
    if r < 0.15:
        return []
    if r < 0.5:
        down = [{'act': 'unmount', 'd': rng.choice(['C', 'C', 'D'])}]
        if rng.random() < 0.3:
            down.append({'act': 'unmount', 'd': rng.choice(['C', 'D'])})
    elif r < 0.8:
        down = [{'act': 'vanish-name', 'name': rng.choice(DOWN_NAMES)} for _ in range(rng.randint(1, 2))]
    else:
        down = [{'act': 'rename-name', 'name': rng.choice(DOWN_NAMES), 'q': rng.choice(['MOVED.OLD', 'A.TXT', 'Z9'])}]
    if rng.random() < 0.15:
        down.append({'act': 'remount', 'd': rng.choice(['C', 'D'])})
    return down


def gen27(rng, tier):
    n = rng.randint(6, 40 if tier == 'quick' else 150)
    cfg = {
        'mode': 27,
        'cwdC': rng.choice(['', '', '', 'SUB', 'SUB/DEEP', 'SUB']),
        'cwdD': rng.choice(['', '', 'SUB']),
        'current': rng.choice(['C', 'C', 'C', 'D']),
        'at': rng.random() < 0.25,
        'pre': _pre27(rng),
        'spellC': rng.choice(SPELL27),
        'spellD': rng.choice(SPELL27) if rng.random() < 0.4 else SPELL_PLAIN,
        'session': {},
    }
    host_rate = rng.choice([0, 0, 0.05, 0.12])
    # about a third of the histories keep files open and restart the session with them open
    restarts = rng.random() < 0.35
    ops = []

    def add(op):
        ops.append(op)

    def uid():
        return 1000000 + len(ops)

    while len(ops) < n:
        r = rng.random()
        if r < host_rate:
            if rng.random() < 0.12:
                # the medium is taken out for a few statements while the session runs
                drv = rng.choice(['C', 'D'])
                add({'op': 'host', 'act': 'unmount', 'd': drv, 'uid': uid()})
                for _ in range(rng.randint(1, 3)):
                    add(_st27(rng, uid()))
                add({'op': 'host', 'act': 'remount', 'd': drv, 'uid': uid()})
            else:
                add(_host27(rng, uid()))
            continue
        if restarts:
            r = rng.random()
            if r < 0.07:
                # an episode: open, use, restart with the files open (the other party acts meanwhile), use again
                nums = [2, 3]
                rng.shuffle(nums)
                for num in nums[:rng.randint(1, 2)]:
                    add(_keep27(rng, uid(), num))
                for _ in range(rng.randint(0, 2)):
                    add(_io27(rng, uid()) if rng.random() < 0.6 else _st27(rng, uid()))
                down = _down27(rng)
                back = rng.choice(['resume', 'resume', 'later', 'never'])
                add({'op': 'restart', 'down': down, 'back': back == 'resume', 'uid': uid()})
                for _ in range(rng.randint(1, 4)):
                    add(_io27(rng, uid()) if rng.random() < 0.7 else _st27(rng, uid()))
                if back == 'later':
                    for e in down:
                        if e['act'] == 'unmount':
                            add({'op': 'host', 'act': 'remount', 'd': e['d'], 'uid': uid()})
                continue
            if r < 0.13:
                add(_keep27(rng, uid()))
                continue
            if r < 0.19:
                add(_io27(rng, uid()))
                continue
            if r < 0.22:
                add({'op': 'restart', 'down': _down27(rng), 'back': rng.random() < 0.6, 'uid': uid()})
                continue
        add(_st27(rng, uid()))
    return {'machine': NAME, 'prop': 'C27', 'cfg': cfg, 'ops': ops}


HOSTPOOL28 = ['LongFileName.txt', 'Another Long Name.text', '\xdcberlang.txt', 'caf\xe9.dat', '.hidden', 'a+b.txt',
              'with space.txt', 'UPPER.TXT', 'lower.dat', 'MiXed.Bas', 'noext', 'UPPERDIR', 'lowerdir',
              'LONGFILE.TXT', 'trail.', '\u4e2d\u6587.txt', 'bad\udcff.txt', 'AB.CDE.F', 'ten__chars']


def gen28(rng, tier):
    n = rng.randint(6, 36 if tier == 'quick' else 140)
    pool = [rand_legal(rng) for _ in range(rng.randint(2, 4))]
    pool += [rng.choice(pool).partition('.')[0][:8] or 'Q']      # dotless sibling of a pool name
    if rng.random() < 0.5:
        pool.append(pool[0].partition('.')[0] + '.BAS')
    bad = [rand_illegal(rng) for _ in range(2)]
    weak = [rand_weak(rng) for _ in range(2)]
    arm = rng.choice(['clean', 'clean', 'mixed', 'mixed', 'collide'])
    pre = []
    uid = 2000000
    if arm != 'clean':
        for nm in pool:
            base = nm.rstrip('.')
            r = rng.random()
            variants = []
            if r < 0.35:
                variants = [base.lower()]
            elif r < 0.55:
                variants = [recase(rng, base)]
            elif r < 0.65:
                variants = [base.upper()]
            if arm == 'collide' and rng.random() < 0.6:
                variants = [base.lower(), base.upper()] + ([base.capitalize()] if rng.random() < 0.3 else [])
            for v in variants:
                uid += 1
                if all(p['p'] != v for p in pre):
                    pre.append({'d': 'C', 'p': v, 'k': 'f' if rng.random() < 0.93 else 'd', 'uid': uid})
        for nm in rng.sample(HOSTPOOL28, rng.randint(0, 6)):
            uid += 1
            pre.append({'d': 'C', 'p': nm, 'k': 'd' if nm.endswith('dir') or nm.endswith('DIR') else 'f', 'uid': uid})
    sub = rng.choice(['', '', 'SUB', 'SRC.V2'])
    if sub:
        for p in pre:
            p['p'] = sub + '/' + p['p']
        pre.insert(0, {'d': 'C', 'p': sub, 'k': 'd'})
    cfg = {'mode': 28, 'cwdC': sub, 'cwdD': '', 'current': 'C', 'at': False, 'pre': pre, 'arm': arm, 'session': {}}
    host_rate = 0 if arm == 'clean' else rng.choice([0, 0.08, 0.15])
    # half of the histories move about in a family of directories on one level whose names are prefixes
    # of one another (AB, ABC, ABCD, AB.D): the working directory is part of what a bare name means
    fam = []
    base = [sub] if sub else []
    if rng.random() < 0.5:
        stem = ''.join(rng.choice(LETTERS) for _ in range(rng.randint(1, 5)))
        fam = [stem, stem + rng.choice(LETTERS + DIGITS)]
        if rng.random() < 0.6:
            fam.append(fam[1] + rng.choice(LETTERS + DIGITS))
        if rng.random() < 0.3:
            fam.append(stem + '.' + rng.choice(['D', 'DIR', '1']))
        if sub and rng.random() < 0.5:
            # the family of the start directory itself (its siblings in the root)
            fam.append('..\\' + sub[:-1])
            fam.append('..\\' + sub.partition('.')[0] + 'X')
        for f in fam:
            if rng.random() < 0.7:
                nm = f[3:] if f.startswith('..\\') else f
                if rng.random() < 0.2:
                    nm = alower(nm)
                # now and then a file, not a directory, stands for the name
                pre.append({'d': 'C', 'p': ('' if f.startswith('..\\') or not sub else sub + '/') + nm,
                            'k': 'f' if rng.random() < 0.15 else 'd'})
        cfg['dirs'] = fam
    gcwd = list(base)      # where the generator believes the working directory is (a guess, to aim the paths)

    def dirpath(m):
        """A DOS path for family member m as seen from the believed working directory."""
        if m.startswith('..\\'):
            parent, nm = [], m[3:]
        else:
            parent, nm = base, m
        forms = ['\\' + ''.join(e + '\\' for e in parent) + nm]
        if gcwd == parent:
            forms += [nm, nm, '.\\' + nm]
        elif gcwd[:-1] == parent:
            forms += ['..\\' + nm, '..\\' + nm]
        elif gcwd[:-2] == parent and len(gcwd) >= 2:
            forms += ['..\\..\\' + nm]
        return recase(rng, rng.choice(forms)) if rng.random() < 0.6 else rng.choice(forms), parent + [nm]

    def dirop(uid):
        k = rng.choice(['chdir', 'chdir', 'chdir', 'chdir', 'mkdir', 'mkdir', 'rmdir', 'rmdir', 'rmdir'])
        r = rng.random()
        if k == 'chdir' and r < 0.3:
            path = rng.choice(['..', '..', '\\', '\\' + '\\'.join(base), '.', rand_legal(rng)])
            if path == '..':
                del gcwd[-1:]
            elif path.startswith('\\'):
                gcwd[:] = [] if path == '\\' else base
        else:
            path, where = dirpath(rng.choice(fam))
            if k == 'chdir':
                gcwd[:] = where
        return {'op': 'st', 'k': k, 'p': path, 'uid': uid, 'probe': rng.random() < 0.4}
    kinds = ['open_o', 'open_o', 'save', 'save', 'save_a', 'open_a', 'open_r', 'bsave',
             'open_i', 'open_i', 'open_i', 'load', 'load', 'run', 'bload', 'merge',
             'kill', 'kill', 'name', 'name', 'files', 'files', 'files_mask']
    ops = []

    def pick():
        r = rng.random()
        if r < 0.72:
            nm = rng.choice(pool)
        elif r < 0.84:
            nm = rng.choice(bad)
        else:
            nm = rng.choice(weak)
        return recase(rng, nm) if rng.random() < 0.75 else nm

    for i in range(n):
        uid = 1000000 + i
        if rng.random() < host_rate:
            act = rng.choice(['vanish', 'appear', 'appear', 'rename'])
            nm = rng.choice(pool).rstrip('.')
            op = {'op': 'host', 'act': act, 'd': 'C', 'uid': uid,
                  'p': (sub + '/' if sub else '') + rng.choice([nm.lower(), nm.upper(), recase(rng, nm), rng.choice(HOSTPOOL28)])}
            if act == 'rename':
                op['q'] = (sub + '/' if sub else '') + rng.choice([nm.lower(), nm.upper(), 'Moved.Txt'])
            ops.append(op)
            continue
        if fam and rng.random() < 0.3:
            ops.append(dirop(uid))
            continue
        k = rng.choice(kinds)
        op = {'op': 'st', 'k': k, 'p': pick(), 'uid': uid}
        if k == 'name':
            op['q'] = pick() if rng.random() < 0.5 else recase(rng, rand_legal(rng))
        if k == 'files':
            op['p'] = None
        elif k != 'files_mask' and rng.random() < 0.2:
            # spell the working directory out: '.', an absolute path, or down from the parent
            op['pfxk'] = rng.choice(['dot', 'abs', 'up'])
        if fam and rng.random() < 0.1:
            # every statement, failed ones too, leaves the working directory where it was
            op['audit'] = True
        ops.append(op)
    return {'machine': NAME, 'prop': 'C28', 'cfg': cfg, 'ops': ops}


def gen(rng, tier, prop):
    return gen27(rng, tier) if prop == 'C27' else gen28(rng, tier)


def simplify(cfg, ops):
    for i in range(len(cfg.get('pre', []))):
        c = dict(cfg)
        c['pre'] = cfg['pre'][:i] + cfg['pre'][i + 1:]
        yield c, ops
    for key, val in (('cwdC', ''), ('cwdD', ''), ('at', False), ('current', 'C'), ('spellC', SPELL_PLAIN),
                     ('spellD', SPELL_PLAIN)):
        if cfg.get(key, val) != val and not (key == 'cwdC' and cfg.get('mode') == 28):
            c = dict(cfg)
            c[key] = val
            yield c, ops
    # a restart with less done by the other party while the session is down
    for i, op in enumerate(ops):
        if op.get('op') == 'restart':
            for k in range(len(op.get('down', []))):
                o = dict(op)
                o['down'] = op['down'][:k] + op['down'][k + 1:]
                yield cfg, ops[:i] + [o] + ops[i + 1:]
            if not op.get('back'):
                o = dict(op)
                o['back'] = True
                yield cfg, ops[:i] + [o] + ops[i + 1:]


###############################################################################
# the run

def _basic_str(path_bytes):
    """BASIC string literal for a path, or None if it cannot be written as one."""
    if all(0x20 <= c <= 0xff and c != 0x22 for c in path_bytes):
        return b'"' + path_bytes + b'"'
    return None


class Env(object):
    """One run's scratch world, session and monitors."""

    def __init__(self, run, cfg):
        self.run = run
        self.cfg = cfg
        self.w = run.w
        scratch = run.make_scratch()
        self.scratch = scratch
        self.outer = os.path.join(scratch, 'outer')
        self.mounts = {'C': os.path.join(self.outer, 'mountC'), 'D': os.path.join(self.outer, 'mountD')}
        if cfg.get('at'):
            self.mounts['@'] = os.path.join(self.outer, 'mountAt')
        self.proccwd = os.path.join(scratch, 'proccwd')
        self.away = os.path.join(scratch, 'away')
        self.statefile = os.path.join(scratch, 'harness', 'fs.state')
        self.uid_by_content = {}
        # what is passed to Session(devices=...) and the directory tree it stands for
        self.spec = {}
        self.root = {}
        self._build()
        for drv in sorted(self.mounts):
            self.spec[drv] = self.spell(drv)
            self.root[drv] = os.path.realpath(os.path.join(self.proccwd, self.spec[drv]))
            if not (self.root[drv] + os.sep).startswith(self.mounts[drv] + os.sep):
                raise K.HarnessError('mount spelling %r resolves to %r' % (self.spec[drv], self.root[drv]))
        self._build_mounts()
        self.fs = simfs.SimFS(self.w, [self.outer])
        self.roots = [self.root[drv] for drv in sorted(self.root)]
        self.links = [os.path.join(self.outer, 'linkC'), os.path.join(self.outer, 'linkD')]
        self.gone = {}        # drive -> where its directory is while it is taken away
        self.kept = set()     # file numbers a keep_* statement opened without error (coverage only)
        import pcbasic
        self.ro_roots = sorted(set(os.path.realpath(p) for p in (
            sys.prefix, sys.base_prefix, os.path.dirname(os.__file__), os.path.dirname(pcbasic.__file__))))
        self.sent0 = self.sentinel_snapshot()
        self.d = None
        self.n_monitored = 0
        self.crashes = 0
        self.cwd_escaped = False
        self.causes = set()

    # -- set-up ----------------------------------------------------------

    @staticmethod
    def content(uid):
        return b'10 PRINT %d\r\n' % uid

    def _put(self, path, data):
        with simfs.real_open(path, 'wb') as f:
            f.write(data)

    def spell(self, drv):
        tmpl = self.cfg.get('spell' + drv) or SPELL_PLAIN
        return tmpl.replace(PH_N, self.outer).replace(PH_M, 'mount' + drv.replace('@', 'At')).replace(PH_L, 'link' + drv)

    def _build(self):
        os.makedirs(self.outer)
        os.makedirs(self.proccwd)
        os.makedirs(self.away)
        os.makedirs(os.path.dirname(self.statefile))
        for m in self.mounts.values():
            os.makedirs(m)
        os.symlink('mountC', os.path.join(self.outer, 'linkC'))
        os.symlink(self.mounts['D'], os.path.join(self.outer, 'linkD'))
        os.makedirs(os.path.join(self.outer, 'secret', 'QZHIDDIR'))
        os.makedirs(os.path.join(self.outer, 'mountCX'))
        self._put(os.path.join(self.scratch, 'TOP.TXT'), b'MRKQZ-top\r\n10 PRINT %d\r\n' % SENT_NUM[0])
        self._put(os.path.join(self.proccwd, 'CWDSENT.TXT'), b'10 PRINT %d\r\n' % SENT_NUM[1])
        self._put(os.path.join(self.outer, 'SENTINEL.TXT'), b'10 PRINT %d\r\nMRKQZ-sentinel\r\n' % SENT_NUM[2])
        self._put(os.path.join(self.outer, 'SENTINEL.BAS'), b'10 PRINT %d\r\n' % SENT_NUM[3])
        self._put(os.path.join(self.outer, 'SENTINEL'), b'10 PRINT %d\r\n' % SENT_NUM[3])
        self._put(os.path.join(self.outer, 'QZLEAK7.DAT'), b'MRKQZ-leak\r\n')
        self._put(os.path.join(self.outer, 'secret', 'S.BAS'), b'10 PRINT %d\r\n' % SENT_NUM[4])
        self._put(os.path.join(self.outer, 'secret', 'SECRET.TXT'), b'10 PRINT %d\r\nMRKQZ-secret\r\n' % SENT_NUM[4])
        self._put(os.path.join(self.outer, 'mountCX', 'PFX.TXT'), b'10 PRINT %d\r\n' % SENT_NUM[5])
        # the process cwd holds files under the names the workload opens on the drives
        self._put(os.path.join(self.proccwd, 'A.TXT'), b'10 PRINT %d\r\n20 PRINT %d\r\nMRKQZ-cwd\r\n' % (SENT_NUM[6], SENT_NUM[6]))
        self._put(os.path.join(self.proccwd, 'B.BAS'), b'10 PRINT %d\r\n' % SENT_NUM[7])
        self._put(os.path.join(self.proccwd, 'S1.TXT'), b'10 PRINT %d\r\n' % SENT_NUM[8])
        self._put(os.path.join(self.proccwd, 'D.DAT'), b'10 PRINT %d\r\n' % SENT_NUM[9])

    def _build_mounts(self):
        n = 3000000
        for e in self.cfg.get('pre', []):
            n += 1
            self.host_make(e['d'], e['p'], e['k'], e.get('uid', n), self.mounts)
        for drv, key in (('C', 'cwdC'), ('D', 'cwdD')):
            if os.path.lexists(self.root[drv]) and not os.path.isdir(self.root[drv]):
                os.remove(self.root[drv])
            os.makedirs(self.root[drv], exist_ok=True)
            if self.cfg.get(key):
                os.makedirs(os.path.join(self.root[drv], self.cfg[key]), exist_ok=True)

    def host_make(self, drv, rel, kind, uid, where=None):
        """The other party creates a file or directory (never outside the mount, never a symlink)."""
        where = where or self.root
        path = os.path.join(where.get(drv, where['C']), rel)
        try:
            if kind == 'd':
                os.makedirs(path, exist_ok=True)
            else:
                os.makedirs(os.path.dirname(path), exist_ok=True)
                if not os.path.isdir(path):
                    self._put(path, self.content(uid))
            return True
        except (OSError, ValueError):
            return False

    def sentinel_snapshot(self):
        """Everything under <scratch> except the mounts: relpath -> ('d', mode) | ('f', mode, bytes)."""
        snap = {}
        skip = set(self.root.values()) | set(os.path.join(self.away, drv) for drv in self.root)
        for dirpath, dirnames, filenames in os.walk(self.scratch):
            rel = os.path.relpath(dirpath, self.scratch)
            for dn in dirnames:
                if os.path.islink(os.path.join(dirpath, dn)):
                    snap[os.path.join(rel, dn)] = ('l', os.readlink(os.path.join(dirpath, dn)))
            dirnames[:] = sorted(dn for dn in dirnames if os.path.join(dirpath, dn) not in skip
                                 and not os.path.islink(os.path.join(dirpath, dn)))
            snap[rel] = ('d', _stat.S_IMODE(os.lstat(dirpath).st_mode))
            for fn in sorted(filenames):
                p = os.path.join(dirpath, fn)
                if p in skip:
                    # something else than a directory at a mount point (while its directory is away)
                    continue
                st = os.lstat(p)
                if _stat.S_ISLNK(st.st_mode):
                    snap[os.path.join(rel, fn)] = ('l', os.readlink(p))
                    continue
                if _stat.S_ISREG(st.st_mode):
                    with simfs.real_open(p, 'rb') as f:
                        data = f.read()
                else:
                    data = b'<special>'
                snap[os.path.join(rel, fn)] = ('f', _stat.S_IMODE(st.st_mode), data)
        return snap

    def list_dir(self, path):
        """Host directory as {name: ('d',) | ('f', bytes)}; None if it is not a directory."""
        try:
            names = sorted(os.listdir(path))
        except OSError:
            return None
        out = {}
        for nm in names:
            p = os.path.join(path, nm)
            try:
                if os.path.isdir(p):
                    out[nm] = ('d',)
                else:
                    with simfs.real_open(p, 'rb') as f:
                        out[nm] = ('f', f.read())
            except OSError:
                pass
        return out

    # -- session ---------------------------------------------------------

    def start(self):
        cfg = self.cfg
        devices = {}
        for drv, key in (('C', 'cwdC'), ('D', 'cwdD')):
            spec = self.spec[drv]
            if cfg.get(key):
                spec += ':' + cfg[key]
            devices[drv + ':'] = spec
        if '@' in self.mounts:
            devices['@:'] = self.spec['@']
        # without this the engine mounts the process cwd as Z: (documented default)
        devices['Z:'] = None
        self.d = Driver(self.w, devices=devices, current_device=cfg.get('current', 'C') + ':', **cfg.get('session', {}))

    def expand(self, tmpl):
        return tmpl.replace(b(PH_B), b(self.outer.replace('/', '\\'))).replace(b(PH_N), b(self.outer))

    def X(self, tmpl, poll_cap=4000):
        """Execute one direct-mode line under the monitor. The log gets the template and masked output."""
        w, fs, d = self.w, self.fs, self.d
        line = self.expand(tmpl)
        w.op_poll_base = w.poll_no
        w.op_poll_cap = poll_cap
        w.log.add('exec', tmpl)
        fs.calls = []
        fs.audit = []
        fs.monitor = True
        try:
            try:
                out = d.s.execute(line)
            except (K.SimAbort, K.HarnessError):
                raise
            except Exception as exc:
                fs.monitor = False     # traceback formatting reads source files: not the engine's doing
                if type(exc).__name__ == 'Exit':
                    raise
                raise EngineCrash(exc, tmpl[:60])
        except EngineCrash as e:
            # same record common.execute would make, but the history goes on (a crash is C01's
            # business; ending the run here would hide what the rest of the history has to show)
            self.crashes += 1
            self.run.violate(self.run.prop, 'crash:' + e.signature, '%s: %s (during %r)\n%s' % (
                e.exc_type, e.exc_msg, self.mask(tmpl), e.tb))
            w.log.add('crash', e.signature)
            if self.crashes > 3:
                raise
            out = b''
        finally:
            fs.monitor = False
            w.op_poll_cap = None
        w.stats['ops'] += 1
        w.log.add('out', self.mask(out))
        return Res(out, w.poll_no - w.op_poll_base)

    def close(self):
        """Session.close() under the monitor (it flushes and closes the files still open)."""
        fs = self.fs
        fs.calls = []
        fs.audit = []
        fs.monitor = True
        try:
            try:
                self.d.close()
            except EngineCrash:
                fs.monitor = False
                raise
        finally:
            fs.monitor = False
        self.check_monitor('Session.close()', 'close')

    def restart(self, op):
        """
        Session.suspend, close; the other party acts on the mounts; Session.resume, attach. The engine's
        part runs under the monitor (files re-opened by the resume are the engine's accesses).
        """
        from pcbasic.basic import Session
        w, fs, run = self.w, self.fs, self.run
        w.log.add('restart', len(op.get('down', [])), bool(op.get('back')))
        spelled = ''.join(' [%s: mounted as %r]' % (drv, self.rel(self.spec[drv])) for drv in sorted(self.spec)
                          if self.cfg.get('spell' + drv, SPELL_PLAIN) != SPELL_PLAIN)
        d = self.d
        fs.calls = []
        fs.audit = []
        fs.monitor = True
        try:
            try:
                d._guard('suspend', lambda: d.s.suspend(self.statefile))
                d.close()
            except EngineCrash:
                fs.monitor = False
                raise
        finally:
            fs.monitor = False
        self.check_monitor('Session.suspend()+close() with files open' + spelled, 'suspend')
        done = []
        for e in op.get('down', []):
            if do_host(self, dict(e, op='host'), when='down'):
                done.append(e['act'])
        fs.calls = []
        fs.audit = []
        fs.monitor = True
        what = 'Session.resume() with files open, after the other party did %r while it was down%s' % (done, spelled)
        try:
            try:
                s2 = d._guard('resume', lambda: Session.resume(self.statefile))
                self.d = Driver(w, session=s2)
            except EngineCrash:
                fs.monitor = False
                raise
        finally:
            fs.monitor = False
            # (also when the resume crashed: what it touched until then is judged, and the state file goes)
            self.check_monitor(what, 'resume')
            try:
                os.remove(self.statefile)
            except OSError:
                pass
        w.faults['restart'] += 1
        if op.get('back'):
            for drv in sorted(self.gone):
                do_host(self, {'op': 'host', 'act': 'remount', 'd': drv})
        run.state('C27', 'restart', tuple(done), bool(op.get('back')), len(self.kept))
        if self.kept:
            run.probe('restart-with-kept-files')
            if done:
                run.probe('restart-with-kept-files-and-host-change')

    def mask(self, out):
        return _FREE.sub(b'# Bytes free', out).replace(b(self.scratch), b'<<S>>')

    def setvar(self, name, tmpl):
        self.w.log.add('set', name, tmpl)
        self.d.set(name, self.expand(tmpl))

    # -- C27 oracles -----------------------------------------------------

    def zone(self, rp):
        if rp is None or '\0' in rp:
            # a path with a NUL never reaches the host (the host call raises ValueError before the system call)
            return None
        if not os.path.isabs(rp):
            rp = os.path.normpath(os.path.join(self.proccwd, rp))
        if rp in self.links:
            # the symbolic link itself (calls that do not follow a final link: rename, remove, rmdir)
            return 'mount-point-symlink'
        for r in self.roots:
            if rp == r or rp.startswith(r + os.sep):
                return None
        if rp == self.outer:
            return 'mount-parent'
        if rp.startswith(self.outer + os.sep):
            return 'sentinel-beside-mount'
        if rp == self.proccwd or rp.startswith(self.proccwd + os.sep):
            return 'process-cwd'
        if rp == self.scratch or rp.startswith(self.scratch + os.sep):
            return 'above-mount-parent'
        return 'elsewhere'

    def allowed(self, kind, rp):
        if rp == os.devnull:
            return True
        if rp == self.statefile and kind in ('open', 'open:rb', 'open:wb'):
            # the state file named by the harness in Session.suspend(path) / Session.resume(path)
            return True
        ro = kind in ('stat', 'lstat', 'access', 'listdir', 'scandir', 'readlink', 'os.listdir', 'os.scandir') or (
            kind.startswith('open:') and not set(kind[5:]) & set('wax+'))
        # the audit 'open' event does not carry the mode in the record: judged by the wrapper record
        if kind == 'open':
            ro = True
        if ro:
            for r in self.ro_roots:
                if rp == r or rp.startswith(r + os.sep):
                    return True
        return False

    @staticmethod
    def kind_class(kind):
        if kind.startswith('open:'):
            return 'write' if set(kind[5:]) & set('wax+') else 'read'
        if kind.startswith('os.'):
            kind = kind[3:]
        if kind == 'open':
            return 'open'          # audit record: mode unknown
        if kind in ('stat', 'lstat', 'access', 'readlink', 'statvfs'):
            return 'probe'
        if kind in ('listdir', 'scandir'):
            return 'list'
        if kind in ('remove', 'unlink', 'rmdir', 'rename', 'replace', 'mkdir', 'makedirs', 'truncate'):
            return kind
        return kind

    def mount_class(self, p):
        """Spelling class of the drive a DOS path addresses (None: plain, or no path)."""
        if p is None:
            return None
        drv = aupper(p[0]) if len(p) >= 2 and p[1] == ':' else self.cfg.get('current', 'C')
        return spell_class(self.cfg.get('spell' + drv)) if drv in ('C', 'D') else None

    def repair_links(self):
        """The other party puts the symbolic links back where they were (after a statement moved one)."""
        for root in self.roots:
            for dirpath, dirnames, filenames in os.walk(root):
                dirnames.sort()
                for nm in sorted(dirnames + filenames):
                    if os.path.islink(os.path.join(dirpath, nm)):
                        os.remove(os.path.join(dirpath, nm))
        for link, target in zip(self.links, ('mountC', self.mounts['D'])):
            if not os.path.islink(link) and not os.path.lexists(link):
                os.symlink(target, link)

    def check_monitor(self, what, shape, p=None):
        run = self.run
        mcls = self.mount_class(p)
        if mcls:
            shape += ':mount-' + mcls
        if self.fs.calls or self.fs.audit:
            self.n_monitored += 1
        seen = set()
        for src, recs in (('wrapper', self.fs.calls), ('audit', self.fs.audit)):
            for kind, rp in recs:
                z = self.zone(rp)
                if z is None or self.allowed(kind, rp):
                    continue
                kc = self.kind_class(kind)
                key = (kc, z)
                if key in seen:
                    continue
                seen.add(key)
                run.probe('outside-call')
                self.causes.add(shape)
                # (the link a drive is mounted through is one place, whatever path led the statement to it)
                run.violate('C27', 'outside-mount:%s:%s' % (kc, z) + (':' + shape if z != 'mount-point-symlink' else ''),
                            '%s made a host call outside every mount: %s(%s) [seen by %s]; statement: %r' % (
                                what.split(' ')[0], kind, self.rel(rp), src, what))
                if z == 'mount-point-symlink':
                    self.repair_links()

    def rel(self, rp):
        if rp is not None and rp.startswith(self.scratch):
            return '<scratch>' + rp[len(self.scratch):]
        return rp

    def cause(self):
        """Path shapes of the outside calls seen so far in this run ('unmonitored' if none was seen)."""
        return '+'.join(sorted(self.causes)) or 'unmonitored'

    def check_output(self, what, out):
        for m in MARKERS:
            if m in out:
                self.run.violate('C27', 'sentinel-disclosed:output:' + self.cause(), 'marker %r of a file outside the mounts in the output '
                                 'of %r: %r' % (m, what, self.mask(out)[:300]))

    def final_checks(self):
        run = self.run
        now = self.sentinel_snapshot()
        if now != self.sent0:
            changed = sorted(k for k in set(now) | set(self.sent0) if now.get(k) != self.sent0.get(k))
            kinds = set()
            for k in changed:
                kinds.add('created' if k not in self.sent0 else 'deleted' if k not in now else 'modified')
            run.violate('C27', 'sentinel-changed:%s:%s' % ('+'.join(sorted(kinds)), self.cause()),
                        'outside the mounts, changed: %r' % ([(k, self.sent0.get(k, ('absent',))[0], now.get(k, ('absent',))[0])
                                                              for k in changed[:8]],))
        for root in self.roots:
            for dirpath, dirnames, filenames in os.walk(root):
                dirnames.sort()
                for fn in sorted(filenames):
                    try:
                        with simfs.real_open(os.path.join(dirpath, fn), 'rb') as f:
                            data = f.read()
                    except OSError:
                        continue
                    for m in MARKERS:
                        if m in data:
                            run.violate('C27', 'sentinel-disclosed:copied-into-mount:' + self.cause(),
                                        'marker %r found in %s' % (m, self.rel(os.path.join(dirpath, fn))))


###############################################################################
# statements

def _stmt(kind, P, Q, uid, num=2):
    """BASIC line (bytes) for a statement kind; P, Q are string expressions, num a file number for keep_*/io_*."""
    n = b'%d' % uid
    if kind == 'open_o':
        return b'OPEN ' + P + b' FOR OUTPUT AS 1:PRINT#1,"10 PRINT ' + n + b'":CLOSE 1'
    if kind == 'open_a':
        return b'OPEN ' + P + b' FOR APPEND AS 1:PRINT#1,"20 PRINT ' + n + b'":CLOSE 1'
    if kind == 'open_i':
        return b'OPEN ' + P + b' FOR INPUT AS 1:LINE INPUT#1,A$:PRINT A$:CLOSE 1'
    if kind == 'open_r':
        return (b'OPEN ' + P + b' AS 1 LEN=18:FIELD#1,18 AS F$:GET#1,1:PRINT F$:LSET F$="10 PRINT ' + n +
                b'":PUT#1,1:CLOSE 1')
    if kind == 'open_old':
        return b'OPEN "O",1,' + P + b':PRINT#1,"10 PRINT ' + n + b'":CLOSE 1'
    if kind == 'load':
        return b'LOAD ' + P
    if kind == 'run':
        return b'RUN ' + P
    if kind == 'merge':
        return b'MERGE ' + P
    if kind == 'chain':
        return b'CHAIN ' + P
    if kind == 'save':
        return b'SAVE ' + P
    if kind == 'save_a':
        return b'SAVE ' + P + b',A'
    if kind == 'save_p':
        return b'SAVE ' + P + b',P'
    if kind == 'bload':
        return b'DEF SEG=&HB800:BLOAD ' + P + b',0'
    if kind == 'bsave':
        return b'DEF SEG=&HB800:BSAVE ' + P + b',0,8'
    if kind == 'kill':
        return b'KILL ' + P
    if kind == 'name':
        return b'NAME ' + P + b' AS ' + Q
    if kind in ('files', 'files_mask'):
        return b'FILES' if P is None else b'FILES ' + P
    if kind == 'mkdir':
        return b'MKDIR ' + P
    if kind == 'rmdir':
        return b'RMDIR ' + P
    if kind == 'chdir':
        return b'CHDIR ' + P
    f = b'%d' % num
    if kind == 'keep_i':
        return b'OPEN ' + P + b' FOR INPUT AS ' + f
    if kind == 'keep_o':
        return b'OPEN ' + P + b' FOR OUTPUT AS ' + f
    if kind == 'keep_a':
        return b'OPEN ' + P + b' FOR APPEND AS ' + f
    if kind == 'keep_r':
        return b'OPEN ' + P + b' AS ' + f + b' LEN=18'
    if kind == 'io_in':
        return b'LINE INPUT#' + f + b',A$:PRINT A$'
    if kind == 'io_out':
        return b'PRINT#' + f + b',"30 PRINT ' + n + b'"'
    if kind == 'io_get':
        return b'FIELD#' + f + b',18 AS F$:GET#' + f + b',1:PRINT F$'
    if kind == 'io_put':
        return b'FIELD#' + f + b',18 AS F$:LSET F$="10 PRINT ' + n + b'":PUT#' + f + b',1'
    if kind == 'io_close':
        return b'CLOSE ' + f
    if kind == 'io_eof':
        return b'PRINT EOF(' + f + b');LOF(' + f + b');LOC(' + f + b')'
    raise K.HarnessError('unknown statement kind %r' % (kind,))


CREATORS = ('open_o', 'open_a', 'open_r', 'open_old', 'save', 'save_a', 'save_p', 'bsave')
READERS = ('open_i', 'load', 'run', 'merge', 'chain', 'bload')
PROGRAM_KINDS = ('load', 'run', 'merge', 'chain', 'save', 'save_a', 'save_p')


SHAPE_RANK = ['element-dotdot-blank', 'leaf-dotdot', 'has-dotdot', 'host-absolute', 'leaf-dot', 'trailing-sep',
              'wildcard', 'plain', 'none']


def path_shape(p):
    """Coarse class of a path string, for signatures and state abstraction."""
    if p is None:
        return 'none'
    elems = re.split(r'[\\/:]', p)
    leaf = elems[-1]
    if any(re.match(r'^\.\.[ \t\r\n\x0b\x0c]+$', e) for e in elems[:-1]):
        return 'element-dotdot-blank'
    if leaf.rstrip(' \t\r\n\x0b\x0c') == '..':
        return 'leaf-dotdot'
    if leaf.rstrip(' \t\r\n\x0b\x0c') == '.':
        return 'leaf-dot'
    if leaf == '' and p:
        return 'trailing-sep'
    if '..' in p:
        return 'has-dotdot'
    if PH_B in p or PH_N in p:
        return 'host-absolute'
    if '*' in p or '?' in p:
        return 'wildcard'
    return 'plain'


def do_statement(env, op):
    """Run one statement op under the monitor. Returns (Res, statement text as logged)."""
    run = env.run
    kind = op['k']
    p, q = op.get('p'), op.get('q')
    exprs = []
    if kind in ('save', 'save_a', 'save_p'):
        env.X(b'NEW')
        env.X(b'10 PRINT %d' % op['uid'])
    # C28: the same directory reached through a path (the name rules must not depend on how the directory is spelled)
    pfx = op.get('pfx')
    if pfx:
        p = pfx + p if p is not None else p
        q = pfx + q if q is not None else q
    for var, s in ((b'P$', p), (b'Q$', q)):
        if s is None:
            exprs.append(None)
            continue
        lit = _basic_str(b(s))
        if lit is None or len(b(s)) > 120:
            env.setvar(var, b(s)[:255])
            exprs.append(var)
            run.probe('path-via-variable')
        else:
            exprs.append(lit)
    num = op.get('n', 2)
    if kind.startswith('keep_') and exprs[0] is None:
        exprs[0] = b'""'
    line = _stmt(kind, exprs[0], exprs[1], op['uid'], num if isinstance(num, int) and 1 <= num <= 3 else 2)
    what = u(line)
    if exprs[0] == b'P$':
        what += ' [P$=%r]' % (p,)
    if exprs[1] == b'Q$':
        what += ' [Q$=%r]' % (q,)
    for drv in sorted(env.spec):
        if env.cfg.get('spell' + drv, SPELL_PLAIN) != SPELL_PLAIN:
            what += ' [%s: mounted as %r]' % (drv, env.rel(env.spec[drv]))
    r = env.X(line)
    if kind.startswith('keep_') and r.err is None:
        env.kept.add(num)
    elif kind == 'io_close':
        env.kept.discard(num)
    elif kind in PROGRAM_KINDS and kind != 'merge':
        env.kept.clear()
    shape = path_shape(p)
    if kind == 'name' and SHAPE_RANK.index(path_shape(q)) < SHAPE_RANK.index(shape):
        shape = path_shape(q)
    if env.cwd_escaped:
        # an earlier CHDIR already left the mount: what follows is a consequence, not a new class
        shape = 'after-cwd-escape'
    before = len(run.res['violations'])
    env.check_monitor(what, shape, p)
    if kind == 'chdir' and r.err is None and len(run.res['violations']) > before:
        env.cwd_escaped = True
    env.check_output(what, env.mask(r.out))
    extra = None
    if kind == 'load' and r.err is None:
        extra = env.X(b'LIST')
        env.check_output(what + ' + LIST', env.mask(extra.out))
    # leave the statement's own file number closed, whatever happened (#2 and #3 are the histories' to keep open)
    c = env.X(b'CLOSE 1')
    env.check_monitor('CLOSE 1 after ' + what, shape, p)
    return r, what, extra


def _named(env, name):
    """Every entry inside the mounted trees whose name is `name` up to capitalisation, deepest first."""
    found = []
    for root in env.roots:
        for dirpath, dirnames, filenames in os.walk(root):
            dirnames.sort()
            for nm in sorted(dirnames) + sorted(filenames):
                if aupper(nm) == aupper(name):
                    found.append(os.path.join(dirpath, nm))
    return sorted(found, key=lambda x: (-x.count(os.sep), x))


def do_host(env, op, when='between'):
    """The other party changes a mount between two statements or while the session is down."""
    import shutil
    run = env.run
    act = op['act']
    drv = op.get('d') if op.get('d') in env.root else 'C'
    root = env.root[drv]
    path = os.path.join(root, op.get('p') or '')
    done = False
    try:
        if act == 'unmount':
            # the medium is taken out: the drive's directory is no longer where it was mounted
            if drv not in env.gone and os.path.isdir(root):
                os.rename(root, os.path.join(env.away, drv))
                env.gone[drv] = os.path.join(env.away, drv)
                done = True
        elif act == 'remount':
            if drv in env.gone and not os.path.lexists(root) and os.path.isdir(os.path.dirname(root)):
                os.rename(env.gone.pop(drv), root)
                done = True
        elif act == 'vanish-name':
            for x in _named(env, op.get('name', '')):
                if os.path.isdir(x):
                    shutil.rmtree(x)
                    done = True
                elif os.path.lexists(x):
                    os.remove(x)
                    done = True
        elif act == 'rename-name':
            for x in _named(env, op.get('name', '')):
                dst = os.path.join(os.path.dirname(x), op.get('q') or 'MOVED.OLD')
                if os.path.lexists(x) and not os.path.lexists(dst):
                    os.rename(x, dst)
                    done = True
        elif act == 'appear':
            done = not os.path.lexists(path) and env.host_make(op['d'], op['p'], 'f', op['uid'])
        elif act == 'appear_dir':
            done = not os.path.lexists(path) and env.host_make(op['d'], op['p'], 'd', op['uid'])
        elif act == 'vanish':
            if os.path.isdir(path) and op.get('p'):
                shutil.rmtree(path)
                done = True
            elif os.path.lexists(path):
                os.remove(path)
                done = True
        elif act == 'rename':
            dst = os.path.join(root, op['q'])
            if os.path.lexists(path) and not os.path.lexists(dst) and os.path.isdir(os.path.dirname(dst)):
                os.rename(path, dst)
                done = True
    except (OSError, ValueError):
        done = False
    env.w.log.add('host', when, act, op.get('d'), op.get('p'), op.get('name'), op.get('q'), done)
    if done:
        run.fault((act if act != 'appear_dir' else 'appear') + ('-while-suspended' if when == 'down' else ''))
    return done


###############################################################################
# C28 judgement

_NUM = re.compile(br'(?<!\d)([1-3]\d{6})(?!\d)')


def canon(name):
    """Upper-case form of an ASCII host or DOS name; a single trailing dot is the dotless name."""
    up = aupper(name)
    if up.endswith('.') and up.count('.') == 1:
        up = up[:-1]
    return up


def candidates(listing, E, kind='f'):
    return sorted(n for n, v in listing.items() if v[0] == kind and n.isascii() and canon(n) == E)


def uids_in(data):
    return set(int(x) for x in _NUM.findall(data))


def parse_files(out):
    """FILES output -> (cwd line, [(TRUNK, EXT, isdir)]) or None if it does not parse."""
    lines = out.split(b'\r\n')
    if not lines:
        return None
    entries = []
    for ln in lines[1:]:
        if b'Bytes free' in ln:
            break
        i = 0
        while i < len(ln):
            cell = ln[i:i + 17]
            if len(cell) < 17 or cell[12:17] not in (b'<DIR>', b'     ') or ln[i + 17:i + 18] not in (b'', b' '):
                return None
            entries.append((u(cell[:8]).rstrip(' '), u(cell[9:12]).rstrip(' '), cell[12:17] == b'<DIR>'))
            i += 18
    return lines[0], entries


class Judge28(object):
    def __init__(self, env):
        self.env = env
        self.run = env.run
        cfg = env.cfg
        self.root = env.mounts['C']
        # the model of the drive's working directory: host names from the root down; known=False while
        # the property does not say where it is (its directory was removed, an ambiguous CHDIR succeeded)
        self.cwd = [e for e in (cfg.get('cwdC') or '').split('/') if e]
        self.known = True
        self.basic_made = set()

    @property
    def dir(self):
        return os.path.join(self.root, *self.cwd)

    def violate(self, sig, detail):
        self.run.violate('C28', sig, detail)

    # -- the working directory --------------------------------------------

    def dos_cwd(self, hostlist=None):
        """DOS spelling of a directory given as host names, or None if a name is not a legal 8.3 name."""
        names = self.cwd if hostlist is None else hostlist
        if any(not n.isascii() or strictly_legal(n) is None for n in names):
            return None
        return [canon(n) for n in names]

    def set_cwd(self, hostlist):
        if hostlist != self.cwd:
            self.cwd = list(hostlist)
            self.basic_made = set()

    def walk(self, elems, start):
        """
        Follow DOS path elements from a directory (host names): ('ok' | 'missing' | 'unclear', host names).
        'unclear': an element that is not a strictly legal name, or that several host directories stand for.
        """
        at = list(start)
        for e in elems:
            if e in ('', '.'):
                continue
            if e == '..':
                del at[-1:]
                continue
            if strictly_legal(e) is None:
                return 'unclear', at
            listing = self.env.list_dir(os.path.join(self.root, *at))
            if listing is None:
                return 'missing', at
            E = canon(aupper(e))
            Dd = candidates(listing, E, 'd')
            if len(Dd) > 1 or (not Dd and candidates(listing, E, 'f')):
                return 'unclear', at
            if not Dd:
                return 'missing', at
            at.append(Dd[0])
        return 'ok', at

    def header(self):
        """The working directory as BASIC shows it (first line of a FILES that matches nothing)."""
        r = self.env.X(b'FILES "ZQ$CWD$Q.$Q$"')
        self.env.check_monitor('FILES "ZQ$CWD$Q.$Q$"', 'plain')
        line = r.out.split(b'\r\n')[0]
        return u(line) if line[1:3] == b':\\' else None

    def audit(self, op, r, what):
        """Wherever the model says the working directory is, BASIC must say the same and use it."""
        env, run = self.env, self.run
        if not self.known:
            return
        if not os.path.isdir(self.dir):
            # the working directory itself is gone (removed from BASIC or by the other party): the property is silent
            self.known = False
            run.probe('cwd-directory-gone')
            return
        want = self.dos_cwd()
        outcome = 'ok' if r.err is None else 'err%d' % r.err
        if want is not None:
            hdr = self.header()
            run.probe('cwd-header-checked')
            exp = 'C:\\' + '\\'.join(want)
            if hdr is not None and hdr != exp:
                self.violate('working-directory-moved:after-%s:%s' % (op['k'], outcome),
                             'FILES shows %r, the working directory was %r and only a successful CHDIR changes it; after %s '
                             '-> err %r' % (hdr, exp, what, r.err))
                self.known = False
                return
        if op.get('probe'):
            # a file created under a bare name lands in the working directory
            name = 'ZQ%06d.PRB' % (op['uid'] % 1000000)
            before = env.list_dir(self.dir)
            r2 = env.X(b'OPEN "' + b(alower(name)) + b'" FOR OUTPUT AS 1:PRINT#1,"10 PRINT 1":CLOSE 1')
            env.check_monitor('OPEN "%s" FOR OUTPUT' % alower(name), 'plain')
            env.X(b'CLOSE 1')
            after = env.list_dir(self.dir)
            run.probe('cwd-probe-file')
            found = []
            for dirpath, dirnames, filenames in os.walk(self.root):
                dirnames.sort()
                for fn in sorted(filenames):
                    if aupper(fn) == name:
                        found.append(os.path.relpath(os.path.join(dirpath, fn), self.root))
                        os.remove(os.path.join(dirpath, fn))
            if before is not None and after is not None and (r2.err is not None or name not in after or name in before):
                self.violate('bare-name-not-in-working-directory:after-%s:%s' % (op['k'], outcome),
                             'after %s -> err %r, OPEN "%s" FOR OUTPUT -> err %r made host file(s) %r; the working directory is %r' % (
                                 what, r.err, alower(name), r2.err, found, os.path.relpath(self.dir, self.root)))
                self.known = False

    def dir_step(self, op):
        """CHDIR / MKDIR / RMDIR with a path: effect on the host tree and on the working directory."""
        env, run = self.env, self.run
        kind, p = op['k'], op.get('p') or ''
        elems = p.split('\\')
        start = [] if p.startswith('\\') else self.cwd
        # (an absolute CHDIR does not depend on where the working directory was: it also ends a spell of not knowing)
        judged = (self.known or (kind == 'chdir' and p.startswith('\\'))) and '/' not in p and ':' not in p
        status, target, parent, E, before, empty = 'unclear', None, None, None, None, False
        if judged:
            if kind == 'chdir':
                status, target = self.walk(elems, start)
            elif [e for e in elems if e] and elems[-1] not in ('', '.', '..') and strictly_legal(elems[-1]) is not None:
                status, parent = self.walk(elems[:-1], start)
                E = canon(aupper(elems[-1]))
                before = env.list_dir(os.path.join(self.root, *parent)) if status == 'ok' else None
                if before is not None and len(candidates(before, E, 'd')) == 1:
                    empty = env.list_dir(os.path.join(self.root, *(parent + candidates(before, E, 'd')))) == {}
        r, what, _ = do_statement(env, op)
        ctx = '%s -> err %r (working directory %r)' % (what, r.err, '\\'.join(self.cwd))
        outcome = 'no-error' if r.err is None else 'err%d' % r.err
        if kind == 'chdir' and judged:
            if status == 'ok':
                if r.err is not None:
                    self.violate('chdir-existing-directory-failed:' + outcome,
                                 'host directory %r exists and every name on the way is a legal 8.3 name: %s' % ('/'.join(target), ctx))
                else:
                    self.set_cwd(target)
                    self.known = True
            elif r.err is None:
                if status == 'missing':
                    self.violate('chdir-missing-directory-accepted', 'no host directory stands for this path: ' + ctx)
                self.known = False
        elif judged and before is not None:
            after = env.list_dir(os.path.join(self.root, *parent))
            if after is not None:
                created = sorted(n for n in after if n not in before)
                removed = sorted(n for n in before if n not in after)
                S, Dd = candidates(before, E), candidates(before, E, 'd')
                ctx += '; host directory %r before %r, created %r removed %r' % ('/'.join(parent), sorted(before), created, removed)
                if kind == 'mkdir':
                    if not S and not Dd:
                        if r.err is not None:
                            self.violate('mkdir-legal-name-failed:' + outcome, 'nothing stands for this name, it is legal 8.3: ' + ctx)
                        elif created != [E] or removed or after[E][0] != 'd':
                            sig = 'created-not-upper-case:mkdir' if len(created) == 1 and canon(created[0]) == E else 'mkdir-wrong-effect'
                            self.violate(sig, 'expected exactly host directory %r to appear: %s' % (E, ctx))
                    elif created or removed:
                        self.violate('mkdir-existing-name-changed-directory', ctx)
                elif kind == 'rmdir':
                    here = os.path.join(self.root, *self.cwd) + os.sep
                    tgt = os.path.join(self.root, *(parent + Dd[:1])) + os.sep
                    if len(Dd) == 1 and not S and not here.startswith(tgt):
                        if empty and r.err is not None:
                            self.violate('rmdir-existing-empty-directory-failed:' + outcome, ctx)
                        elif created or (removed != Dd if empty and r.err is None else removed):
                            self.violate('rmdir-wrong-effect', 'expected %s: %s' % ('removal of %r only' % Dd if empty else 'no change', ctx))
                    elif not Dd and (r.err is None or created or removed):
                        self.violate('rmdir-missing-directory:' + outcome, 'expected an error and no change: ' + ctx)
        run.state('C28', kind, status, r.err, len(self.cwd), self.known, path_shape(p))
        self.audit(op, r, what)

    def effective(self, kind, N):
        """Upper-case host name a strictly legal DOS name stands for in this statement, or None."""
        sl = strictly_legal(N)
        if sl is None:
            return None
        t, x = sl
        if '.' not in N:
            if kind in PROGRAM_KINDS:
                x = 'BAS'
            elif kind in ('bload', 'bsave'):
                return None      # GW-BASIC's default extension for BLOAD/BSAVE: the property is silent
        return t + ('.' + x if x else '')

    def step(self, op):
        env, run = self.env, self.run
        if op['k'] in ('chdir', 'mkdir', 'rmdir'):
            return self.dir_step(op)
        if op.get('pfxk') and self.dos_cwd() is not None:
            # the working directory spelled out (the name rules do not depend on how the directory is reached)
            names = self.dos_cwd()
            op = dict(op, pfx={'dot': '.\\', 'abs': '\\' + ''.join(n + '\\' for n in names),
                               'up': '..\\' + names[-1] + '\\' if names else '\\'}.get(op['pfxk'], '.\\'))
        kind, N, M = op['k'], op.get('p'), op.get('q')
        if not self.known:
            # where bare names lead is not defined by the property just now: monitor and crash check only
            do_statement(env, op)
            return
        before = env.list_dir(self.dir)
        r, what, extra = do_statement(env, op)
        after = env.list_dir(self.dir)
        if op.get('audit'):
            self.audit(op, r, what)
        if before is None or after is None:
            return
        self.basic_made &= set(before)
        created = sorted(n for n in after if n not in before)
        removed = sorted(n for n in before if n not in after)
        changed = sorted(n for n in after if n in before and after[n] != before[n])
        ctx = '%s -> err %r; host dir before %r; created %r removed %r changed %r' % (
            what, r.err, sorted(before), created, removed, changed)
        unchanged = not (created or removed or changed)
        if kind in ('save', 'save_a') and r.err is None:
            for n in created + changed:
                if after[n][0] == 'f':
                    env.uid_by_content[after[n][1]] = op['uid']
        out = env.mask(r.out) + (env.mask(extra.out) if extra is not None else b'')
        ncls = 'none'
        nS = -1
        if kind == 'files':
            ncls = 'listing'
            self.judge_files(op, r, before, ctx)
        elif N is not None and ('*' in N or '?' in N) and kind in ('kill', 'files_mask'):
            ncls = 'wildcard'
        elif N is not None and strictly_legal(N) is not None:
            ncls = 'legal'
            E = self.effective(kind, N)
            if E is not None:
                nS = self.judge_legal(op, E, r, out, before, after, created, removed, changed, ctx)
            else:
                ncls = 'legal-ext-unspecified'
        elif N is not None and clearly_illegal(N):
            ncls = 'illegal'
            if kind in CREATORS + READERS + ('name',) and N not in before:
                if r.err != 64:
                    self.violate('illegal-name-accepted:%s:%s' % (kind, 'no-error' if r.err is None else 'err%d' % r.err),
                                 'a name with a character DOS forbids must give Bad file name (64): ' + ctx)
                elif not unchanged:
                    self.violate('illegal-name-changed-directory', ctx)
        else:
            ncls = 'weak'
        if kind == 'name' and ncls == 'legal' and M is not None and clearly_illegal(M) and M not in before:
            E = self.effective(kind, N)
            if candidates(before, E) and (r.err != 64 or not unchanged):
                self.violate('illegal-name-accepted:name-target:%s' % ('no-error' if r.err is None else 'err%d' % r.err),
                             'NAME to a name with a forbidden character must give Bad file name (64) and change nothing: ' + ctx)
        # capitalisation consistency for any accepted name (property clause a), text creators only
        # (syntactically legal names only, reserved device names included: a host file did get created
        # under that name; for over-long, multi-dot, blank-padded or high-byte names the property is silent)
        if (kind in ('open_o', 'open_old', 'save_a') and r.err is None and len(created) == 1 and not changed
                and not removed and N and strictly_legal(N, devices_too=True) is not None
                and after[created[0]][0] == 'f'):
            variant = aswap(N)
            if variant != N:
                r2, what2, x2 = do_statement(env, {'k': 'load' if kind == 'save_a' else 'open_i', 'p': variant, 'uid': op['uid'],
                                                   'pfx': op.get('pfx')})
                want = uids_in(after[created[0]][1])
                got = uids_in(env.mask(r2.out) + (env.mask(x2.out) if x2 is not None else b''))
                run.probe('recase-readback')
                if r2.err is not None or not (want & got):
                    sub = 'device-name' if aupper(N).partition('.')[0].strip() in DOS_DEVICES else ncls
                    self.violate('created-file-not-opened-by-other-capitalisation:%s' % sub,
                                 '%s created host file %r; then %s -> err %r, read %r, wanted %r' % (
                                     what, created[0], what2, r2.err, sorted(got), sorted(want)))
        self.basic_made |= set(created)
        run.state('C28', kind, ncls, r.err, min(nS, 2), bool(created), bool(removed), bool(changed), env.cfg.get('arm'))

    # ------------------------------------------------------------------

    def preferred(self, S):
        """With colliding host names: the member created from BASIC in this run, if exactly one is."""
        made = [n for n in S if n in self.basic_made]
        return made[0] if len(S) > 1 and len(made) == 1 else None

    def judge_legal(self, op, E, r, out, before, after, created, removed, changed, ctx):
        kind, N = op['k'], op['p']
        S = candidates(before, E)
        Dd = candidates(before, E, 'd')
        unchanged = not (created or removed or changed)
        run = self.run
        if len(S) > 1:
            run.probe('colliding-candidates')
        if S and any(n != E for n in S):
            run.probe('case-variant-candidate')
        pref = self.preferred(S)
        if kind in CREATORS:
            if Dd:
                run.probe('dir-collision')
                return len(S)
            if not S:
                if r.err is not None:
                    self.violate('create-legal-name-failed:%s:err%d' % (kind, r.err),
                                 'no host entry matches, the name is legal 8.3, creation must succeed: ' + ctx)
                elif created != [E] or removed or changed:
                    if len(created) == 1 and created[0] != E and canon(created[0]) == E:
                        sig = 'created-not-upper-case'
                    elif len(created) == 1 and canon(created[0]) == E + '.BAS':
                        sig = 'bas-extension-added:%s' % ('name-has-dot' if '.' in N else 'data-file')
                    elif len(created) == 1 and E.endswith('.BAS') and canon(created[0]) == E[:-4]:
                        sig = 'bas-extension-missing'
                    else:
                        sig = 'create-wrong-effect'
                    self.violate(sig + ':' + kind, 'expected exactly host file %r to appear: %s' % (E, ctx))
            else:
                if r.err is not None:
                    self.violate('overwrite-existing-failed:%s:err%d' % (kind, r.err), ctx)
                elif created or removed or not set(changed) <= set(S) or len(changed) > 1:
                    sig = 'create-duplicates-existing-case-variant' if created else 'create-wrong-effect'
                    self.violate(sig + ':' + kind, 'host file(s) %r stand for this DOS name; exactly one of them should '
                                 'have been (over)written: %s' % (S, ctx))
                elif pref is not None and changed and changed != [pref]:
                    self.violate('case-variant-acts-on-other-file:colliding-host-names:' + kind,
                                 'host file %r was created from BASIC under this DOS name, but %r was written: %s' % (pref, changed, ctx))
            return len(S)
        if kind in READERS:
            if Dd:
                return len(S)
            if not S:
                if r.err != 53:
                    self.violate('missing-file-not-reported:%s:%s' % (kind, 'no-error' if r.err is None else 'err%d' % r.err),
                                 'no host file stands for this name, expected File not found (53): ' + ctx)
                elif not unchanged:
                    self.violate('read-changed-directory:' + kind, ctx)
                return 0
            if r.err in (53, 64):
                self.violate('existing-file-not-found:%s:err%d' % (kind, r.err),
                             'host file(s) %r stand for this DOS name: %s' % (S, ctx))
                return len(S)
            if kind in ('open_i', 'load', 'run'):
                members = [pref] if pref is not None else S
                want = set()
                known = True
                for n in members:
                    data = before[n][1]
                    if data in self.env.uid_by_content and kind != 'open_i':
                        want.add(self.env.uid_by_content[data])
                    elif re.match(br'[12]0 PRINT \d{7}', data) and (data.endswith(b'\r\n') or kind == 'open_i'):
                        want |= uids_in(data)
                    else:
                        known = False
                got = uids_in(out)
                if known and r.err is None:
                    run.probe('content-read-back')
                    if not (want & got):
                        others = sorted(n for n, v in before.items() if v[0] == 'f' and n not in members and uids_in(v[1]) & got)
                        if pref is not None and (any(n in S for n in others) or not got):
                            # two host files share the DOS name and the other one was read (its content may carry
                            # no number at all): the known consequence of exact-spelling-first matching
                            sig = 'case-variant-acts-on-other-file:colliding-host-names:' + kind
                        elif others:
                            sig = 'opened-non-matching-host-file:' + kind
                        else:
                            sig = 'read-back-wrong-content:' + kind
                        self.violate(sig, 'expected content of %r (numbers %r), read %r (host files holding them: %r): %s' % (
                            members, sorted(want), sorted(got), others, ctx))
            return len(S)
        if kind == 'kill':
            if not S:
                if r.err != 53 or not unchanged:
                    self.violate('kill-missing:%s' % ('no-error' if r.err is None else 'err%d' % r.err),
                                 'expected File not found (53) and no change: ' + ctx)
                return 0
            if r.err is not None:
                if r.err in (53, 64):
                    self.violate('existing-file-not-found:kill:err%d' % r.err, 'host file(s) %r stand for this DOS name: %s' % (S, ctx))
            elif created or changed or not removed or not set(removed) <= set(S) or (len(S) == 1 and removed != S):
                self.violate('kill-wrong-effect', 'expected removal of %r only: %s' % (S, ctx))
            elif pref is not None and pref not in removed:
                self.violate('case-variant-acts-on-other-file:colliding-host-names:kill',
                             'host file %r was created from BASIC under this DOS name, but %r was removed: %s' % (pref, removed, ctx))
            return len(S)
        if kind == 'name':
            M = op.get('q')
            if not S and not Dd:
                if r.err != 53 or not unchanged:
                    # an illegal target is parsed after the existence check in GW-BASIC; 53 comes first
                    self.violate('name-missing-source:%s' % ('no-error' if r.err is None else 'err%d' % r.err),
                                 'expected File not found (53) and no change: ' + ctx)
                return 0
            if r.err is not None and not unchanged:
                self.violate('failed-name-changed-directory', ctx)
            EM = self.effective('name', M) if M is not None and strictly_legal(M) else None
            if S and not Dd and EM is not None and EM != E and not candidates(before, EM) and not candidates(before, EM, 'd'):
                if r.err is not None:
                    self.violate('rename-legal-names-failed:err%d' % r.err, 'source %r exists, target %r is free: %s' % (S, EM, ctx))
                elif (created != [EM] or len(removed) != 1 or removed[0] not in S or changed
                        or after[EM] != before[removed[0]]):
                    sig = 'renamed-not-upper-case' if len(created) == 1 and canon(created[0]) == EM else 'rename-wrong-effect'
                    self.violate(sig, 'expected one of %r to become %r with the same content: %s' % (S, EM, ctx))
                elif pref is not None and removed != [pref]:
                    self.violate('case-variant-acts-on-other-file:colliding-host-names:name',
                                 'host file %r was created from BASIC under this DOS name, but %r was renamed: %s' % (pref, removed, ctx))
            return len(S)
        if kind == 'files_mask':
            parsed = parse_files(r.out) if r.err is None else None
            if not S and not Dd:
                if r.err != 53:
                    self.violate('files-missing-name:%s' % ('no-error' if r.err is None else 'err%d' % r.err),
                                 'expected File not found (53): ' + ctx)
            elif r.err is not None or parsed is None:
                self.violate('files-existing-name-not-listed:%s' % ('unparsable' if r.err is None else 'err%d' % r.err), ctx)
            else:
                names = [(t + ('.' + x if x else '')) or '.' for t, x, _ in parsed[1]]
                if not names or any(canon(n) != E for n in names) or len(names) > len(S) + len(Dd):
                    self.violate('files-mask-lists-wrong-names', 'listed %r, host has %r: %s' % (names, S + Dd, ctx))
            return len(S)
        return len(S)

    def judge_files(self, op, r, before, ctx):
        run = self.run
        if r.err is not None:
            self.violate('files-failed:err%d' % r.err, ctx)
            return
        parsed = parse_files(r.out)
        if parsed is None:
            self.violate('files-output-unparsable', '%r' % (self.env.mask(r.out)[:400],))
            return
        entries = parsed[1]
        listed = [((t + ('.' + x if x else '')) or '.', isd) for t, x, isd in entries]
        visible = [n for n in before if not n.startswith('.')]
        n_listed = len([1 for nm, isd in listed if nm not in ('.', '..')])
        if not (len(visible) <= n_listed <= len(before)):
            self.violate('files-entry-count', 'host directory has %d visible entries %r, FILES listed %d: %r' % (
                len(visible), visible, n_listed, listed))
        run.probe('files-listing-checked')
        for n in visible:
            if n.isascii() and strictly_legal(n) is not None:
                want = (canon(n), before[n][0] == 'd')
                if not any(canon(nm) == want[0] and isd == want[1] for nm, isd in listed):
                    self.violate('files-omits-legal-host-name:%s' % ('dir' if want[1] else 'file'),
                                 'host entry %r is a legal 8.3 name but is not listed as %r: %r' % (n, want[0], listed))
        legal_listed = []
        for nm, isd in listed:
            if nm in ('.', '..') or '+' in nm:
                continue
            if strictly_legal(nm) is not None:
                if not candidates(before, canon(nm), 'd' if isd else 'f'):
                    self.violate('files-lists-name-without-host-entry', 'listed %r, host has %r' % (nm, sorted(before)))
                elif not isd and nm not in legal_listed:
                    legal_listed.append(nm)
        # the listed DOS name must open the file it stands for: sample first, middle, last
        picks = []
        for i in (0, len(legal_listed) // 2, len(legal_listed) - 1):
            if 0 <= i < len(legal_listed) and legal_listed[i] not in picks:
                picks.append(legal_listed[i])
        for nm in picks[:3]:
            run.probe('listed-name-opened')
            self.step({'op': 'st', 'k': 'open_i', 'p': nm, 'uid': op['uid']})


###############################################################################
# safety net: the property under test is confinement, so a violation (found on the unchanged tree:
# a path element '.. ' climbs out of the mount) means the engine really creates and deletes host
# files wherever the path leads. Mutating host calls whose target resolves outside the run's scratch
# tree are therefore refused with EACCES while a run is active (after being recorded for the monitor);
# inside the scratch tree (sentinels) they really happen, so that the sentinel oracle sees them.

_GUARD = {'scratch': None, 'installed': False, 'refused': 0}
_MUT1 = ['mkdir', 'rmdir', 'remove', 'unlink', 'truncate', 'makedirs', 'removedirs', 'chmod', 'utime', 'chown']
_MUT2 = ['rename', 'replace', 'link', 'symlink']


_NOFOLLOW = ('rmdir', 'remove', 'unlink', 'rename', 'replace')


def _note_nofollow(kind, path):
    """
    rename/remove/rmdir act on a final symbolic link itself, while the monitor's records hold the fully
    resolved path: record the entry really operated on as well when the two differ.
    """
    w = K.WORLD
    fs = getattr(w, 'fs', None) if w is not None else None
    if fs is None or not fs.monitor or isinstance(path, int):
        return
    try:
        p = os.fsdecode(os.fspath(path))
        head, tail = os.path.split(p)
        if not tail or tail in ('.', '..') or '\0' in p:
            return
        nf = os.path.join(simfs._realpath(head or '.'), tail)
        if nf != simfs._realpath(p):
            fs.calls.append((kind, nf))
    except Exception:
        return


def _guard_refuse(kind, path):
    scratch = _GUARD['scratch']
    if scratch is None or isinstance(path, int):
        return False
    try:
        rp = simfs._realpath(os.fspath(path))
    except Exception:
        return False
    if isinstance(rp, bytes):
        rp = os.fsdecode(rp)
    if rp == scratch or rp.startswith(scratch + os.sep) or rp == os.devnull:
        return False
    _GUARD['refused'] += 1
    w = K.WORLD
    fs = getattr(w, 'fs', None) if w is not None else None
    if fs is not None:
        fs.note(kind, os.fspath(path))
    return True


def _install_guard():
    import io
    import errno
    import builtins
    if _GUARD['installed']:
        return
    _GUARD['installed'] = True

    def wrap1(name, real):
        def guarded(path, *a, **kw):
            if _GUARD['scratch'] is not None:
                if name in _NOFOLLOW:
                    _note_nofollow(name, path)
                if _guard_refuse(name, path):
                    raise PermissionError(errno.EACCES, 'refused by verification sandbox', os.fspath(path))
            return real(path, *a, **kw)
        guarded.__name__ = name
        return guarded

    def wrap2(name, real):
        def guarded(src, dst, *a, **kw):
            if _GUARD['scratch'] is not None:
                if name in _NOFOLLOW:
                    _note_nofollow(name, src)
                    _note_nofollow(name, dst)
                if _guard_refuse(name, src) | _guard_refuse(name, dst):
                    raise PermissionError(errno.EACCES, 'refused by verification sandbox', os.fspath(src))
            return real(src, dst, *a, **kw)
        guarded.__name__ = name
        return guarded

    def wrap_open(real):
        def guarded(file, mode='r', *a, **kw):
            if (_GUARD['scratch'] is not None and isinstance(mode, str) and set(mode) & set('wax+')
                    and _guard_refuse('open:' + mode, file)):
                raise PermissionError(errno.EACCES, 'refused by verification sandbox', os.fspath(file))
            return real(file, mode, *a, **kw)
        return guarded

    for name in _MUT1:
        if hasattr(os, name):
            setattr(os, name, wrap1(name, getattr(os, name)))
    for name in _MUT2:
        if hasattr(os, name):
            setattr(os, name, wrap2(name, getattr(os, name)))
    g = wrap_open(builtins.open)
    builtins.open = g
    io.open = g


###############################################################################
# run

def run(case):
    _install_guard()
    simfs.install_fs_seams()
    # the engine logs a warning for every file it cannot re-open on resume
    logging.disable(logging.ERROR)

    def body(run):
        cfg = case['cfg']
        env = Env(run, cfg)
        old_cwd = os.getcwd()
        os.chdir(env.proccwd)
        _GUARD['scratch'] = os.path.realpath(env.scratch)
        try:
            with run.w:
                env.start()
                judge = Judge28(env) if cfg.get('mode') == 28 else None
                for op in case['ops']:
                    if op['op'] == 'host':
                        do_host(env, op)
                        continue
                    if op['op'] == 'restart':
                        env.restart(op)
                        continue
                    if judge is not None:
                        judge.step(op)
                    else:
                        r, what, _ = do_statement(env, op)
                        run.state('C27', op['k'], path_shape(op.get('p')), r.err,
                                  bool(op.get('p')) and ':' in op['p'][:6], len(env.fs.calls) > 0)
                        if r.err is None and op['k'] == 'chdir':
                            run.probe('chdir-ok')
                env.close()
                if env.n_monitored:
                    run.probe('runs-with-host-access')
        finally:
            _GUARD['scratch'] = None
            os.chdir(old_cwd)
            K.WORLD = None
            for drv in sorted(env.gone):
                do_host(env, {'op': 'host', 'act': 'remount', 'd': drv}, when='end')
            if os.path.lexists(env.statefile):
                # a suspend or resume that crashed half-way: the state file is the harness's, not a sentinel
                os.remove(env.statefile)
            env.final_checks()

    return execute(case, body)
