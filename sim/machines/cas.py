"""
cas machine - C29: files written to a CAS or WAV cassette image read back intact.

A run is a tape history: 1-4 files written (data files through OPEN "CAS1:name" FOR OUTPUT +
PRINT#/WRITE#, programs through SAVE in tokenised / ASCII / protected form, memory images through
BSAVE), Sessions closed and re-created on the same image ("restart": only the image survives),
files searched by name and read back with the matching statement, and optionally the tail of the
image torn (truncated or one bit flipped, a harness-side operation on the scratch file) between
two Sessions.  A third of the runs ("live" histories) use the tape the way a tape is used: files are
recorded where the head happens to be - behind a file that was just read (over whatever follows), at
the start of a tape that a failed search has rewound, behind a SAVE that failed after its header
had gone to the tape (unprotected SAVE of a protected program with hide_protected) - under names of
up to 12 characters, and the session is suspended and resumed (Session.suspend / Session.resume:
only the state file and the image survive) between two recordings, while a data file is open for
output, or while one is open for input; then a new Session looks for every name ever written.

Reference model: a list of files (name, type, contents) in tape order and a tape position (index of
the next header ahead of the head).  A search for name N with statement S starts at the position,
reports `Skipped.` for every file passed over and `Found.` for the first file whose name is N and
whose type S can read; a search that finds nothing passes over every remaining file, gives Device
Timeout (24) and leaves the tape at its start.  Reading a found file to its end leaves the head
just behind it.  A new Session starts at the beginning of the tape; a resumed one where the
suspended one was.  A file is recorded at the head position and replaces whatever the model had
from there on; what may be left of the replaced files behind the new one is "debris": a search
that runs past the last file of the model into debris, or that matches what a failed SAVE left, is
judged only for what it reports about the files of the model it passes first, for not crashing and
for not leaving the device stuck; if it ends in Device Timeout the tape is at its start again.  The
header a failed SAVE left may or may not be announced as Skipped.  By default ('at' absent) the
executor first reads the files ahead of the head so that the recording lands behind the last file.
Names are compared on their first eight characters, which is all a tape header holds.

Oracles (all through BASIC-visible surfaces: statement output, get_variable, host files written by
BASIC itself on a scratch disk):
  * Found/Skipped messages equal the model's, in tape order; error code equals the model's;
  * data files: bytes read with INPUT$ / LINE INPUT# / INPUT# equal what was written, EOF(1) is
    false before the last item and true after it, one more INPUT$ gives Input past end (62);
  * programs: LIST after LOAD (or MERGE for ASCII files) equals the lines entered before SAVE;
    the type letter in the Found message is the type saved;
  * memory images: BLOAD puts exactly the saved bytes at the requested offset, guard bytes before
    and behind the block are untouched;
  * after a tear: files recorded before the torn region keep satisfying all of the above as long as
    the search does not have to pass through the torn region; anything that touches the torn
    region may fail with any BASIC error or lose a tail, but may not crash the interpreter, give
    Internal error (51), leave the device answering File already open, or deliver bytes that were
    never recorded at that place: a torn data file must read as a prefix of what was written
    (after a bit flip: of what was written with whole records missing), and the last file of the
    tape, if a program or memory image and read without an error, must be what was saved or nothing.

Signature families (stable across seeds; run-specific values are in the detail):
  eof-late:<kind>-len%255==254, next-file-lost-after:..., appended-file-lost-after-reading:...,
  load-error-<n>:..., program-mismatch:ascii-program-len%255==254
                                 one root cause: no final short record when payload+NUL fills the last
                                 255-byte record, the reader runs on into the next record
  stuck-open:after-miss-that-skipped-files, stuck-open:after-error-57
                                 a search that passed over a header and then failed leaves the device
                                 answering File already open
  ghost-header:after-skipped-<kind>  a data record that starts with A5 is announced as a file
  skip-io-error:after-bsave-len==0   passing over a zero-length memory image gives Device I/O error
  bload-drops-final-0x1A, bsave-tandy-last-7-bytes-lost
  data-mismatch / data-short / read-past-end / program-mismatch / memory-mismatch:<kind>, messages:other,
  search-error:<stmt>:expected-<e>-got-<g>, write-error:..., read-error:..., torn-wrong-data:...,
  internal-error, crash:...      everything else (on the unchanged tree only crash:UnboundLocalError@basic/
                                 converter/protect.py:unprotect fires: LOAD of a protected program whose
                                 data record was torn off)
Prefixes put in front of any of these when the files the failing search passes or reads have a history:
  wav-image-created-in-this-session:   the WAV image did not exist when the session started
  cas-recorded-over-used-tape:         CAS image; a file recorded right behind a file that was itself recorded
                                       over earlier recordings (or such a file suspended while open)
  resumed-while-recording:<image>:     the session was suspended and resumed while the tape was recording the
                                       file (open for output) or had just recorded it
  behind-failed-save:                  the search passes what a failed SAVE left

Deliberately left out: what becomes of the files behind a recording that replaced part of the tape
(debris, see above), names with trailing blanks, names that differ only behind the eighth character,
the contents of protected programs loaded with hide_protected beyond what they print when run,
reading a file with a statement of another type, ^Z inside data files
(INPUT$ stops there by specification), CR/LF framing of PRINT#/WRITE# (files written with line
ends are read back with LINE INPUT#/INPUT# only, never compared byte for byte), the seg/offset/
length header fields of ASCII and data files, CHAIN/RUN "CAS1:..".
"""

import os
import struct
import logging

from .. import kernel as K
from .. import simfs
from ..basicdrv import Driver, suspend_resume
from .common import execute, b, u

NAME = 'cas'
PROPS = ('C29',)
RULE = ('one evaluation = one simulated tape history (write 1-4 files, restart, search and read back, '
        'optionally tear the tail; or a live history: record at the head position over what is there, after '
        'failed searches and failed SAVEs, suspend/resume between and inside recordings, then look for every '
        'name); distinct = distinct (image format, op kind, file type, payload length '
        'class [len mod record size near 0/-1/+1, number of records], head position class, torn?, recording over '
        'old files?, rewound?, resumed?) tuples; '
        'non-trivial = at least one file was searched for by name in a Session other than the one that wrote it')
REAL = ['pcbasic.basic (whole package)', 'pcbasic.basic.devices.cassette (CASDevice, CassetteStream, '
        'CASBitStream, WAVBitStream)', 'pcbasic.basic.devices.disk (scratch C: used to move memory blocks)',
        'host tmpfs for the tape image']
REAL.append('Session.suspend / Session.resume through a state file on tmpfs (pcbasic.basic.state)')
STUB = ['wall clock (simulated)', 'interface queues (simulated, recording)',
        'the tear (truncate / bit flip of the image file between two Sessions is done by the harness)']
ASSUMPTIONS = [
    'the first 4000 bytes of text pages 1..3 of the default CGA text mode (B800:1000, :2000, :3000) are plain memory '
    'that nothing else writes',
    'PRINT#/WRITE# to CAS1: end a line with CR only (used only to steer lengths and to name the length class '
    'in a signature, never to judge contents)',
]
BATCH = 10

VSEG = 0xB800
PAGE = 4096          # text pages 1..3 of B800: 4000 bytes of memory each, then a 96-byte hole
PAGE_BYTES = 4000

PRINTABLE = ''.join(chr(c) for c in range(32, 127) if chr(c) != '"')
NAMECH = 'ABCDEFGHIJKLMNOPQRSTUVWXYZabcdefghijklmnopqrstuvwxyz0123456789-_$#&!%'
TYPES_FOR = {'D': 'D', 'L': 'ABP', 'G': 'A', 'M': 'M'}   # read statement kind -> file types it accepts


def quick_runs(prop):
    return 1500


###############################################################################
# generator (pure function of rng)

def _pick_len(rng, rec, big, lo=0, maxk=None):
    """Length biased to 0, 1, k*rec-2..k*rec+2."""
    if maxk is None:
        maxk = 9 if big else 5
    r = rng.random()
    if r < 0.10:
        n = rng.choice([0, 1, 2])
    elif r < 0.58:
        n = rng.randint(1, maxk) * rec + rng.choice([-2, -1, 0, 1, 2])
    elif r < 0.68:
        # the other record size, and the header-look-alike length class
        other = 511 - rec
        n = rng.randint(1, maxk) * other + rng.choice([-1, 0, 1]) if rng.random() < 0.6 else \
            rng.randint(0, 2) * rec + 164
    else:
        n = rng.randint(0, maxk * rec + 10) if rng.random() < 0.5 else rng.randint(0, 300)
    return max(lo, n)


def _text(rng, n, alphabet=PRINTABLE):
    if n <= 0:
        return ''
    if rng.random() < 0.5:
        return rng.choice(alphabet) * n
    return ''.join(rng.choice(alphabet) for _ in range(n))


def _solid(rng, n):
    """n printable chars without blanks at either end."""
    s = _text(rng, n).strip()
    return s + '.' * (n - len(s))


def _binary(rng, n):
    """n arbitrary bytes (as latin-1 str) without ^Z and without long runs of FF."""
    if n <= 0:
        return ''
    mode = rng.random()
    if mode < 0.3:
        return _text(rng, n)
    out = []
    for _ in range(n):
        c = rng.randrange(256)
        if c == 0x1a or (c == 0xff and out[-3:] == ['\xff'] * 3):
            c = 0x41
        out.append(chr(c))
    return ''.join(out)


def _gen_name(rng, used):
    if used and rng.random() < 0.12:
        return rng.choice(used)
    if used and rng.random() < 0.10:
        # tape names keep their case: a name that differs from an earlier one only in capitalisation is another file
        v = rng.choice(used).swapcase()
        if v not in used:
            return v
    if rng.random() < 0.03:
        return ''
    n = rng.choice([1, 2, 3, 4, 5, 6, 7, 8, 8, 8])
    if rng.random() < 0.08:
        # longer than the eight characters a tape header holds: cut on writing, and on searching
        n = rng.randint(9, 12)
    s = ''.join(rng.choice(NAMECH) for _ in range(n))
    if n >= 3 and rng.random() < 0.1:
        s = s[:1] + ' ' + s[2:]
    return s


def _gen_data(rng, big, small, raw=False):
    flav = 'raw' if raw else rng.choice(['raw', 'raw', 'raw', 'lines', 'fields'])
    L = _pick_len(rng, 255, big)
    if small:
        L = min(L, 520)
    if flav == 'raw':
        body = _binary(rng, L) if rng.random() < 0.3 else _text(rng, L)
        parts = []
        while body:
            k = rng.choice([255, 255, 128, rng.randint(1, 255)])
            parts.append(body[:k])
            body = body[k:]
        if not parts and rng.random() < 0.5:
            parts = ['']
        return {'flav': 'raw', 'items': parts}
    if flav == 'lines':
        items = []
        rest = L
        while rest > 0:
            c = min(rest, rng.choice([255, 255, rng.randint(1, 255)]))
            items.append(_solid(rng, c - 1))
            rest -= c
        return {'flav': 'lines', 'items': items}
    items = []
    rest = L
    while rest > 0:
        n = rng.choice([0, 7, -1, 12, -32768, 32767, rng.randint(-999, 999)])
        base = 4 + len(str(n))
        c = min(rest, rng.choice([240, rng.randint(base, 240)]))
        if c < base:
            n = 0
            base = 5
            c = max(c, base)
        items.append([_solid(rng, c - base), n])
        rest -= c
    return {'flav': 'fields', 'items': items}


def _gen_prog(rng, fmt, big, small):
    """Program lines [[num, text]...] with a total file length near a biased target."""
    if rng.random() < 0.04:
        return []
    if fmt == 'A':
        target = _pick_len(rng, 255, big)
    else:
        target = _pick_len(rng, 256, big, lo=8) - 2
    if small:
        target = min(target, 520)
    lines = []
    num = rng.choice([1, 10, 10, 100, rng.randint(1, 500)])
    rest = target
    while rest > 0:
        kw = rng.choice(['REM', 'REM', 'PRINT'])
        nlen = len(str(num))
        # cost of a line with f filler chars
        if fmt == 'A':
            base = nlen + 1 + (3 if kw == 'REM' else 8) + 1     # "n REM\r" / 'n PRINT ""\r'
            step1 = 2 if kw == 'REM' else 1                     # REM needs a blank before the first filler char
        else:
            base = 6 + (0 if kw == 'REM' else 3)                # ptr, num, token, NUL (+ ' ""')
            step1 = 2 if kw == 'REM' else 1
        room = 240 - nlen
        c = min(rest, rng.choice([room, room, rng.randint(base, room)]))
        if 0 < rest - c < 14:
            c = rest if rest <= room else rest - 14
        if c < base:
            c = base
        f = c - base
        if kw == 'REM':
            if f == 1:
                f = 0
            elif f >= 2:
                f -= 1
            text = 'REM' + ((' ' + (_text(rng, f).strip() or 'x').ljust(f, '.')) if f > 0 else '')
            cost = base + (len(text) - 3)
        else:
            text = 'PRINT "' + _text(rng, f) + '"'
            cost = base + f
        lines.append([num, text])
        rest -= cost
        num += rng.choice([1, 10, 10, rng.randint(1, 3000)])
        if num > 65000:
            break
    return lines


def _gen_mem(rng, big, small):
    # loading a block into text-mode video memory is slow in the engine (every cell is rendered): mostly 1-2 blocks
    n = _pick_len(rng, 256, big, maxk=2 if (small or rng.random() < 0.8) else None)
    data = _binary(rng, n)
    if n and rng.random() < 0.04:
        data = '\xa5' + data[1:]
    if n and rng.random() < 0.03:
        data = data[:-1] + '\x1a'
    return {'page': rng.randint(1, 3), 'rel': round(rng.random(), 3), 'data': data}


def _gen_write(rng, big, small, used, force=None):
    name = _gen_name(rng, used)
    used.append(name)
    r = rng.random()
    if force == 'raw':
        r = 0.0
    elif force == 'M':
        r = 0.9
    if r < 0.42:
        op = {'op': 'data', 'name': name}
        op.update(_gen_data(rng, big, small, raw=(force == 'raw')))
        kind = 'D'
    elif r < 0.78:
        fmt = rng.choice(['B', 'A', 'A', 'P'])
        op = {'op': 'save', 'name': name, 'fmt': fmt, 'lines': _gen_prog(rng, fmt, big, small)}
        kind = 'L'
    else:
        op = {'op': 'bsave', 'name': name}
        op.update(_gen_mem(rng, big, small))
        kind = 'M'
    return op, kind


def _gen_read(rng, name, kind, flav=None):
    op = {'op': 'read', 'name': name, 'as': kind}
    if kind == 'D':
        op['how'] = rng.choice(['chunk', 'chunk', 'chunk', 'eofloop'])
        op['chunk'] = rng.choice([255, 255, 1, 100, rng.randint(1, 255)])
    elif kind == 'L':
        if rng.random() < 0.15:
            op['as'] = 'G'   # MERGE (finds ASCII files only)
    elif kind == 'M':
        if rng.random() < 0.6:
            op['page'] = rng.randint(1, 3)
            op['rel'] = round(rng.random(), 3)
    return op


def _gen_live(rng, big, wav, hide):
    """
    A tape that is recorded on more than once: files are written where the head happens to be (behind a
    file that was just read, at the start of a tape that a failed search has rewound, behind a SAVE that
    failed), and the session is suspended and resumed (state file + image survive, nothing else) between
    and inside recordings. The history ends with a new Session that looks for every name ever written.
    """
    small = wav
    ops = []
    used = []
    written = []   # (name, read kind) of everything ever written, in order of writing

    def write(at=None, susp=0.0, force=None):
        op, kind = _gen_write(rng, big, small, used, force)
        if at:
            op['at'] = at
        if op['op'] == 'data' and rng.random() < susp:
            n = len(op['items'])
            op['susp'] = sorted(set(rng.randint(0, n) for _ in range(rng.choice([1, 1, 2]))))
        ops.append(op)
        written.append((op['name'], kind))

    def read(name, kind):
        op = _gen_read(rng, name, kind)
        if op['as'] == 'D' and op.get('how') == 'chunk' and rng.random() < 0.25:
            op['susp'] = [rng.randint(0, 3)]
        ops.append(op)

    def miss():
        ops.append({'op': 'read', 'name': rng.choice(['NOSUCH', 'zz', 'NOSUCHFILE12']), 'as': rng.choice(['D', 'L', 'M'])})

    for _ in range(rng.choice([0, 1, 2, 2, 3, 3]) if not wav else rng.choice([0, 1, 2, 2, 3])):
        write(susp=0.15)
    if ops and rng.random() < 0.7:
        ops.append({'op': 'restart'})
    for _ in range(rng.randint(1, 3) if wav else rng.randint(2, 5)):
        r = rng.random()
        if r < 0.22:
            # record, suspend while the tape is in recording mode, record
            write(at=rng.choice(['here', None]), susp=0.5)
            ops.append({'op': 'suspend'})
            write(at=rng.choice(['here', None]), susp=0.3)
        elif r < 0.44:
            # read a file, record behind it (over whatever follows)
            if written:
                if rng.random() < 0.5:
                    ops.append({'op': 'restart'})
                read(*rng.choice(written[:-1] or written))
            write(at='here', susp=0.6, force='raw' if rng.random() < 0.4 else None)
            if rng.random() < 0.4:
                ops.append({'op': 'suspend'})
                write(at='here')
        elif r < 0.62:
            # look for a file that is not there (the tape is rewound), record
            miss()
            write(at='here', susp=0.3)
            if rng.random() < 0.3:
                ops.append({'op': 'restart'})
        elif r < 0.74 and hide:
            # a SAVE that fails behind its header, then another file
            ops.append({'op': 'failsave', 'name': _gen_name(rng, []), 'fmt': rng.choice(['B', 'B', 'A']),
                        'at': rng.choice(['here', None])})
            write(at=rng.choice(['here', None]))
        elif r < 0.80:
            ops.append({'op': 'restart'})
        elif r < 0.88:
            # suspend wherever the tape is (often at the very end of the image, in recording mode), then play
            ops.append({'op': 'suspend'})
            if written and rng.random() < 0.5:
                if rng.random() < 0.5:
                    read(*rng.choice(written))
                else:
                    miss()
        elif written:
            read(*rng.choice(written))
    ops.append({'op': 'restart'})
    seen = []
    for nk in written:
        if nk not in seen:
            seen.append(nk)
    if rng.random() < 0.2:
        rng.shuffle(seen)
    for (name, kind) in seen:
        ops.append(_gen_read(rng, name, kind))
    return ops


def gen(rng, tier, prop):
    big = tier != 'quick'
    arm = rng.random()
    if arm < 0.32:
        wav = rng.random() < 0.25
        hide = rng.random() < 0.35
        cfg = {
            'image': 'WAV' if wav else 'CAS',
            'syntax': rng.choice(['advanced'] * 14 + ['pcjr'] * 4 + ['tandy']),
        }
        if hide:
            cfg['hide'] = True
        return {'machine': NAME, 'prop': prop, 'cfg': cfg, 'ops': _gen_live(rng, big, wav, hide)}
    arm = (arm - 0.32) / 0.68
    wav = rng.random() < 0.12
    small = wav
    torn = arm >= 0.45 and arm < 0.75
    nfiles = rng.randint(1, 3 if wav else 4)
    ops = []
    written = []   # (name, kind)
    used = []
    # with a tear planned, make sure a restart precedes the last one or two files
    restart_before = set()
    if torn and nfiles > 1:
        restart_before.add(nfiles - rng.choice([1, 1, 2]) if nfiles > 2 else nfiles - 1)
    for i in range(nfiles):
        if i and (i in restart_before or rng.random() < 0.25):
            ops.append({'op': 'restart'})
        force = None
        if torn and i == nfiles - 1:
            # the file that will be torn: mostly one whose contents the torn-image oracle can judge
            force = rng.choice(['raw', 'raw', 'M', None, None])
        op, kind = _gen_write(rng, big, small, used, force)
        ops.append(op)
        written.append((op['name'], kind))
    ops.append({'op': 'restart'})

    def reads(order):
        for (name, kind) in order:
            ops.append(_gen_read(rng, name, kind))
            if rng.random() < 0.06:
                ops.append({'op': 'read', 'name': rng.choice(['NOSUCH', 'zz', name + 'x' if len(name) < 8 else 'q']),
                            'as': rng.choice(['D', 'L', 'M'])})

    order = list(written)
    if rng.random() < 0.25:
        rng.shuffle(order)
    if rng.random() < 0.08:
        order.append(rng.choice(written))
    if rng.random() < 0.05:
        ops.append({'op': 'read', 'name': '', 'as': rng.choice(['D', 'L', 'M'])})
    if not torn or rng.random() < 0.5:
        reads(order)
    if not torn and rng.random() < 0.06:
        # a header of an unknown file type in front of everything read next
        ops.append({'op': 'alien', 'flag': rng.choice([0x10, 0x02, 0x7f, 0xff])})
        ops.append({'op': 'read', 'name': 'NOSUCH', 'as': rng.choice(['D', 'L', 'M'])})
        reads(list(written))
    if torn:
        ops.append({'op': 'tear', 'mode': rng.choice(['trunc', 'trunc', 'flip', 'flip']),
                    'frac': rng.choice([rng.random(), rng.random(), 0.999, 0.0, rng.random() * 0.1]),
                    'bit': rng.randrange(8)})
        order2 = list(written)
        if rng.random() < 0.3:
            order2.reverse()
        reads(order2)
        if rng.random() < 0.5:
            ops.append({'op': 'restart'})
            reads(written[:-1])
    elif arm >= 0.75 and len(written) < 4:
        # second generation: append after reading, restart, read everything again
        if rng.random() < 0.5:
            ops.append({'op': 'restart'})
        op, kind = _gen_write(rng, big, small, used)
        ops.append(op)
        written.append((op['name'], kind))
        if rng.random() < 0.8:
            ops.append({'op': 'restart'})
        reads(written)
    cfg = {
        'image': 'WAV' if wav else 'CAS',
        'syntax': rng.choice(['advanced'] * 14 + ['pcjr'] * 4 + ['tandy']),
    }
    return {'machine': NAME, 'prop': prop, 'cfg': cfg, 'ops': ops}


def simplify(cfg, ops):
    if cfg.get('image') != 'CAS':
        yield dict(cfg, image='CAS'), ops
    if cfg.get('syntax') != 'advanced':
        yield dict(cfg, syntax='advanced'), ops
    if cfg.get('hide') and not any(op['op'] == 'failsave' for op in ops):
        c = dict(cfg)
        del c['hide']
        yield c, ops
    for i, op in enumerate(ops):
        def rep(new):
            return cfg, ops[:i] + [new] + ops[i + 1:]
        k = op['op']
        if op.get('susp'):
            o = dict(op)
            del o['susp']
            yield rep(o)
            if len(op['susp']) > 1:
                yield rep(dict(op, susp=op['susp'][:1]))
                yield rep(dict(op, susp=op['susp'][1:]))
        if op.get('at') and k != 'failsave':
            o = dict(op)
            del o['at']
            yield rep(o)
        if k in ('data', 'save', 'bsave', 'read', 'failsave') and len(op.get('name', '')) > 8:
            yield rep(dict(op, name=op['name'][:8]))
        if k == 'suspend':
            yield rep({'op': 'restart'})
        if k == 'data':
            if op['flav'] != 'raw':
                # same number of bytes as one raw stream
                n = _model_len_data(op)
                yield rep(dict(op, flav='raw', items=['x' * 255] * (n // 255) + (['x' * (n % 255)] if n % 255 else [])))
            else:
                body = ''.join(op['items'])
                plain = 'x' * len(body)
                if op['items'] != _chunks(plain):
                    yield rep(dict(op, items=_chunks(plain)))
                if len(body) > 255:
                    yield rep(dict(op, items=_chunks(body[:len(body) - 255])))
        elif k == 'save':
            if len(op['lines']) > 1:
                yield rep(dict(op, lines=op['lines'][:-1]))
                yield rep(dict(op, lines=op['lines'][1:]))
        elif k == 'bsave':
            n = len(op['data'])
            plain = 'x' * n
            if op['data'] != plain and not op['data'].startswith('\xa5') and not op['data'].endswith('\x1a'):
                yield rep(dict(op, data=plain))
            if n > 256:
                yield rep(dict(op, data=op['data'][:n - 256]))
        elif k == 'read':
            if op.get('how') == 'eofloop' or op.get('chunk', 255) != 255:
                yield rep(dict(op, how='chunk', chunk=255))
            if op.get('as') == 'G':
                yield rep(dict(op, **{'as': 'L'}))
            if 'page' in op:
                o = dict(op)
                del o['page']
                o.pop('rel', None)
                yield rep(o)


def _chunks(s):
    return [s[i:i + 255] for i in range(0, len(s), 255)]


###############################################################################
# reference model

def _model_len_data(op):
    if op['flav'] == 'raw':
        return sum(len(p) for p in op['items'])
    if op['flav'] == 'lines':
        return sum(len(p) + 1 for p in op['items'])
    return sum(len(s) + 4 + len(str(n)) for (s, n) in op['items'])


def _listing(lines):
    """Expected LIST output lines for program lines [[num, text]...] (later entry of a number wins)."""
    d = {}
    for num, text in lines:
        d[int(num)] = text
    return [b('%d %s' % (num, d[num])) for num in sorted(d)]


class TFile(object):
    """One file on the model tape."""

    def __init__(self, op):
        self.name = b(op['name'])[:8]
        self.op = op
        k = op['op']
        if k == 'data':
            self.typ = 'D'
            self.L = _model_len_data(op)
        elif k == 'failsave':
            # what a SAVE that was refused behind its header has left: a header, and nothing that can be read
            self.typ = op.get('fmt', 'B')
            self.L = 0
        elif k == 'save':
            self.typ = op['fmt']
            self.listing = _listing(op['lines'])
            if self.typ == 'A':
                self.L = sum(len(l) + 1 for l in self.listing)
            else:
                self.L = 2 + sum(6 + len(t) - (3 if t.startswith(b'REM') else 5) for t in (l.split(b' ', 1)[1] for l in self.listing))
        else:
            self.typ = 'M'
            self.data = b(op['data'])
            self.L = len(self.data)
        self.torn = False
        self.after = None
        self.junk = k == 'failsave'
        self.resumed = False     # the session was suspended and resumed while the tape was recording this file or
                                 # had just recorded it
        self.resumed_open = False   # ... while this file was open for output
        self.over_old = False    # recorded where the tape held earlier recordings (its end lies on old content)
        self.behind_old = False  # recorded right behind such a file

    @property
    def trunk(self):
        return self.name + b' ' * (8 - len(self.name))

    def msg(self, what):
        return self.trunk + b'.' + b(self.typ) + b' ' + what

    def lenclass(self):
        """Length class used in signatures."""
        if self.junk:
            return 'failed-save'
        if self.typ in ('D', 'A'):
            kind = 'datafile' if self.typ == 'D' else 'ascii-program'
            m = self.L % 255
            if m == 254:
                return kind + '-len%255==254'
            if m == 164:
                return kind + '-len%255==164'
            return kind + '-other-len'
        kind = {'B': 'tokenised-program', 'P': 'protected-program', 'M': 'bsave'}[self.typ]
        if self.typ == 'M':
            if self.L == 0:
                return 'bsave-len==0'
            if self.data[:1] == b'\xa5':
                return 'bsave-first-byte-0xA5'
        return kind

    def bucket(self):
        rec = 255 if self.typ in ('D', 'A') else 256
        m = self.L % rec
        near = {0: 'x0', 1: 'x1', 2: 'x2', rec - 1: 'm1', rec - 2: 'm2'}.get(m, 'mid')
        return (self.typ, near, min(self.L // rec, 6), self.L == 0)


class Tape(object):
    def __init__(self):
        self.files = []
        self.pos = 0             # index of the next file ahead of the head
        self.torn_from = None    # index of the first file that may be damaged
        self.last_read = None    # file read to its end by the previous tape operation in this session
        self.last_miss_skipped = 0
        self.wound = False       # rewound by a miss (head before the intro)
        self.debris = False      # behind the last file of the list there may be remains of files recorded over
        self.recording = False   # the last thing the tape did in this session was recording

    def search_from(self, start, name, types):
        for j in range(start, len(self.files)):
            f = self.files[j]
            if (not name or f.trunk.rstrip() == name[:8].rstrip()) and f.typ in types:
                return j
        return None

    def search(self, name, types):
        """-> (index or None, [files passed over])."""
        skipped = []
        for j in range(self.pos, len(self.files)):
            f = self.files[j]
            if (not name or f.trunk.rstrip() == name[:8].rstrip()) and f.typ in types:
                return j, skipped
            skipped.append(f)
        return None, skipped


###############################################################################
# executor

class Exec(object):
    def __init__(self, run, case):
        self.run = run
        self.w = run.w
        self.cfg = case['cfg']
        self.ops = case['ops']
        self.root = run.make_scratch()
        self.cdir = os.path.join(self.root, 'c')
        os.makedirs(self.cdir)
        self.wav = self.cfg.get('image') == 'WAV'
        self.img = os.path.join(self.root, 'tape.wav' if self.wav else 'tape.cas')
        self.tape = Tape()
        self.d = None
        self.ckpts = [(0, 0)]    # (image size, number of model files) at each close
        self.sessions = 0
        self.wrote_before_session = None   # (index of the first file appended after a restart, session number)
        self.hide = bool(self.cfg.get('hide'))
        self.no_tear = False     # something was recorded over: the image sizes at the checkpoints mean nothing any more
        self.resumes = 0
        self.pending_resumed = False   # resumed in recording mode: the next file recorded starts where the session
                                       # thinks the last one ended
        self.involved = []       # files the current tape operation passes over or reads
        self.fresh_image = False

    # -- sessions ---------------------------------------------------------

    def driver(self):
        if self.d is None:
            spec = ('WAV:' if self.wav else 'CAS:') + self.img
            kw = {'hide_protected': True} if self.hide else {}
            # the session will create the image
            self.fresh_image = not os.path.exists(self.img)
            self.d = Driver(self.w, devices={'CAS1:': spec, 'C:': self.cdir}, current_device='CAS1:',
                            syntax=self.cfg.get('syntax', 'advanced'), **kw)
            self.sessions += 1
            self.tape.pos = 0
            self.tape.wound = False
            self.tape.last_read = None
            self.tape.last_miss_skipped = 0
            self.tape.recording = False
            self.pending_resumed = False
        return self.d

    def close(self):
        if self.d is not None:
            self.d.close()
            self.d = None
            try:
                size = os.path.getsize(self.img)
            except OSError:
                size = 0
            self.ckpts.append((size, len(self.tape.files)))
            self.w.log.add('closed', size)

    def restart(self):
        self.close()
        self.run.fault('restart')
        self.driver()

    def do_suspend(self, open_file=None):
        """
        The session is suspended, shut down and resumed from its state file: by design the resumed session
        finds the tape where the suspended one left it, in the same mode, with the same file open.
        """
        t = self.tape
        run = self.run
        d = self.driver()
        self.resumes += 1
        mode = 'recording' if t.recording else 'playing'
        run.probe('suspend:' + mode + (':file-open' if open_file is not None else ''))
        run.state(self.cfg['image'], 'suspend', mode, open_file is not None, t.pos, len(t.files), t.wound)
        if t.recording:
            if open_file is not None:
                open_file.resumed = True
                open_file.resumed_open = True
                if self.wav:
                    # the session that is shut down completes the file on its way out, the resumed one records over
                    # that from the point of suspension; sound of different length may leave a tail behind
                    t.debris = True
                    self.no_tear = True
            else:
                if 0 < t.pos <= len(t.files):
                    t.files[t.pos - 1].resumed = True
                self.pending_resumed = True
        self.d = suspend_resume(d, os.path.join(self.root, 'state.pcb'))
        self.fresh_image = False
        run.fault('suspend-resume')

    # -- helpers ----------------------------------------------------------

    override = None

    def V(self, sig, detail):
        if self.override is not None:
            sig, detail = self.override[0], self.override[1] + ' :: ' + detail
        res = [g for g in self.involved if g.resumed]
        junk = [g for g in self.involved if g.junk]
        old = [g for g in self.involved if g.behind_old or (g.over_old and g.resumed_open)]
        if self.wav and self.fresh_image:
            sig = 'wav-image-created-in-this-session:' + sig
            detail += ' :: the image did not exist when this session started'
        elif old and not self.wav:
            sig = 'cas-recorded-over-used-tape:' + sig
            detail += ' :: %r recorded right behind a file that was recorded over earlier recordings (or itself recorded ' \
                      'over them, across a suspension)' % ([g.trunk for g in old],)
        elif res:
            sig = 'resumed-while-recording:%s:%s' % (self.cfg['image'], sig)
            detail += ' :: the session was suspended and resumed while recording (or just behind) %r' % (
                [g.trunk for g in res],)
        elif junk:
            sig = 'behind-failed-save:' + sig
            detail += ' :: passes over what the failed SAVE of %r left on the tape' % ([g.trunk for g in junk],)
        self.run.violate('C29', sig, detail)

    def ex(self, line, **kw):
        r = self.driver().exec(line, **kw)
        if r.err == 51:
            self.V('internal-error', 'BASIC reported Internal error for %r: %r' % (line[:60], r.out[-200:]))
        return r

    def msgs(self, r):
        return [l for l in r.out.split(b'\r\n') if l.endswith(b' Found.') or l.endswith(b' Skipped.')]

    def resync(self, why):
        """Engine and model may disagree about the head position: start a new Session."""
        self.run.probe('resync:' + why)
        self.close()
        self.driver()

    # -- writing ----------------------------------------------------------

    def to_end(self):
        """Move the head behind the last file by reading every file ahead of it, so that a write appends."""
        t = self.tape
        n = len(t.files)
        if n == 0 and t.wound:
            # a miss on an empty tape has rewound it to before the intro
            self.run.probe('write-at-start-of-empty-tape')
        for _ in range(2 * n + 2):
            if t.pos >= n:
                return True
            # what a failed SAVE left cannot be read: it is passed over on the way to the next file
            k = t.pos
            while k < n and t.files[k].junk:
                k += 1
            if k >= n:
                # nothing readable ahead: no way to stop the tape right behind the last header
                return False
            f = t.files[k]
            kind = {'D': 'D', 'M': 'M'}.get(f.typ, 'L')
            self.do_read({'op': 'read', 'name': u(f.name), 'as': kind, 'how': 'chunk', 'chunk': 255})
            self.run.probe('positioning-read')
            if t.pos != k + 1:
                return False
        return t.pos >= n

    def position(self, op):
        """
        Bring the head to where the file is to be recorded: 'here' = wherever it is (the recording replaces
        what lies ahead), otherwise behind the last file of the tape.
        """
        t = self.tape
        run = self.run
        if t.torn_from is not None:
            run.probe('write-skipped-after-tear')
            return False
        self.driver()
        if op.get('at') == 'here':
            if t.pos < len(t.files):
                run.probe('record-over:' + ('rewound-tape' if t.wound else 'start-of-tape' if t.pos == 0 else 'middle'))
            elif t.wound:
                run.probe('write-at-start-of-empty-tape')
        elif not self.to_end():
            run.probe('write-skipped-no-position')
            self.resync('to-end-failed')
            return False
        return True

    def place(self, f):
        """File f is about to be recorded at the head position."""
        t = self.tape
        f.over_old = t.pos < len(t.files) or t.debris
        f.behind_old = 0 < t.pos <= len(t.files) and t.files[t.pos - 1].over_old

    def recorded(self, f):
        """File f has been recorded at the head position: whatever the model had from there on is gone."""
        t = self.tape
        if t.pos < len(t.files):
            self.run.probe('files-recorded-over', len(t.files) - t.pos)
            t.debris = True
        if t.debris or t.wound or f.junk:
            self.no_tear = True
        # the file read to its end immediately before this write, in this Session
        f.after = t.last_read
        if self.pending_resumed:
            f.resumed = True
            self.pending_resumed = False
        del t.files[t.pos:]
        t.files.append(f)
        t.pos = len(t.files)
        t.last_read = None
        t.last_miss_skipped = 0
        t.wound = False
        t.recording = True
        if self.sessions > 1 and len(t.files) > 1 and self.wrote_before_session is None:
            self.wrote_before_session = (len(t.files) - 1, self.sessions)

    def do_failsave(self, op):
        """
        SAVE in unprotected form of a program that was loaded from a protected file, in a session started with
        hide_protected: refused with Illegal function call, but only after the header has gone to the tape.
        What is left there is no file; the files recorded behind it are.
        """
        t = self.tape
        run = self.run
        if not self.hide:
            run.probe('failsave-skipped-not-hiding')
            return
        if not self.position(op):
            return
        self.involved = []
        name = b(op['name'])
        fmt = op.get('fmt', 'B')
        for line in (b'NEW', b'1 REM', b'SAVE "C:PP.BAS",P', b'LOAD "C:PP.BAS"'):
            r = self.ex(line)
            if r.out:
                raise K.HarnessError('preparing a protected program: %r -> %r' % (line, r.out))
        r = self.ex(b'SAVE "CAS1:' + name + b'"' + (b',A' if fmt == 'A' else b''))
        run.probe('failed-save:%s:error-%s' % (fmt, r.err))
        run.state(self.cfg['image'], 'failsave', fmt, r.err, t.pos, len(t.files))
        self.ex(b'CLOSE')
        self.ex(b'NEW')
        f = TFile(op)
        self.place(f)
        self.recorded(f)

    def do_write(self, op):
        t = self.tape
        run = self.run
        if not self.position(op):
            return
        self.involved = []
        f = TFile(op)
        self.place(f)
        name = b(op['name'])
        k = op['op']
        run.state(self.cfg['image'], k, f.bucket(), len(t.files), self.sessions > 1, t.pos < len(t.files), t.wound,
                  self.pending_resumed)
        if k == 'data':
            susp = [int(x) for x in op.get('susp', [])]
            r = self.ex(b'OPEN "CAS1:' + name + b'" FOR OUTPUT AS 1')
            if r.err is not None:
                self.V('write-error:open-output:%s' % r.err, 'OPEN FOR OUTPUT of %r: %r' % (name, r.out))
                self.ex(b'CLOSE')
                self.resync('write-error')
                return
            t.recording = True
            for i, it in enumerate(op['items']):
                if i in susp:
                    self.do_suspend(open_file=f)
                d = self.driver()
                if op['flav'] == 'raw':
                    d.set(b'A$', b(it))
                    r = self.ex(b'PRINT#1,A$;')
                elif op['flav'] == 'lines':
                    d.set(b'A$', b(it))
                    r = self.ex(b'PRINT#1,A$')
                else:
                    d.set(b'A$', b(it[0]))
                    r = self.ex(b'N%%=%d:WRITE#1,A$,N%%' % it[1])
                if r.err is not None:
                    self.V('write-error:print:%s' % r.err, 'PRINT#/WRITE# to %r: %r' % (name, r.out))
                    break
            if [x for x in susp if x >= len(op['items'])]:
                self.do_suspend(open_file=f)
            r = self.ex(b'CLOSE')
            if r.err is not None:
                self.V('write-error:close:%s' % r.err, 'CLOSE of %r: %r' % (name, r.out))
            if f.L % 255 == 254:
                run.probe('datafile-payload-254-mod-255')
        elif k == 'save':
            self.ex(b'NEW')
            for num, text in op['lines']:
                r = self.ex(b('%d %s' % (num, text)))
                if r.out:
                    raise K.HarnessError('program line not accepted: %r -> %r' % (text, r.out))
            r = self.ex(b'SAVE "CAS1:' + name + b'"' + {'B': b'', 'A': b',A', 'P': b',P'}[op['fmt']])
            if r.err is not None:
                self.V('write-error:save-%s:%s' % (op['fmt'], r.err), 'SAVE of %r: %r' % (name, r.out))
            if f.typ == 'A' and f.L % 255 == 254:
                run.probe('ascii-payload-254-mod-255')
            if f.typ != 'A' and f.L % 256 == 0:
                run.probe('binary-record-multiple-of-256')
        else:
            data = b(op['data'])
            off = _offset(op, len(data))
            self.put_mem(off, data)
            r = self.ex(b'DEF SEG=&HB800:BSAVE "CAS1:' + name + b'",%d,%d' % (off, len(data)))
            if r.err is not None:
                self.V('write-error:bsave:%s' % r.err, 'BSAVE of %r: %r' % (name, r.out))
        self.recorded(f)

    # memory blocks travel between the harness and video memory through BLOAD/BSAVE on a scratch disk

    def put_mem(self, off, data):
        if not data:
            return
        path = os.path.join(self.cdir, 'F.BIN')
        with simfs.real_open(path, 'wb') as fh:
            hdr = b'\xfd' + struct.pack('<HHH', VSEG, off, len(data))
            fh.write(hdr + data + (hdr if self.cfg.get('syntax') == 'tandy' else b'') + b'\x1a')
        r = self.driver().exec(b'DEF SEG=&HB800:BLOAD "C:F.BIN",%d' % off)
        if r.out:
            raise K.HarnessError('helper BLOAD failed: %r' % r.out)

    def get_mem(self, off, n):
        path = os.path.join(self.cdir, 'O.BIN')
        r = self.driver().exec(b'DEF SEG=&HB800:BSAVE "C:O.BIN",%d,%d' % (off, n))
        if r.out:
            raise K.HarnessError('helper BSAVE failed: %r' % r.out)
        with simfs.real_open(path, 'rb') as fh:
            raw = fh.read()
        return raw[7:7 + n]

    # -- reading ----------------------------------------------------------

    def do_read(self, op):
        self.pending_resumed = False
        try:
            self._read(op)
        finally:
            self.involved = []
        if self.hide and op.get('as', 'L') in ('L', 'G'):
            # with a protected program in memory the helper statements (BLOAD, BSAVE) are refused
            self.ex(b'NEW')

    def _read(self, op):
        t = self.tape
        run = self.run
        self.driver()
        name = b(op['name'])
        kind = op.get('as', 'L')
        if kind not in TYPES_FOR:
            kind = 'L'
        types = TYPES_FOR[kind]
        j, skipped = t.search(name, types)
        touches_torn = t.torn_from is not None and (j is None or j >= t.torn_from)
        f = t.files[j] if j is not None else None
        # no telling what such a search meets: it matches what a failed SAVE left, or it runs past the last file
        # of the model into what may be left of files that were recorded over
        loose = (f is not None and f.junk) or (f is None and t.debris)
        self.involved = skipped + ([f] if f is not None else [])
        run.state(self.cfg['image'], 'read', kind, f.bucket() if f else None, t.pos, len(skipped),
                  touches_torn, self.sessions, loose, t.wound, t.recording, self.resumes > 0,
                  len([s for s in skipped if s.junk]), len(name) > 8)
        t.recording = False
        prev_read = t.last_read
        prev_miss_skipped = t.last_miss_skipped
        t.last_read = None
        t.last_miss_skipped = 0
        if kind == 'D':
            stmt = b'OPEN "CAS1:' + name + b'" FOR INPUT AS 1'
        elif kind == 'L':
            self.ex(b'NEW')
            stmt = b'LOAD "CAS1:' + name + b'"'
        elif kind == 'G':
            self.ex(b'NEW')
            stmt = b'MERGE "CAS1:' + name + b'"'
        else:
            n_exp = len(f.data) if f is not None and f.typ == 'M' else 0
            off = _offset(op if 'page' in op or f is None else f.op, n_exp)
            guard = bytes(bytearray((x ^ 0x55) for x in bytearray(f.data))) if n_exp else b''
            self.put_mem(off - 8, b'\xee' * 8 + guard + b'\xee' * 8)
            stmt = b'DEF SEG=&HB800:BLOAD "CAS1:' + name + b'",%d' % off
        r = self.ex(stmt)
        got_msgs = self.msgs(r)

        if touches_torn:
            # anything goes except a crash, Internal error, wrong bytes from a data file, or a device that stays
            # unusable after the failure
            run.probe('torn-touch')
            if r.err is None and f is not None and kind == 'D' and got_msgs and got_msgs[-1] == f.msg(b'Found.') \
                    and f.op['flav'] == 'raw' and (self.torn_mode == 'trunc' or f is t.files[-1]):
                self.read_raw_torn(f)
            elif r.err is None and f is not None and f is t.files[-1] and got_msgs and got_msgs[-1] == f.msg(b'Found.'):
                # the last file of the tape, found and read without an error: blocks are CRC-protected, so what was
                # delivered is what was recorded or nothing at all (a lost record; nothing follows it on the tape)
                if kind == 'M':
                    self.check_mem_torn(f, off)
                elif kind == 'L' and f.typ in ('B', 'P'):
                    self.check_listing_torn(f)
            self.ex(b'CLOSE')
            if r.err is not None and r.err != 55 and t.torn_from > 0:
                # the device must still be usable: look for an intact file (the first attempt may run off the end)
                g = t.files[0]
                probe = {'D': b'OPEN "CAS1:%s" FOR INPUT AS 1', 'M': b'DEF SEG=&HB800:BLOAD "CAS1:%s",4200'}.get(
                    g.typ, b'LOAD "CAS1:%s"') % g.name
                r2 = self.ex(probe)
                run.probe('torn-error-then-search')
                if r2.err == 55:
                    self.V('stuck-open:after-miss-that-skipped-files' if r.err == 24 else 'stuck-open:after-error-%d' % r.err,
                           'torn image: %r failed with error %d after passing over %d header(s); then %r gave File already '
                           'open although no cassette file is open' % (stmt, r.err, len(got_msgs), probe))
                self.ex(b'CLOSE')
            self.resync('torn')
            return

        if loose:
            run.probe('open-ended-search:' + ('matches-failed-save' if f is not None else 'runs-past-last-file'))
            if _match_msgs(got_msgs, [(s.msg(b'Skipped.'), s.junk) for s in skipped], prefix=True) is None:
                self.V('messages:other', '%r: the files ahead of the head are %r, got %r' % (
                    stmt, [s.msg(b'Skipped.') for s in skipped if not s.junk], got_msgs))
            self.ex(b'CLOSE')
            if r.err == 55:
                self.V('stuck-open:other', '%r gave File already open although no cassette file is open' % (stmt,))
            elif r.err == 24:
                # ran off the end: the tape is back at its start
                run.probe('miss')
                t.pos = 0
                t.wound = True
                t.last_miss_skipped = len(got_msgs)
                return
            self.resync('open-ended-search')
            return

        # the header a failed SAVE left may or may not be announced when it is passed over
        exp_items = [(s.msg(b'Skipped.'), s.junk) for s in skipped] + ([(f.msg(b'Found.'), False)] if f is not None else [])
        exp_msgs = [m for (m, opt) in exp_items if not opt]
        if len(exp_msgs) != len(exp_items):
            run.probe('search-passes-failed-save')
            if _match_msgs(got_msgs, exp_items) is not None:
                got_msgs = exp_msgs
            else:
                got_msgs = [m for m in got_msgs if m in exp_msgs or m not in [m2 for (m2, opt) in exp_items if opt]]
        exp_err = None if f is not None else 24
        bad = False
        if r.err == 55:
            bad = True
            if prev_miss_skipped:
                self.V('stuck-open:after-miss-that-skipped-files',
                       '%r gave File already open; the previous tape search passed over %d file(s), ended in Device '
                       'Timeout and left no file open' % (stmt, prev_miss_skipped))
            else:
                self.V('stuck-open:other', '%r gave File already open although no cassette file is open' % (stmt,))
        elif r.err != exp_err:
            bad = True
            zero = [s for s in skipped if s.typ == 'M' and s.L == 0]
            if r.err == 57 and zero:
                self.V('skip-io-error:after-bsave-len==0',
                       '%r: Device I/O error while passing over the zero-length memory image %r; messages %r' % (
                           stmt, zero[0].name, got_msgs))
            elif self.lost_appended(stmt, exp_msgs, got_msgs, skipped + ([f] if f is not None else [])):
                pass
            elif f is not None and f.typ == 'A' and f.L % 255 == 254 and r.err is not None and got_msgs == exp_msgs:
                self.V('load-error-%d:%s' % (r.err, f.lenclass()),
                       '%r: error %d while loading the ASCII program %r of %d bytes (next file: %r): the reader runs on into '
                       'the following records' % (stmt, r.err, f.name, f.L, [g.trunk for g in t.files[j + 1:j + 2]]))
            elif prev_read is not None and prev_read.lenclass().endswith('len%255==254') and r.err == 24:
                self.V('next-file-lost-after:' + prev_read.lenclass(),
                       '%r gave Device Timeout; expected %r. The file read just before, %r, has %d bytes' % (
                           stmt, exp_msgs, prev_read.name, prev_read.L))
            else:
                self.V('search-error:%s:expected-%s-got-%s' % (kind, exp_err, r.err),
                       '%r: expected messages %r and error %r, got %r' % (stmt, exp_msgs, exp_err, r.out[-300:]))
        elif got_msgs != exp_msgs:
            bad = True
            if not self.lost_appended(stmt, exp_msgs, got_msgs, skipped + ([f] if f is not None else [])):
                self.classify_msgs(stmt, exp_msgs, got_msgs, skipped, prev_read)
        if bad:
            self.ex(b'CLOSE')
            self.resync('search-mismatch')
            return
        if f is None:
            run.probe('miss')
            if t.files:
                run.probe('miss-on-recorded-tape')
            t.pos = 0
            t.wound = True
            t.last_miss_skipped = len(skipped)
            return
        run.probe('found:' + self.cfg['image'] + ':' + f.typ)
        if len(name) > 8:
            run.probe('found-by-long-name')
        if f.resumed:
            run.probe('found-file-recorded-across-resume')
        if self.sessions > 1:
            run.probe('found-in-later-session')
        if self.wrote_before_session and j >= self.wrote_before_session[0] and self.sessions > self.wrote_before_session[1]:
            run.probe('found-appended-file-after-restart')
        ok = True
        if prev_read is not None and prev_read.lenclass().endswith('len%255==254') and \
                t.search_from(j + 1, name, types) is not None:
            # if the header of file j was swallowed, a later file of the same name is what was found
            self.override = ('next-file-lost-after:' + prev_read.lenclass(),
                             'after reading %r (%d bytes) to its end, %r reports Found but delivers other contents; a later '
                             'file matches the same search' % (prev_read.name, prev_read.L, stmt))
        try:
            ok = self.check_found(f, op, kind, off if kind == 'M' else None)
        finally:
            self.override = None
        if not ok:
            self.resync('content-mismatch')
            return
        t.pos = j + 1
        t.last_read = f
        t.wound = False

    def check_found(self, f, op, kind, off):
        if kind == 'D':
            ok = self.read_data(f, op)
            r2 = self.ex(b'CLOSE')
            if r2.err is not None:
                self.V('read-error:close:%s' % r2.err, 'CLOSE after reading %r: %r' % (f.name, r2.out))
        elif kind in ('L', 'G'):
            ok = self.check_listing(f)
        else:
            ok = self.check_mem(f, off)
        return ok

    def lost_appended(self, stmt, exp, got, passed):
        """A file is missing that was appended right after a file of the len%255==254 class had been read to its end."""
        for g in passed:
            if g.after is not None and g.after.lenclass().endswith('len%255==254') and \
                    g.msg(b'Skipped.') not in got and g.msg(b'Found.') not in got:
                self.V('appended-file-lost-after-reading:' + g.after.lenclass(),
                       '%r: expected %r, got %r. File %r was written in the Session that had just read %r (%d bytes) to '
                       'its end' % (stmt, exp, got, g.name, g.after.name, g.after.L))
                return True
        return False

    def classify_msgs(self, stmt, exp, got, skipped, prev_read):
        # extra lines that are not expected: ghost headers
        extra = [m for m in got if m not in exp]
        missing = [m for m in exp if m not in got]
        if extra and not missing:
            # which passed-over file precedes the first extra line?
            idx = got.index(extra[0])
            before = None
            for s in skipped:
                if s.msg(b'Skipped.') in got[:idx]:
                    before = s
            cls = before.lenclass() if before is not None else 'none'
            self.V('ghost-header:after-skipped-' + cls,
                   '%r: unexpected message(s) %r; expected %r, got %r' % (stmt, extra, exp, got))
        elif missing and prev_read is not None and prev_read.lenclass().endswith('len%255==254'):
            self.V('next-file-lost-after:' + prev_read.lenclass(),
                   '%r: expected %r, got %r. The file read just before, %r, has %d bytes' % (
                       stmt, exp, got, prev_read.name, prev_read.L))
        else:
            self.V('messages:other', '%r: expected %r, got %r' % (stmt, exp, got))

    def eof(self):
        r = self.ex(b'E%=EOF(1)')
        if r.err is not None:
            return None, r
        return int(self.driver().get(b'E%')), r

    def gather_extra(self, cap=400):
        """After the expected end: what else can be read from file 1?"""
        d = self.driver()
        extra = b''
        while len(extra) < cap:  # noqa
            e, r = self.eof()
            if e is None or e != 0:
                break
            r = self.ex(b'A$=INPUT$(1,1)')
            if r.err is not None:
                break
            extra += d.get(b'A$')
        return extra

    def eof_late(self, f, what):
        extra = self.gather_extra()
        t = self.tape
        nxt = t.files[t.files.index(f) + 1] if t.files.index(f) + 1 < len(t.files) else None
        note = 'file is the last on the tape'
        if nxt is not None:
            if nxt.trunk in extra:
                note = "the next file's header record (name %r) is among the extra bytes" % nxt.trunk
            else:
                note = 'next file is %r' % nxt.trunk
        self.V('eof-late:' + f.lenclass(),
               'data file %r (%s, %d bytes as written): after %s EOF(1) is 0 and %d more byte(s) can be read: %r...; %s' % (
                   f.name, f.op['flav'], f.L, what, len(extra), extra[:24], note))

    def eof_late_torn(self, f, extra):
        self.V('eof-late:' + f.lenclass(), 'data file %r (%d bytes as written; in the torn part of the image but itself '
               'complete): %d more byte(s) can be read after the end: %r...' % (f.name, f.L, len(extra), extra[:24]))

    def read_data(self, f, op):
        d = self.driver()
        flav = f.op['flav']
        cls = f.lenclass()
        if flav == 'raw':
            want = b(''.join(f.op['items']))
            how = op.get('how', 'chunk')
            got = b''
            if how == 'eofloop' and len(want) <= 300:
                self.run.probe('eofloop')
                while len(got) <= len(want) + 600:
                    r = self.ex(b'A$="":WHILE NOT EOF(1) AND LEN(A$)<250:A$=A$+INPUT$(1,1):WEND', poll_cap=100000)
                    if r.err is not None:
                        self.V('read-error:input$:%s' % r.err, 'reading %r byte by byte until EOF: %r' % (f.name, r.out))
                        return False
                    piece = d.get(b'A$')
                    got += piece
                    if len(piece) < 250:
                        break
                if got != want:
                    if got[:len(want)] == want:
                        nxt = self.tape.files.index(f) + 1
                        note = ''
                        if nxt < len(self.tape.files) and self.tape.files[nxt].trunk in got[len(want):]:
                            note = "; the next file's header record (%r) is among them" % self.tape.files[nxt].trunk
                        self.V('eof-late:' + cls, 'data file %r (%d bytes as written): reading until EOF(1) returns %d extra '
                               'byte(s) %r...%s' % (f.name, f.L, len(got) - len(want), got[len(want):len(want) + 24], note))
                    elif want[:len(got)] == got:
                        self.V('data-short:' + cls, 'data file %r: EOF(1) true after %d of %d bytes' % (f.name, len(got), len(want)))
                    else:
                        self.V('data-mismatch:' + cls, 'data file %r: read %r..., written %r...' % (
                            f.name, _diff(got, want), _diff(want, got)))
                    return False
                return True
            k = max(1, min(255, int(op.get('chunk', 255))))
            pos = 0
            susp = [int(x) for x in op.get('susp', [])]
            ci = 0
            while pos < len(want):
                if ci in susp:
                    # suspended and resumed with the file open for input
                    self.do_suspend()
                    d = self.driver()
                ci += 1
                e, r = self.eof()
                if e is None:
                    self.V('read-error:eof:%s' % r.err, 'EOF(1) on %r: %r' % (f.name, r.out))
                    return False
                if e != 0:
                    self.V('data-short:' + cls, 'data file %r: EOF(1) true after %d of %d bytes' % (f.name, pos, len(want)))
                    return False
                n = min(k, len(want) - pos)
                r = self.ex(b'A$=INPUT$(%d,1)' % n)
                if r.err is not None:
                    self.V(('data-short:' + cls) if r.err == 62 else 'read-error:input$:%s' % r.err,
                           'data file %r: INPUT$(%d,1) at offset %d of %d: %r' % (f.name, n, pos, len(want), r.out))
                    return False
                piece = d.get(b'A$')
                if piece != want[pos:pos + n]:
                    self.V('data-mismatch:' + cls, 'data file %r at offset %d: read %r, written %r' % (
                        f.name, pos, _diff(piece, want[pos:pos + n]), _diff(want[pos:pos + n], piece)))
                    return False
                pos += n
            e, r = self.eof()
            if e is None:
                self.V('read-error:eof:%s' % r.err, 'EOF(1) on %r: %r' % (f.name, r.out))
                return False
            if e == 0:
                self.eof_late(f, 'the %d bytes written have been read' % len(want))
                return False
            r = self.ex(b'A$=INPUT$(1,1)')
            if r.err != 62:
                self.V('read-past-end:' + cls, 'data file %r: INPUT$(1,1) at EOF gave %r' % (f.name, r.out))
                return False
            return True
        # line- or field-structured
        items = f.op['items']
        for i, it in enumerate(items):
            e, r = self.eof()
            if e is None:
                self.V('read-error:eof:%s' % r.err, 'EOF(1) on %r: %r' % (f.name, r.out))
                return False
            if e != 0:
                self.V('data-short:' + cls, 'data file %r: EOF(1) true before item %d of %d' % (f.name, i, len(items)))
                return False
            if flav == 'lines':
                r = self.ex(b'LINE INPUT#1,A$')
                got = d.get(b'A$') if r.err is None else None
                want = b(it)
            else:
                r = self.ex(b'INPUT#1,A$,N%')
                got = (d.get(b'A$'), int(d.get(b'N%'))) if r.err is None else None
                want = (b(it[0]), it[1])
            if r.err is not None:
                self.V(('data-short:' + cls) if r.err == 62 else 'read-error:input#:%s' % r.err,
                       'data file %r: item %d of %d: %r' % (f.name, i, len(items), r.out))
                return False
            if got != want:
                self.V('data-mismatch:' + cls, 'data file %r item %d: read %r, written %r' % (f.name, i, got, want))
                return False
        e, r = self.eof()
        if e is None:
            self.V('read-error:eof:%s' % r.err, 'EOF(1) on %r: %r' % (f.name, r.out))
            return False
        if e == 0:
            self.eof_late(f, 'all %d items written have been read' % len(items))
            return False
        return True

    def read_raw_torn(self, f):
        """
        Torn data file: what can be read must be a prefix of what was recorded (truncation), or of what was
        recorded with whole 255-byte records missing (a damaged leader makes a record invisible).
        """
        d = self.driver()
        want = b(''.join(f.op['items']))
        got = b''
        # 51 divides the record payload, so a step never straddles a lost record
        while len(got) < len(want) + 300:
            e, r = self.eof()
            if e is None or e != 0:
                break
            r = self.ex(b'A$=INPUT$(51,1)')
            if r.err is not None:
                break
            got += d.get(b'A$')
        self.run.probe('torn-data-read')
        if got:
            self.run.probe('torn-data-bytes-checked', len(got))
        # the recorded stream ends with a NUL, which is never data except in the (separately reported) case
        # where it is the 255th byte of the last record
        stream = want + b'\0'
        if self.torn_mode == 'trunc':
            ok = stream[:len(got)] == got
        else:
            ok = _prefix_of_record_subsequence(got, stream, 255)
        if not ok and f.L % 255 == 254 and got[:len(want) + 1] == stream:
            self.eof_late_torn(f, got[len(want):])
        elif not ok:
            self.V('torn-wrong-data:datafile:' + self.torn_mode,
                   'torn image (%s): data file %r returned bytes that were never recorded at that place: read %r, '
                   'recorded %r' % (self.torn_mode, f.name, _diff(got, want), _diff(want, got)))

    def check_listing(self, f):
        if self.hide and f.typ == 'P':
            return self.check_run(f)
        r = self.ex(b'LIST', poll_cap=100000)
        got = [l for l in r.text.split(b'\r\n') if l]
        if r.err is not None or got != f.listing:
            i = 0
            while i < len(got) and i < len(f.listing) and got[i] == f.listing[i]:
                i += 1
            self.V('program-mismatch:' + f.lenclass(),
                   'program %r (type %s, %d bytes): after LOAD, LIST differs at line index %d of %d: got %r, saved %r; '
                   'error %r' % (f.name, f.typ, f.L, i, len(f.listing), got[i:i + 1], f.listing[i:i + 1], r.err))
            return False
        return True

    def check_run(self, f):
        """
        A protected program in a session that hides protected programs cannot be listed: run it. The programs
        of this machine print their string constants and do nothing else.
        """
        want = []
        for l in f.listing:
            text = l.split(b' ', 1)[1]
            if text.startswith(b'PRINT "') and text.endswith(b'"') and text[7:-1]:
                want.append(text[7:-1])
        r = self.ex(b'RUN', poll_cap=100000)
        self.run.probe('protected-program-checked-by-running-it')
        # empty lines are left out: a string that fills the last column of the screen is followed by two line ends
        got = [l for l in r.out.split(b'\r\n') if l]
        if r.err is not None or got != want:
            i = 0
            while i < len(got) and i < len(want) and got[i] == want[i]:
                i += 1
            self.V('program-mismatch:' + f.lenclass(),
                   'protected program %r (%d bytes) loaded in a session that hides protected programs: RUN printed %r as its '
                   'non-empty line %d, the program saved prints %r; error %r' % (f.name, f.L, got[i:i + 1], i, want[i:i + 1], r.err))
            return False
        return True

    def check_listing_torn(self, f):
        if self.hide and f.typ == 'P':
            return
        r = self.ex(b'LIST', poll_cap=100000)
        got = [l for l in r.text.split(b'\r\n') if l]
        self.run.probe('torn-program-checked')
        if r.err is None and got and got != f.listing:
            i = 0
            while i < len(got) and i < len(f.listing) and got[i] == f.listing[i]:
                i += 1
            self.V('torn-wrong-data:program:' + self.torn_mode,
                   'torn image (%s): LOAD of %r (type %s) reported no error but LIST differs at line index %d: got %r, '
                   'saved %r' % (self.torn_mode, f.name, f.typ, i, got[i:i + 1], f.listing[i:i + 1]))

    def check_mem_torn(self, f, off):
        n = len(f.data)
        got = self.get_mem(off - 8, n + 16)
        pre = bytes(bytearray((x ^ 0x55) for x in bytearray(f.data)))
        body = got[8:8 + n]
        self.run.probe('torn-memory-checked')
        k = 0
        while k < n and body[k] == f.data[k]:
            k += 1
        if self.cfg.get('syntax') == 'tandy' or (n and f.data[-1:] == b'\x1a'):
            return   # the tail is lost anyway (reported by the strict oracle)
        if got[:8] != b'\xee' * 8 or got[8 + n:] != b'\xee' * 8 or body[k:] != pre[k:]:
            self.V('torn-wrong-data:memory:' + self.torn_mode,
                   'torn image (%s): BLOAD of %r reported no error but the block is neither the saved bytes nor untouched: '
                   'first difference at offset %d of %d: got %r, saved %r' % (
                       self.torn_mode, f.name, k, n, body[k:k + 8], f.data[k:k + 8]))

    def check_mem(self, f, off):
        n = len(f.data)
        got = self.get_mem(off - 8, n + 16)
        want = b'\xee' * 8 + f.data + b'\xee' * 8
        if got == want:
            return True
        body = got[8:8 + n]
        pre = bytes(bytearray((x ^ 0x55) for x in bytearray(f.data)))
        # where does it differ
        i = 0
        while i < len(got) and got[i] == want[i]:
            i += 1
        if got[:8] == want[:8] and got[8 + n:] == want[8 + n:] and n and body[:-1] == f.data[:-1] \
                and f.data[-1:] == b'\x1a' and body[-1:] == pre[-1:]:
            self.V('bload-drops-final-0x1A', 'memory image %r of %d bytes ending in 1A: BLOAD left the last byte unloaded' % (
                f.name, n))
        elif self.cfg.get('syntax') == 'tandy' and got[:8] == want[:8] and got[8 + n:] == want[8 + n:] \
                and (body[:max(0, n - 7)], body[max(0, n - 7):]) == (f.data[:max(0, n - 7)], pre[max(0, n - 7):]) \
                or self.cfg.get('syntax') == 'tandy' and f.data[-1:] == b'\x1a' and got[:8] == want[:8] \
                and got[8 + n:] == want[8 + n:] \
                and (body[:max(0, n - 8)], body[max(0, n - 8):]) == (f.data[:max(0, n - 8)], pre[max(0, n - 8):]):
            self.V('bsave-tandy-last-7-bytes-lost', 'syntax=tandy: memory image %r of %d bytes: BLOAD left the last %d '
                   'byte(s) unloaded' % (f.name, n, min(7, n)))
        else:
            self.V('memory-mismatch:' + f.lenclass(), 'memory image %r (%d bytes) loaded at %d: first difference at block '
                   'offset %d (guards at -8..-1 and %d..%d): got %r, want %r' % (
                       f.name, n, off, i - 8, n, n + 7, got[i:i + 12], want[i:i + 12]))
        return False

    # -- tear -------------------------------------------------------------

    torn_mode = None

    def do_tear(self, op):
        t = self.tape
        self.close()
        try:
            size = os.path.getsize(self.img)
        except OSError:
            size = 0
        # latest checkpoint after which something was recorded
        ck = None
        for (s, nf) in self.ckpts:
            if nf < len(t.files) and s <= size:
                ck = (s, nf)
        if ck is None or size == 0 or t.torn_from is not None or self.no_tear or t.debris:
            self.run.probe('tear-noop')
            self.driver()
            return
        s, nf = ck
        span = size - s
        at = s + min(span - 1, max(0, int(op.get('frac', 0.5) * span)))
        with simfs.real_open(self.img, 'r+b') as fh:
            if op.get('mode') == 'flip':
                fh.seek(at)
                c = fh.read(1)
                fh.seek(at)
                fh.write(bytes(bytearray([bytearray(c)[0] ^ (1 << (op.get('bit', 0) & 7))])))
            else:
                fh.truncate(at)
        self.torn_mode = op.get('mode', 'trunc')
        t.torn_from = nf
        for f in t.files[nf:]:
            f.torn = True
        self.run.fault('torn-file:' + self.torn_mode)
        self.w.log.add('tear', self.torn_mode, at - s, nf)
        self.run.state(self.cfg['image'], 'tear', self.torn_mode, len(t.files) - nf, nf, min(9, int(10.0 * (at - s) / span)))
        self.driver()

    # -- alien header -----------------------------------------------------

    def do_alien(self, op):
        """
        Append a file whose header carries a type flag no BASIC version writes, with a valid checksum (a tape
        from another system). It is recorded by the engine itself under a temporarily altered type table -
        a harness-side fabrication of input, like the tear. From here on the tape counts as damaged: passing
        over that header may give any BASIC error but no internal error and no stuck device.
        """
        t = self.tape
        if t.torn_from is not None:
            return
        self.driver()
        if not self.to_end():
            self.resync('to-end-failed')
            return
        from pcbasic.basic.devices import cassette
        old = cassette.TYPE_TO_TOKEN[b'D']
        cassette.TYPE_TO_TOKEN[b'D'] = int(op.get('flag', 0x10))
        try:
            self.ex(b'OPEN "CAS1:ALIEN" FOR OUTPUT AS 1')
            self.ex(b'PRINT#1,"alien data"')
            self.ex(b'CLOSE')
        finally:
            cassette.TYPE_TO_TOKEN[b'D'] = old
        self.torn_mode = 'alien'
        t.torn_from = len(t.files)
        self.run.fault('torn-file:alien-header')
        self.w.log.add('alien', op.get('flag', 0x10))
        self.restart()

    # -- main -------------------------------------------------------------

    def go(self):
        self.driver()
        for op in self.ops:
            k = op['op']
            if k in ('data', 'save', 'bsave'):
                self.do_write(op)
            elif k == 'read':
                self.do_read(op)
            elif k == 'restart':
                self.restart()
            elif k == 'suspend':
                self.do_suspend()
            elif k == 'failsave':
                self.do_failsave(op)
            elif k == 'tear':
                self.do_tear(op)
            elif k == 'alien':
                self.do_alien(op)
        self.close()


def _offset(op, n):
    """Offset in segment B800 for a block of n bytes with 8 guard bytes on either side, inside one text page."""
    page = min(3, max(1, int(op.get('page', 1))))
    room = max(0, PAGE_BYTES - 16 - n)
    return page * PAGE + 8 + int(min(1.0, max(0.0, float(op.get('rel', 0.0)))) * room)


def _prefix_of_record_subsequence(got, stream, rec):
    """Is got a prefix of stream with zero or more whole records (rec bytes, the last may be short) removed?"""
    records = [stream[i:i + rec] for i in range(0, len(stream), rec)]
    i = 0
    g = 0
    while g < len(got):
        piece = got[g:g + rec]
        while i < len(records) and records[i][:len(piece)] != piece:
            i += 1
        if i >= len(records):
            return False
        if len(piece) == rec and len(records[i]) != rec:
            return False
        i += 1
        g += rec
    return True


def _match_msgs(got, exp, prefix=False):
    """
    Do the messages got account for exp = [(message, optional)...] in that order? With prefix, anything may
    follow. Returns the messages matched (optional ones included) or None.
    """
    def rec(i, k):
        if k == len(exp):
            return [] if (prefix or i == len(got)) else None
        msg, opt = exp[k]
        if i < len(got) and got[i] == msg:
            r = rec(i + 1, k + 1)
            if r is not None:
                return [msg] + r
        if opt:
            return rec(i, k + 1)
        return None
    return rec(0, 0)


def _diff(a, b_):
    """Short excerpt of a around the first position where it differs from b_."""
    i = 0
    while i < len(a) and i < len(b_) and a[i] == b_[i]:
        i += 1
    return (i, a[max(0, i - 4):i + 16])


def run(case):
    logging.disable(logging.WARNING)   # the engine logs every CRC error of a torn image

    def body(run):
        with run.w:
            Exec(run, case).go()
    return execute(case, body, world_cfg={})
