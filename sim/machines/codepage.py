"""
codepage machine - C41: codepage conversion round-trips; the streaming converter does not
depend on where chunk boundaries fall.

One run = one codepage (with or without box-drawing protection, with or without preserved
control characters) and one byte stream delivered as a seeded sequence of chunks (the ops).
The delivery schedule is the chunking: the same stream is converted
    at once                              (reference arm)
    in the chunks the ops prescribe      (scheduled arm)
    one byte at a time                   (finest schedule)
through `Codepage.get_converter().to_unicode`, `Converter._mark`, `OutputStreamWrapper.write`,
and - in the other direction, on the text the stream decodes to plus seeded extra text -
`InputStreamWrapper.read(n)` with the read sizes the ops prescribe.

Oracles
  * pieces == at-once for every one of these surfaces;
  * `_mark` sequences concatenate to the input, each is one byte or a lead+trail pair, and
    `to_unicode_list` has one element per input byte (a full-width character = cluster + u'');
  * reference splitter (only where its answer is not a matter of interpretation): without box
    protection - or with it, when the stream holds no box-drawing byte - the at-once result
    equals greedy lead+trail pairing looked up in the table as read independently from the
    .ucp file; runs whose stream has a lead+trail-class pair that the table does not define, or
    an undefined single byte, are not judged by this oracle;
  * InputStreamWrapper.read(n): violations are classed by what the text contains (a decomposed
    sequence, a multi-code-point cluster of the table, an e-ASCII pair) and every such text is
    also read with its combining code points removed, where no such excuse exists (class `other`);
  * OutputStreamWrapper never flushes, so what it has written is only required to be a prefix
    of the flushed at-once conversion;
  * finite table audit, once per (codepage, box) per process and replayed into every run that
    uses the codepage: every table entry converts to the cluster the file gives it; every
    cluster of the repertoire survives unicode->bytes->unicode; every byte/pair whose cluster
    no other code point shares survives bytes->unicode->bytes; printable-ASCII glyph
    substitutes survive both ways with use_substitutes=True.
"""

import io
import unicodedata
import collections

from .. import kernel as K
from .common import Run, execute, b, u, shash

NAME = 'codepage'
PROPS = ('C41',)
RULE = ('one evaluation = one (codepage, box protection, preserve set) with one byte stream converted at once, '
        'in the seeded chunking and bytewise through Converter.to_unicode/_mark, OutputStreamWrapper.write and '
        'InputStreamWrapper.read(n); distinct = distinct (codepage kind, box, preserve, converter buffer length '
        'and box state at a chunk boundary, chunk length bucket, next byte class) tuples; non-trivial = the stream '
        'has at least one chunk boundary inside it')
REAL = ['pcbasic.basic.codepage (Codepage, Converter, OutputStreamWrapper, InputStreamWrapper)',
        'pcbasic.data.codepages (all shipped .ucp tables)']
STUB = ['text streams are io.StringIO objects', 'no Session, no clock: the schedule is the chunking']
ASSUMPTIONS = [
    'Codepage objects are built once per worker process and shared by runs (they are immutable after construction)',
    'the table audit result is a function of (codepage, box protection) only and is cached per process',
]
BATCH = 40

SBCS = ['437', '720', '737', '775', '850', '851', '852', '853', '855', '856', '857', '858', '860', '861', '862',
        '863', '864', '865', '866', '868', '869', '874', '1258', 'alternativnyj', 'armscii8a', 'georgian-academy',
        'georgian-ps', 'iransystem', 'kamenicky', 'koi8-r', 'koi8-ru', 'koi8-u', 'mazovia', 'mik', 'osnovnoj',
        'ruscii', 'russup3', 'russup4ac', 'russup4na', 'viscii']
DBCS = ['932', '934', '936', '938', '949', '950', 'big5-2003', 'big5-hkscs']
QUICK_SBCS = ['437', '1258', 'koi8-r', 'russup3', '864', '874']
CONTROL = [7, 9, 10, 11, 12, 13, 28, 29, 30, 31]


def quick_runs(prop):
    return 50000


###############################################################################
# generator

def _gen_bytes(rng, n):
    out = bytearray()
    while len(out) < n:
        k = rng.random()
        if k < 0.22:
            out += bytes(bytearray(rng.choice(b'ABCxyz 019\\~|@[`{') for _ in range(rng.randint(1, 3))))
        elif k < 0.40:
            # box-drawing runs (single and double line in most tables; koi8, 864, osnovnoj variants)
            box = rng.choice([0xC4, 0xC4, 0xCD, 0xCD, 0x80, 0xA0, 0x85, 0x05, 0xA4, 0x94])
            out += bytes(bytearray([box] * rng.randint(1, 6)))
            if rng.random() < 0.3:
                out.append(rng.choice([0xC4, 0xCD]))
        elif k < 0.62:
            # lead + trail
            for _ in range(rng.randint(1, 3)):
                out.append(rng.choice([rng.randint(0x81, 0x9F), rng.randint(0xE0, 0xFC), rng.randint(0xA1, 0xFE),
                                       0x81, 0xFE, 0xC4, 0xCD, 0xB0]))
                out.append(rng.choice([rng.randint(0x40, 0x7E), rng.randint(0x80, 0xFC), rng.randint(0xA1, 0xFE),
                                       0x40, 0x7E, 0x7F, 0xFF, 0xC4, 0xCD, 0xA1]))
        elif k < 0.72:
            out.append(rng.choice([rng.randint(0x81, 0x9F), rng.randint(0xE0, 0xFE), 0xC4, 0xCD]))
        elif k < 0.84:
            out.append(rng.choice(CONTROL + [0, 1, 8, 26, 27, 127, 13, 10]))
        else:
            out.append(rng.randint(0, 255))
    return bytes(out[:n])


EXTRA_TEXT = [u'e\u0301', u'a\u0300', u'A\u030a', u'\u0438\u0306', u'\xe9', u'\u20ac', u'\u3042', u'\uff21',
              u'\x00K', u'\x00;', u'\u2500\u2500', u'\u2550', u'o\u0302\u0301', u'\U0001f600', u'\ufffd', u'\r\n', u'\x1a']


def gen(rng, tier, prop):
    thorough = tier != 'quick'
    if thorough:
        name = rng.choice(DBCS) if rng.random() < 0.5 else rng.choice(SBCS)
    else:
        name = rng.choice(DBCS) if rng.random() < 0.7 else rng.choice(QUICK_SBCS)
    nchunks = rng.randint(1, 40 if thorough else 16)
    sizes = rng.choice([[0, 1, 1, 2, 3], [1, 2, 3, 5, 8], [1], [0, 1, 2, 13, 40]])
    ops = []
    for _ in range(nchunks):
        op = {'op': 'chunk', 'data': u(_gen_bytes(rng, rng.choice(sizes))), 'read': rng.choice([0, 1, 1, 2, 3, 5, 17])}
        if rng.random() < 0.12:
            op['extra'] = rng.choice(EXTRA_TEXT)
        ops.append(op)
    cfg = {
        'codepage': name,
        'box_protect': rng.random() < 0.6,
        'preserve': rng.choice(['none', 'control', 'control']),
        'use_substitutes': rng.random() < 0.2,
    }
    # crash/restart: the converter of a session that was suspended and resumed
    cfg['restored'] = rng.random() < 0.3
    return {'machine': NAME, 'prop': prop, 'cfg': cfg, 'ops': ops}


def simplify(cfg, ops):
    # merge neighbouring chunks, halve chunks, drop extras
    for i in range(len(ops) - 1):
        merged = dict(ops[i], data=ops[i]['data'] + ops[i + 1]['data'])
        yield cfg, ops[:i] + [merged] + ops[i + 2:]
    for i, op in enumerate(ops):
        if 'extra' in op:
            o = dict(op)
            del o['extra']
            yield cfg, ops[:i] + [o] + ops[i + 1:]
        if len(op['data']) > 1:
            yield cfg, ops[:i] + [dict(op, data=op['data'][:len(op['data']) // 2])] + ops[i + 1:]
            yield cfg, ops[:i] + [dict(op, data=op['data'][len(op['data']) // 2:])] + ops[i + 1:]
    if cfg['preserve'] != 'none':
        yield dict(cfg, preserve='none'), ops
    if cfg['use_substitutes']:
        yield dict(cfg, use_substitutes=False), ops


###############################################################################
# independent reading of the table, cached codepage objects, table audit

_TABLES = {}
_CODEPAGES = {}
_AUDITS = {}


def _bchr(i):
    return bytes(bytearray([i]))


def table_info(name):
    """The .ucp file as this harness reads it: normalised clusters, printable ASCII fixed."""
    if name not in _TABLES:
        from pcbasic.data import read_codepage
        raw = read_codepage(name)
        norm = {}
        subst = {}
        asfile = {}
        for k, v in raw.items():
            if len(k) == 1 and 0x20 <= bytearray(k)[0] <= 0x7e and unicodedata.normalize('NFC', v) != chr(bytearray(k)[0]):
                subst[k] = unicodedata.normalize('NFC', v)
                v = chr(bytearray(k)[0])
            asfile[k] = v
            norm[k] = unicodedata.normalize('NFC', v)
        for c in range(0x20, 0x7f):
            # printable ASCII always stands for itself
            asfile.setdefault(_bchr(c), chr(c))
            norm.setdefault(_bchr(c), chr(c))
        count = collections.Counter(norm.values())
        info = {
            'norm': norm, 'subst': subst, 'count': count,
            # the mapping exactly as the file gives it, and how often each cluster occurs in it
            'asfile': asfile, 'count_asfile': collections.Counter(asfile.values()),
            'lead': set(k[:1] for k in norm if len(k) == 2),
            'trail': set(k[1:] for k in norm if len(k) == 2),
            'box': set(k for k, v in norm.items() if len(k) == 1 and v in (u'\u2500', u'\u2550')),
            'dbcs': any(len(k) == 2 for k in norm),
        }
        _TABLES[name] = info
    return _TABLES[name]


def get_codepage(name, box, restored=False):
    """The converter object; with `restored`, the one a resumed session has: saved and rebuilt from the saved form."""
    key = (name, bool(box), bool(restored))
    if key not in _CODEPAGES:
        from pcbasic.data import read_codepage
        from pcbasic.basic.codepage import Codepage
        cp = Codepage(read_codepage(name), bool(box))
        if restored:
            import pickle
            cp = pickle.loads(pickle.dumps(cp, pickle.HIGHEST_PROTOCOL))
        _CODEPAGES[key] = cp
    return _CODEPAGES[key]


def audit(name, box, restored=False):
    """Finite table audit; returns (violations, counts). Pure function of (name, box, restored)."""
    key = (name, bool(box), bool(restored))
    if key in _AUDITS:
        return _AUDITS[key]
    t = table_info(name)
    cp = get_codepage(name, box, restored)
    viol = {}
    counts = collections.Counter()

    def bad(sig, detail):
        viol.setdefault(sig, detail)

    norm, count = t['norm'], t['count']
    asfile, count_asfile = t['asfile'], t['count_asfile']
    for k in sorted(norm):
        want = norm[k]
        got = cp.bytes_to_unicode(k)
        counts['entries'] += 1
        if unicodedata.normalize('NFC', got) != want:
            bad('audit:bytes->unicode:%s' % ('pair' if len(k) == 2 else 'single'),
                'codepage %s box=%s: bytes_to_unicode(%r) = %r, table says %r' % (name, box, k, got, asfile[k]))
            continue
        if count_asfile[asfile[k]] == 1 and u'\0' not in want:
            # the file gives this cluster to no other code point: the mapping is unique
            counts['unique'] += 1
            back = cp.unicode_to_bytes(got)
            if back != k:
                if count[want] > 1 and back in [o for o in norm if norm[o] == want and o != k]:
                    # another code point's cluster is canonically equivalent (NFC-equal) to this one,
                    # and the round trip came back as that code point
                    why = 'printable-ascii-shadowed-by-canonical-equivalent' if (len(k) == 1 and bytearray(k)[0] < 0x7f) \
                        else 'canonically-equivalent-duplicate'
                    others = sorted(o for o in norm if norm[o] == want and o != k)
                    extra = '; %r (%s in the file) normalises to the same cluster' % (others[0], ascii(asfile[others[0]]))
                else:
                    why, extra = ('pair' if len(k) == 2 else 'single'), ''
                bad('audit:bytes->unicode->bytes:' + why,
                    'codepage %s box=%s: %r -> %s -> %r although the file maps only %r to %s%s' % (
                        name, box, k, ascii(got), back, k, ascii(asfile[k]), extra))
    for cl in sorted(count_asfile):
        if u'\0' in cl:
            continue
        counts['repertoire'] += 1
        bs = cp.unicode_to_bytes(cl)
        again = cp.bytes_to_unicode(bs)
        # "the same character" is taken up to canonical equivalence
        if unicodedata.normalize('NFC', again) != unicodedata.normalize('NFC', cl):
            bad('audit:unicode->bytes->unicode:%s' % ('cluster' if len(cl) > 1 else 'char'),
                'codepage %s box=%s: %s -> %r -> %s' % (name, box, ascii(cl), bs, ascii(again)))
    for k in sorted(t['subst']):
        sub = t['subst'][k]
        counts['substitutes'] += 1
        got = cp.bytes_to_unicode(k, use_substitutes=True)
        back = cp.unicode_to_bytes(sub)
        if got != sub or back != k:
            bad('audit:substitute', 'codepage %s: %r shows as %r (file: %r) and %r converts to %r' % (name, k, got, sub, sub, back))
    _AUDITS[key] = (sorted(viol.items()), counts)
    return _AUDITS[key]


###############################################################################
# reference splitter

def ref_units(stream, t, preserve):
    """
    Greedy lead+trail pairing. Returns (units, judged): judged is False if the stream has a
    place where the answer depends on interpretation (pair of lead+trail class that the table
    does not define; undefined single byte).
    """
    units = []
    judged = True
    i = 0
    n = len(stream)
    while i < n:
        c = stream[i:i + 1]
        if c in preserve:
            units.append(c)
            i += 1
            continue
        if t['dbcs'] and c in t['lead'] and i + 1 < n and stream[i + 1:i + 2] in t['trail'] and stream[i + 1:i + 2] not in preserve:
            pair = stream[i:i + 2]
            if pair not in t['norm']:
                judged = False
            units.append(pair)
            i += 2
            continue
        if c not in t['norm']:
            judged = False
        units.append(c)
        i += 1
    return units, judged


def ref_unicode(units, t, preserve, use_substitutes):
    out = []
    for x in units:
        if x in preserve:
            out.append(x.decode('ascii', 'ignore'))
        elif use_substitutes and x in t['subst']:
            out.append(t['subst'][x])
        else:
            out.append(t['norm'].get(x, u''))
    return u''.join(out)


###############################################################################
# the run

def _body(run):
    from pcbasic.basic.codepage import OutputStreamWrapper, InputStreamWrapper
    case = run.case
    cfg = case['cfg']
    w = run.w
    name, box = cfg['codepage'], bool(cfg['box_protect'])
    t = table_info(name)
    cp = get_codepage(name, box, cfg.get("restored"))
    preserve = tuple(_bchr(c) for c in CONTROL) if cfg.get('preserve') == 'control' else ()
    pset = set(preserve)
    usub = bool(cfg.get('use_substitutes'))
    chunks = [b(op['data']) for op in case['ops'] if op['op'] == 'chunk']
    stream = b''.join(chunks)
    kind = 'dbcs' if t['dbcs'] else 'sbcs'
    w.log.add('cfg', name, box, cfg.get('preserve'), usub, len(stream), len(chunks))

    def viol(sig, detail):
        # C41's third clause is about the double-byte *byte-string* converter. Chunk-invariance of the
        # unicode-reading InputStreamWrapper and equality with a reference lead+trail splitter go beyond
        # what the property states: those mismatches are recorded as observations (tagged 'C41-beyond',
        # listed in the evidence, never failing the check).
        prop = 'C41'
        if sig.startswith('chunking:input-read') or sig.startswith('reference:'):
            prop = 'C41-beyond'
        run.violate(prop, sig, 'codepage %s box_protect=%s preserve=%s: %s' % (name, box, cfg.get('preserve'), detail))

    # --- finite audit (cached per process, replayed into the run) -------------------------
    aviol, acounts = audit(name, box, cfg.get("restored"))
    for sig, detail in aviol:
        run.violate('C41', sig, detail)
    w.log.add('audit', tuple(sorted(acounts.items())), tuple(s for s, _ in aviol))
    run.res['stats']['audit_entries'] += acounts['entries']
    run.res['stats']['audit_unique_roundtrips'] += acounts['unique']

    def conv():
        return cp.get_converter(preserve, use_substitutes=usub)

    # --- at once ------------------------------------------------------------------------
    once = conv().to_unicode(stream, flush=True)
    once_marks = conv()._mark(stream, flush=True)
    once_list = conv().to_unicode_list(stream, flush=True)
    w.log.add('once', once, tuple(once_marks))

    if b''.join(once_marks) != stream:
        viol('mark-concat:at-once', '_mark(%r) = %r does not concatenate to the input' % (stream, once_marks))
    for seq in once_marks:
        if not (len(seq) == 1 or (len(seq) == 2 and seq[:1] in t['lead'] and seq[1:] in t['trail'])):
            viol('mark-shape', '_mark(%r) produced %r: neither a single byte nor a lead+trail pair' % (stream, seq))
            break
    if len(once_list) != len(stream):
        viol('list-length', 'to_unicode_list(%r) has %d elements for %d bytes: %r' % (stream, len(once_list), len(stream), once_list))

    # --- reference splitter ---------------------------------------------------------------
    units, judged = ref_units(stream, t, pset)
    has_box = any(_bchr(c) in t['box'] for c in bytearray(stream))
    if judged and (not box or not t['dbcs'] or not has_box):
        run.probe('reference-judged')
        want = ref_unicode(units, t, pset, usub)
        if once != want:
            viol('reference:%s' % ('nobox-split' if not box else 'box-protect-without-box-chars') if t['dbcs'] else 'reference:sbcs-lookup',
                 'to_unicode(%r, flush) = %r, greedy lead+trail pairing through the table gives %r' % (stream, once, want))
        elif once_marks != units:
            viol('reference:mark-units', '_mark(%r) = %r, greedy pairing gives %r' % (stream, once_marks, units))
    else:
        run.probe('reference-not-judged')

    # --- scheduled arms --------------------------------------------------------------------
    def deliver(pieces, arm):
        c1, c2 = conv(), conv()
        out = []
        marks = []
        for i, piece in enumerate(pieces):
            out.append(c1.to_unicode(piece))
            marks.extend(c2._mark(piece))
            if i + 1 < len(pieces):
                # coverage only: converter state at the chunk boundary
                nxt = pieces[i + 1][:1]
                ncls = ('lead' if nxt in t['lead'] else '') + ('trail' if nxt in t['trail'] else '') + \
                       ('box' if nxt in t['box'] else '') + ('ctl' if nxt in pset else '')
                run.state(kind, box, bool(pset), len(c1._buf), c1._bset != -1, min(len(piece), 3), ncls)
                if len(c1._buf) == 1:
                    run.probe('lead-byte-split-across-chunks')
                elif len(c1._buf) == 2:
                    run.probe('box-lookahead-held-across-chunks')
                elif c1._bset != -1:
                    run.probe('box-run-continues-across-chunks')
        out.append(c1.to_unicode(b'', flush=True))
        marks.extend(c2._mark(b'', flush=True))
        got = u''.join(out)
        w.log.add(arm, got, tuple(marks))
        if got != once:
            viol('chunking:to_unicode', 'arm %s: pieces %r give %r, at once %r' % (arm, pieces, got, once))
        if b''.join(marks) != stream:
            viol('mark-concat:pieces', 'arm %s: _mark over pieces %r = %r does not concatenate to the input' % (arm, pieces, marks))
        elif marks != once_marks:
            viol('chunking:_mark', 'arm %s: pieces %r split as %r, at once %r' % (arm, pieces, marks, once_marks))

    deliver(chunks, 'chunks')
    deliver([stream[i:i + 1] for i in range(len(stream))], 'bytewise')

    # --- OutputStreamWrapper ---------------------------------------------------------------
    def written(pieces):
        sink = io.StringIO()
        wr = OutputStreamWrapper(sink, cp, preserve)
        for piece in pieces:
            wr.write(piece)
        return sink.getvalue()

    out_once = written([stream])
    out_chunks = written(chunks)
    out_bytes = written([stream[i:i + 1] for i in range(len(stream))])
    flushed = cp.get_converter(preserve).to_unicode(stream, flush=True)
    w.log.add('out', out_once, out_chunks)
    if out_chunks != out_once or out_bytes != out_once:
        viol('chunking:output-wrapper', 'write(%r) gives %r, in pieces %r gives %r, bytewise %r' % (stream, out_once, chunks, out_chunks, out_bytes))
    if not flushed.startswith(out_once):
        viol('output-wrapper-not-prefix', 'write(%r) wrote %r which is not a prefix of the flushed conversion %r' % (stream, out_once, flushed))
    elif out_once != flushed:
        run.probe('output-wrapper-holds-tail')

    # --- InputStreamWrapper ------------------------------------------------------------------
    # text = what each chunk decodes to through the reference table; a second text has seeded
    # extra characters (decomposed sequences, characters outside the repertoire, e-ASCII) mixed in
    plain, mixed = [], []
    has_extra = False
    for op in case['ops']:
        if op['op'] != 'chunk':
            continue
        us, _ = ref_units(b(op['data']), t, set())
        piece = u''.join(t['norm'].get(x, u'') for x in us).replace(u'\0', u'')
        plain.append(piece)
        mixed.append(piece)
        if op.get('extra'):
            has_extra = True
            mixed.append(op['extra'])
    sizes = [op.get('read', 1) for op in case['ops'] if op['op'] == 'chunk'] or [1]
    if not any(sizes):
        sizes = sizes + [1]

    def read_in(text, sz):
        sio = io.StringIO(text)
        rd = InputStreamWrapper(sio, cp)
        out = []
        i = 0
        while True:
            n = sz[i % len(sz)]
            i += 1
            piece = rd.read(n)
            if len(piece) > n:
                viol('input-read-overlong', 'read(%d) returned %d bytes: %r' % (n, len(piece), piece))
            out.append(piece)
            if n > 0 and not piece:
                if sio.tell() >= len(text):
                    break
                # empty read before the end of the text: a reader would take it for end of file
                run.probe('input-read-empty-before-eof')
            if i > 8 * len(text) + 64 + 8 * len(sz):
                raise K.HarnessError('read loop does not end')
        return b''.join(out)

    def is_cut_sensitive(text):
        """The text has a place where a read boundary separates code points that belong together."""
        ntext = unicodedata.normalize('NFC', text)
        if any(unicodedata.normalize('NFC', text[:i]) + unicodedata.normalize('NFC', text[i:]) != ntext
               for i in range(len(text) + 1)):
            return 'decomposed-sequence'
        if any(len(cl) > 1 and cl in ntext for cl in t['count']):
            return 'table-cluster'
        if u'\0' in text:
            return 'e-ascii'
        return None

    texts = [('repertoire-text', u''.join(plain))] + ([('with-extra-text', u''.join(mixed))] if has_extra else [])
    for label, text in list(texts):
        if is_cut_sensitive(text):
            # the same text without the code points that combine with a neighbour: on it, any
            # dependence on read boundaries has no such excuse
            plain_text = u''.join(ch for ch in unicodedata.normalize('NFC', text)
                                  if not unicodedata.combining(ch) and ch != u'\0')
            if not is_cut_sensitive(plain_text):
                texts.append((label + '-without-combining', plain_text))
    for label, text in texts:
        all_once = InputStreamWrapper(io.StringIO(text), cp).read()
        direct = cp.unicode_to_bytes(text, errors='replace')
        got = read_in(text, sizes)
        got1 = read_in(text, [1])
        w.log.add('in', label, all_once, got, got1)
        if all_once != direct:
            viol('input-read-all-vs-unicode_to_bytes', 'read() of %r = %r, unicode_to_bytes gives %r' % (text, all_once, direct))
        for g, sz in ((got, sizes), (got1, [1])):
            if g != all_once:
                viol('chunking:input-read:%s:%s' % (label, is_cut_sensitive(text) or 'other'),
                     'text %s read with sizes %r gives %r, read() at once gives %r' % (ascii(text), sz, g, all_once))
                break
    run.probe('input-reads')
    if len(chunks) > 1 and stream:
        run.probe('nontrivial')


def run(case):
    return execute(case, _body, world_cfg={})
