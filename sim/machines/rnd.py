"""
rnd machine - C39: RND is a deterministic full-period LCG sequence in [0,1).

Histories of RND / RND(0) / RND(x>0) / RND(-x) / RANDOMIZE n / RANDOMIZE TIMER / RUN / CLEAR /
NEW / suspend+resume / clock jumps, run in two arms with different clocks, poll jitter and
trap orders. Oracle: reference LCG; reseed functions are only required to be *functions*
(same previous seed, same argument -> same next seed), not modelled.
"""

import os

from .. import kernel as K
from ..basicdrv import Driver
from .common import Run, execute, b, u, shash

NAME = 'rnd'
PROPS = ('C39',)
RULE = ('one evaluation = one simulated session history (two arms with different clock/jitter/'
        'trap order); distinct = distinct (previous op kind, op kind, seed-known?, low seed byte '
        'bucket) tuples reached; non-trivial = at least one RND value was checked against the LCG')
REAL = ['pcbasic.basic (whole package)', 'pcbasic.basic.values.randomiser', 'pcbasic.basic.state (pickle/zlib)']
STUB = ['wall clock (simulated)', 'interface queues (simulated, recording)']
ASSUMPTIONS = [
    'full period of the reference LCG follows from Hull-Dobell (c odd, a-1 divisible by 4, m=2^24), '
    'asserted on the constants; the thorough tier also iterates all 2^24 states',
]
BATCH = 25

A = 214013
C = 2531011
M = 1 << 24
S0 = 0x4FC752
assert C % 2 == 1 and (A - 1) % 4 == 0


def quick_runs(prop):
    return 1600


def gen(rng, tier, prop):
    n = rng.randint(4, 40 if tier == 'quick' else 120)
    ops = []
    reseed_args = [str(rng.choice([0, 1, -1, 2, 42, 255, 256, -32768, 32767, rng.randint(-32768, 32767)])) for _ in range(3)]
    reseed_args += [rng.choice(['1#', '.25#', '1E10', '3.5', '-7.25', '65536', '1D-20'])]
    neg_args = [rng.choice(['-1', '-2', '-.5', '-1E10', '-3.25', '-32768', '-1E-30', '-16777216']) for _ in range(3)]
    for _ in range(n):
        r = rng.random()
        if r < 0.40:
            ops.append({'op': 'rnd', 'n': rng.randint(1, 5), 'via': rng.choice(['eval', 'var', 'prog'])})
        elif r < 0.44:
            ops.append({'op': 'rnd0', 'x': rng.choice(['0', '0', '-0', '-Z!', '-1E-39', '0*-1', '-Z#', 'Z!', '-4E-39+3E-39', 'CVS(MKS$(0))', '-(Z%)'])})
        elif r < 0.47:
            ops.append({'op': 'rndpair', 'f': rng.choice(['RND-RND', 'RND(1)-RND', 'RND-RND(2.5)'])})
        elif r < 0.54:
            ops.append({'op': 'rndpos', 'x': rng.choice(['1', '2.5', '1E10', '.001', '32767'])})
        elif r < 0.64:
            ops.append({'op': 'rndneg', 'x': rng.choice(neg_args)})
        elif r < 0.73:
            ops.append({'op': 'randomize', 'x': rng.choice(reseed_args)})
        elif r < 0.745:
            # a RANDOMIZE that fails part-way must leave the sequence where it was
            ops.append({'op': 'randomize_fail', 'x': rng.choice(['"12"', 'S$', 'S$+"1"', '1/0*0', 'ASC("")', 'CVI("")'])})
        elif r < 0.76:
            # no argument: the seed is asked for at a prompt and typed by the simulated user
            ops.append({'op': 'randomize_prompt', 'text': rng.choice(['1', '0', '-5', '32767', '40000', '-32769', '1e+100', '3.7',
                                                                      'abc', '', '12,3', '65536', '1D5'])})
        elif r < 0.79:
            ops.append({'op': 'randomize_timer'})
        elif r < 0.86:
            ops.append({'op': rng.choice(['clear', 'run', 'new'])})
        elif r < 0.92:
            ops.append({'op': 'resume'})
        elif r < 0.96:
            ops.append({'op': 'clockjump', 's': rng.choice([-86400, -3600, -1, 1, 61, 3600, 86400 * 31])})
        else:
            ops.append({'op': 'chain', 'n': rng.randint(10, 300 if tier == 'quick' else 20000)})
    cfg = {
        'session': {
            'syntax': rng.choice(['advanced', 'pcjr', 'tandy']),
            'double': rng.random() < 0.3,
        },
        'arms': [
            {'start_us': K.DEFAULT_START_US, 'sleep0_us': 50, 'trap_order': 0},
            {'start_us': K.DEFAULT_START_US + rng.randint(-10 ** 9, 10 ** 9) * 1000,
             'sleep0_us': rng.choice([0, 1, 500, 20000]), 'trap_order': rng.randint(0, 3)},
        ],
    }
    return {'machine': NAME, 'prop': prop, 'cfg': cfg, 'ops': ops}


def simplify(cfg, ops):
    for i, op in enumerate(ops):
        if op['op'] == 'rnd' and (op['n'] > 1 or op['via'] != 'eval'):
            yield cfg, ops[:i] + [dict(op, n=1, via='eval')] + ops[i + 1:]
        if op['op'] == 'chain' and op['n'] > 10:
            yield cfg, ops[:i] + [dict(op, n=10)] + ops[i + 1:]


class Model(object):
    def __init__(self, memo):
        self.s = S0
        self.memo = memo
        self.pending_key = None

    def reset(self):
        self.s = S0
        self.pending_key = None

    def step(self):
        if self.s is not None:
            self.s = (A * self.s + C) % M


def _arm(run, w, cfg, ops, memo, arm_no):
    sk = dict(cfg['session'])
    scratch = run.make_scratch()
    with w:
        d = Driver(w, **sk)
        m = Model(memo)
        prev = 'start'

        def observe(v, stepped=True):
            """One value read from the engine after the model stepped (or not, for RND(0))."""
            run.probe('values_checked')
            if not (0.0 <= v < 1.0):
                run.violate('C39', 'range', 'RND value %r outside [0,1) (arm %d)' % (v, arm_no))
                return
            sv = v * M
            if sv != int(sv):
                run.violate('C39', 'not-seed/2^24', 'RND value %r is not k/2^24 (arm %d)' % (v, arm_no))
                return
            sv = int(sv)
            if m.s is None:
                m.s = sv
                if m.pending_key is not None:
                    old = memo.setdefault(m.pending_key, sv)
                    if old != sv:
                        run.violate('C39', 'reseed-not-a-function',
                                    'reseed %r gave seed %d, earlier %d (arm %d)' % (m.pending_key, sv, old, arm_no))
                    m.pending_key = None
            elif m.s != sv:
                run.violate('C39', 'sequence', 'expected seed %d (value %r), engine returned %r = seed %d (arm %d)' % (
                    m.s, m.s / M, v, sv, arm_no))
                m.s = sv

        for op in ops:
            k = op['op']
            run.state(prev, k, m.s is not None, (m.s or 0) & 3)
            prev = k
            if k == 'rnd':
                for _ in range(op['n']):
                    m.step()
                    if op['via'] == 'eval':
                        v = d.eval(b'RND')
                    elif op['via'] == 'var':
                        d.exec(b'Q!=RND')
                        v = d.get(b'Q!')
                    else:
                        # via a stored program would RUN (which resets); use a direct loop instead
                        d.exec(b'FOR I%=1 TO 1:Q!=RND:NEXT')
                        v = d.get(b'Q!')
                    observe(v)
            elif k == 'rnd0':
                # any argument that BASIC treats as zero (prints 0, =0 is true), also one that carries a sign bit
                x = b(op.get('x', '0'))
                d.exec(b'Z!=0:Z#=0:Z%=0')
                v = d.eval(b'RND(' + x + b')')
                if m.s is not None:
                    observe(v, stepped=False)
                v2 = d.eval(b'RND(' + x + b')')
                if v2 != v:
                    run.violate('C39', 'rnd0-not-repeating', 'RND(%s) gave %r then %r' % (op.get('x', '0'), v, v2))
            elif k == 'rndpair':
                # two values alive in one expression: each must be its own seed / 2^24
                if m.s is not None:
                    m.step()
                    s1 = m.s
                    m.step()
                    s2 = m.s
                    v = d.eval(b(op['f']))
                    run.probe('pairs_checked')
                    if v != (s1 - s2) / float(M):
                        run.violate('C39', 'two-values-in-one-expression', '%s gave %r, expected %d/2^24 - %d/2^24 = %r' % (
                            op['f'], v, s1, s2, (s1 - s2) / float(M)))
                else:
                    d.eval(b(op['f']))
                    m.s = None
            elif k == 'rndpos':
                m.step()
                observe(d.eval(b'RND(' + b(op['x']) + b')'))
            elif k == 'rndneg':
                m.s = None
                m.pending_key = ('neg', op['x'])
                observe(d.eval(b'RND(' + b(op['x']) + b')'))
            elif k == 'randomize':
                r = d.exec(b'RANDOMIZE ' + b(op['x']))
                if r.err is None:
                    prev_s = m.s
                    m.s = None
                    m.pending_key = ('rz', prev_s, op['x']) if prev_s is not None else None
                    # RANDOMIZE sets the seed; the next RND steps from it. We cannot see the seed
                    # itself, only the value after one step, which is still a function of the key.
                    observe(d.eval(b'RND'))
                elif r.err not in (6,):
                    run.violate('C39', 'randomize-error', 'RANDOMIZE %s -> %r' % (op['x'], r))
            elif k == 'randomize_fail':
                r = d.exec(b'S$="7":RANDOMIZE ' + b(op['x']))
                run.probe('failed_randomize')
                if r.err is None:
                    # accepted after all: it is a reseed like any other
                    prev_s = m.s
                    m.s = None
                    m.pending_key = ('rz', prev_s, op['x']) if prev_s is not None else None
                    observe(d.eval(b'RND'))
                # refused: the model's seed is unchanged, the next value is checked against it
            elif k == 'randomize_prompt':
                # answers that are refused ("?Redo from start") are followed by a valid one
                w.inputs.pending.append(K.sig_stream(u(op['text']) + u'\r'))
                w.inputs.pending.append(K.sig_stream(u'77\r'))
                r = d.exec(b'RANDOMIZE', poll_cap=400)
                w.inputs.pending.clear()
                # an answer that was not needed must not be read by a later prompt
                d.exec(b'WHILE INKEY$<>"":WEND')
                run.probe('prompted_randomize')
                if r.err is None:
                    prev_s = m.s
                    m.s = None
                    # how many answers were consumed is the engine's business: the key is the text
                    m.pending_key = ('rzp', prev_s, op['text']) if prev_s is not None else None
                    observe(d.eval(b'RND'))
            elif k == 'randomize_timer':
                d.exec(b'RANDOMIZE TIMER')
                m.s = None
                m.pending_key = None
                observe(d.eval(b'RND'))
            elif k in ('clear', 'run', 'new'):
                d.exec({'clear': b'CLEAR', 'run': b'RUN', 'new': b'NEW'}[k])
                m.reset()
                run.probe('reset_ops')
            elif k == 'clockjump':
                w.jump_clock(op['s'])
            elif k == 'resume':
                path = os.path.join(scratch, 'state-%d.bin' % arm_no)
                from pcbasic.basic import Session
                d._guard('suspend', lambda: d.s.suspend(path))
                d.close()
                s2 = d._guard('resume', lambda: Session.resume(path))
                d = Driver(w, session=s2)
                run.fault('restart')
            elif k == 'chain':
                n = op['n']
                d.exec(b'FOR I=1 TO %d:Q!=RND:NEXT' % n, poll_cap=n * 3 + 1000)
                for _ in range(n):
                    m.step()
                observe(d.get(b'Q!'))
                run.probe('chain_steps', n)
        d.close()


def run(case):
    def body(run):
        memo = {}
        cfg = case['cfg']
        for i, armcfg in enumerate(cfg['arms']):
            w = run.w if i == 0 else run.new_world(armcfg)
            if i == 0:
                w.cfg.update(armcfg)
                w.clock_us = w.start_us = armcfg['start_us']
                w.sleep0_us = armcfg['sleep0_us']
            _arm(run, w, cfg, case['ops'], memo, i)
    return execute(case, body, world_cfg={})
