"""
kbd machine - C37: the keyboard buffer is a 15-key FIFO mirrored in BIOS memory.

Producer: the user (key-down signals delivered at chosen polls, between direct statements and
while a stored program spins on INKEY$). Consumer: INKEY$, INPUT$, LINE INPUT. Oracle: a
deque with drop-when-15-waiting, plus the BIOS ring pointers/slots read through PEEK and the
documented clearing POKE.
"""

import os

from .. import kernel as K
from ..basicdrv import Driver, suspend_resume
from .common import Run, execute, b, u

NAME = 'kbd'
PROPS = ('C37',)
RULE = ('one evaluation = one session history of typing bursts and reads; distinct = distinct '
        '(op kind, keys waiting before, keys typed bucket, head slot) tuples; non-trivial = at least '
        'one read or BIOS-memory comparison against the FIFO model happened')
REAL = ['pcbasic.basic (whole package): eventcycle input dispatch, inputs.keyboard ring buffer, machine.Memory low-memory PEEK/POKE']
STUB = ['the typist (key-down signals scheduled by the simulator)', 'audio back end (recording queue)', 'wall clock (simulated)']
BATCH = 25

# scancodes of ordinary keys (no modifiers, toggles, break, keypad)
SAFE_SCANS = list(range(0x02, 0x0c)) + list(range(0x10, 0x1a)) + list(range(0x1e, 0x27)) + list(range(0x2c, 0x33))
PLAIN = 'abcdefghijklmnopqrstuvwxyzABCDEFGHIJKLMNOPQRSTUVWXYZ0123456789 !#%&()*+,-./:;<=>?@[]^_'
FKEYS = [('\x00\x3b', 0x3b), ('\x00\x3c', 0x3c), ('\x00\x3d', 0x3d), ('\x00\x44', 0x44)]
ARROWS = [('\x00\x48', 0x48), ('\x00\x50', 0x50), ('\x00\x4b', 0x4b), ('\x00\x4d', 0x4d)]
CAP = 15
RING_BASE = 1024 + 30
RING_END = RING_BASE + 32


def quick_runs(prop):
    return 1400


def _key(rng):
    r = rng.random()
    if r < 0.8:
        return [rng.choice(PLAIN), rng.choice(SAFE_SCANS)]
    if r < 0.88:
        return list(rng.choice(FKEYS))
    if r < 0.94:
        return list(rng.choice(ARROWS))
    return [rng.choice(['\r', '\t', '\x1b', '\x08']), rng.choice(SAFE_SCANS)]


def gen(rng, tier, prop):
    n = rng.randint(5, 30 if tier == 'quick' else 90)
    ops = []
    for _ in range(n):
        r = rng.random()
        if r < 0.34:
            m = rng.choice([1, 1, 2, 3, 5, 8, 14, 15, 16, 17, 20, 31])
            ops.append({'op': 'type', 'keys': [_key(rng) for _ in range(m)]})
        elif r < 0.54:
            ops.append({'op': 'inkey', 'n': rng.randint(1, 6)})
        elif r < 0.62:
            ops.append({'op': 'inputs', 'n': rng.randint(1, 5)})
        elif r < 0.76:
            ops.append({'op': 'peek'})
        elif r < 0.84:
            ops.append({'op': 'clear'})
        elif r < 0.92:
            # asynchronous arrival while a program spins on INKEY$
            bursts = []
            total = rng.randint(1, 15)
            left = total
            while left:
                k = rng.randint(1, left)
                bursts.append({'poll': rng.randint(1, 40), 'keys': [[rng.choice(PLAIN), rng.choice(SAFE_SCANS)] for _ in range(k)]})
                left -= k
            ops.append({'op': 'spin', 'bursts': bursts})
        elif r < 0.94:
            ops.append({'op': 'resume'})
        elif r < 0.96:
            # as 'spin', with Ctrl+Break typed between the keys (also in the same poll) and CONT after each stop
            bursts = []
            left = rng.randint(2, 12)
            nbreaks = 0
            while left:
                k = rng.randint(1, left)
                items = [[rng.choice(PLAIN), rng.choice(SAFE_SCANS)] for _ in range(k)]
                if nbreaks < 3 and rng.random() < 0.6:
                    items.insert(rng.randint(0, len(items)), 'break')
                    nbreaks += 1
                bursts.append({'poll': rng.randint(1, 60), 'items': items})
                left -= k
            ops.append({'op': 'spinbreak', 'bursts': bursts, 'via': rng.choice(['inkey', 'inkey', 'input$'])})
        else:
            ops.append({'op': 'lineinput', 'text': ''.join(rng.choice(PLAIN[:62]) for _ in range(rng.randint(0, 8)))})
    cfg = {
        'session': {'syntax': rng.choice(['advanced', 'pcjr', 'tandy'])},
        'world': {'sleep0_us': rng.choice([0, 50, 5000])},
    }
    return {'machine': NAME, 'prop': prop, 'cfg': cfg, 'ops': ops}


def simplify(cfg, ops):
    for i, op in enumerate(ops):
        if op['op'] == 'type' and len(op['keys']) > 1:
            for cut in (len(op['keys']) // 2, len(op['keys']) - 1):
                if cut >= 1:
                    yield cfg, ops[:i] + [dict(op, keys=op['keys'][:cut])] + ops[i + 1:]
        if op['op'] == 'type':
            plain = [[('a' if len(c) == 1 else c), s] for c, s in op['keys']]
            if plain != op['keys']:
                yield cfg, ops[:i] + [dict(op, keys=plain)] + ops[i + 1:]
        if op['op'] == 'inkey' and op['n'] > 1:
            yield cfg, ops[:i] + [dict(op, n=1)] + ops[i + 1:]


def _beeps(w):
    return sum(1 for (_, typ, params) in w.audio.signals if typ == 'tone' and len(params) > 1 and params[1] == 800)


def run(case):
    def body(run):
        w = run.w
        scratch = run.make_scratch()
        with w:
            d = Driver(w, **case['cfg']['session'])
            model = []   # waiting keys: (bytes, scan)
            # function keys pass through as keystrokes when their macro is empty
            for i in range(1, 11):
                d.exec(b'KEY %d,""' % i)
            d.exec(b'DEF SEG=0')

            def deliver(keys):
                """Type keys now; they enter the buffer at the engine's next poll."""
                before = _beeps(w)
                for c, scan in keys:
                    w.inputs.pending.append(K.sig_key(c, scan, ()))
                d.exec(b"'")
                dropped = 0
                for c, scan in keys:
                    if len(model) < CAP:
                        model.append((b(c), scan))
                    else:
                        dropped += 1
                if dropped:
                    run.probe('keys_dropped', dropped)
                beeps = _beeps(w) - before
                if beeps != dropped:
                    run.violate('C37', 'drop-beep-count', 'typed %d keys with %d waiting: %d dropped by the model, %d full-buffer beeps' % (
                        len(keys), len(model), dropped, beeps))

            for op in case['ops']:
                k = op['op']
                run.state(k, len(model), min(len(op.get('keys', ())), 17))
                if k == 'type':
                    deliver(op['keys'])
                elif k == 'inkey':
                    for _ in range(op['n']):
                        d.exec(b'A$=INKEY$')
                        got = b(d.get(b'A$')) if not isinstance(d.get(b'A$'), bytes) else d.get(b'A$')
                        exp = model.pop(0)[0] if model else b''
                        run.probe('reads')
                        if got != exp:
                            cls = 'inkey-mismatch'
                            if exp == b'' and got != b'':
                                cls = 'inkey-delivers-from-empty-buffer'
                            elif got == b'' and exp != b'':
                                cls = 'inkey-loses-key'
                            run.violate('C37', cls, 'INKEY$ returned %r, FIFO model expected %r (%d still waiting in model)' % (got, exp, len(model)))
                            return
                elif k == 'inputs':
                    n = op['n']
                    # INPUT$ counts bytes; extended keys deliver two bytes, so only model plain keys here
                    avail = 0
                    for c, _ in model:
                        if len(c) != 1:
                            break
                        avail += 1
                    if avail < n:
                        continue
                    d.exec(b'A$=INPUT$(%d)' % n)
                    got = d.get(b'A$')
                    exp = b''.join(c for c, _ in model[:n])
                    del model[:n]
                    run.probe('reads', n)
                    if got != exp:
                        run.violate('C37', 'input$-mismatch', 'INPUT$(%d) returned %r, expected %r' % (n, got, exp))
                        return
                elif k == 'peek':
                    head = int(d.eval(b'PEEK(1050)')) + 256 * int(d.eval(b'PEEK(1051)'))
                    tail = int(d.eval(b'PEEK(1052)')) + 256 * int(d.eval(b'PEEK(1053)'))
                    run.probe('bios_reads')
                    ok_ptr = all(30 <= p < 62 and p % 2 == 0 for p in (head, tail))
                    if not ok_ptr:
                        run.violate('C37', 'bios-pointer-out-of-ring', 'head=%d tail=%d not in 30..60 step 2' % (head, tail))
                        return
                    waiting = ((tail - head) // 2) % 16
                    if waiting != len(model):
                        run.violate('C37', 'bios-count-mismatch', 'ring pointers head=%d tail=%d show %d waiting, FIFO model has %d' % (
                            head, tail, waiting, len(model)))
                        return
                    run.state('head', head)
                    p = head
                    for c, scan in model:
                        cb = int(d.eval(b'PEEK(%d)' % (1024 + p)))
                        sb = int(d.eval(b'PEEK(%d)' % (1024 + p + 1)))
                        if len(c) == 1 and cb != c[0]:
                            run.violate('C37', 'bios-slot-char', 'slot at %d holds char %d, expected %d' % (1024 + p, cb, c[0]))
                            return
                        if scan is not None and sb != scan:
                            run.violate('C37', 'bios-slot-scancode', 'slot at %d holds scancode %d, expected %d' % (1024 + p + 1, sb, scan))
                            return
                        p += 2
                        if p >= 62:
                            p = 30
                            run.probe('ring_wrapped')
                elif k == 'clear':
                    d.exec(b'POKE 1050,PEEK(1052)')
                    had = len(model)
                    del model[:]
                    d.exec(b'A$=INKEY$')
                    got = d.get(b'A$')
                    run.probe('clears')
                    if got != b'':
                        run.violate('C37', 'clear-poke-leaves-keys', 'after POKE 1050,PEEK(1052) with %d keys waiting, INKEY$ returned %r' % (had, got))
                        return
                elif k == 'spin':
                    total = sum(len(bu['keys']) for bu in op['bursts'])
                    if total + len(model) > CAP:
                        # drops would depend on the interleaving; only drop-free schedules are judged
                        continue
                    want = len(model) + total
                    d.exec(b'NEW')
                    d.exec(b'10 N=0:R$=""')
                    d.exec(b'20 WHILE N<%d:A$=INKEY$:IF A$<>"" THEN R$=R$+A$:N=N+1' % want)
                    d.exec(b'30 WEND')
                    keys = []
                    for bu in op['bursts']:
                        for c, scan in bu['keys']:
                            w.at_poll(bu['poll'], K.sig_key(c, scan, ()))
                    # order of arrival: by poll, then generation order
                    for bu in sorted(op['bursts'], key=lambda x: x['poll']):
                        keys.extend(bu['keys'])
                    exp = b''.join(c for c, _ in model) + b''.join(b(c) for c, _ in keys)
                    del model[:]
                    d.exec(b'RUN', poll_cap=5000)
                    got = d.get(b'R$')
                    run.probe('spin_runs')
                    if got != exp:
                        run.violate('C37', 'async-order-or-loss', 'program spinning on INKEY$ collected %r, typed %r' % (got, exp))
                        return
                    d.exec(b'DEF SEG=0')
                elif k == 'spinbreak':
                    keys = []
                    for bu in sorted(op['bursts'], key=lambda x: x['poll']):
                        keys.extend(it for it in bu['items'] if it != 'break')
                    nbreaks = sum(1 for bu in op['bursts'] for it in bu['items'] if it == 'break')
                    if len(keys) + len(model) > CAP or any(len(c) != 1 for c, _ in model):
                        continue
                    want = len(model) + len(keys)
                    d.exec(b'NEW')
                    d.exec(b'10 N=0:R$=""')
                    if op['via'] == 'inkey':
                        d.exec(b'20 WHILE N<%d:A$=INKEY$:IF A$<>"" THEN R$=R$+A$:N=N+1' % want)
                    else:
                        d.exec(b'20 WHILE N<%d:A$=INPUT$(1):R$=R$+A$:N=N+1' % want)
                    d.exec(b'30 WEND')
                    for bu in op['bursts']:
                        for it in bu['items']:
                            w.at_poll(bu['poll'], K.sig_break() if it == 'break' else K.sig_key(it[0], it[1], ()))
                    exp = b''.join(c for c, _ in model) + b''.join(b(c) for c, _ in keys)
                    del model[:]
                    outs = []
                    stops = 0
                    started = True
                    try:
                        r = d.exec(b'RUN', poll_cap=5000)
                        outs.append(r.out)
                        while b'Break' in r.out and stops <= nbreaks:
                            stops += 1
                            if b'Break in ' not in r.out and len(outs) == 1:
                                # the Break came before RUN had started the program: nothing to continue
                                started = False
                                break
                            # (a Break that comes before CONT has taken effect leaves the stop position as it was)
                            run.probe('break_then_cont')
                            r = d.exec(b'CONT', poll_cap=5000)
                            outs.append(r.out)
                    except K.SimAbort:
                        # every key has been typed long ago and the program still waits for one
                        run.violate('C37', 'async-order-or-loss:with-break-between-keys:never-arrives',
                                    'program spinning on %s was still waiting after 5000 polls, %d stop(s); typed %r; output %r' % (
                                        op['via'].upper(), stops, exp, outs))
                        return
                    if not started or r.err is not None:
                        # not judged: empty the buffer and carry on
                        run.probe('spinbreak_not_judged')
                        w._at_poll.clear()
                        w.inputs.pending.clear()
                        d.exec(b'DEF SEG=0:POKE 1050,PEEK(1052)', poll_cap=200)
                        d.exec(b'WHILE INKEY$<>"":WEND', poll_cap=400)
                        continue
                    got = d.get(b'R$')
                    run.probe('spin_runs')
                    if got != exp:
                        lost = len(got) < len(exp)
                        run.violate('C37', 'async-order-or-loss:with-break-between-keys:' + ('lost' if lost else 'other'),
                                    'program spinning on %s, stopped by Ctrl+Break %d time(s) and continued, collected %r; typed %r; output %r' % (
                                        op['via'].upper(), stops, got, exp, outs))
                        return
                    d.exec(b'DEF SEG=0')
                elif k == 'lineinput':
                    if any(len(c) != 1 or c in (b'\r', b'\t', b'\x1b', b'\x08') for c, _ in model):
                        continue
                    text = op['text']
                    if len(model) + len(text) + 1 > CAP:
                        continue
                    pre = b''.join(c for c, _ in model)
                    del model[:]
                    for ch in text + '\r':
                        w.inputs.pending.append(K.sig_key(ch, 0x1e, ()))
                    d.exec(b'LINE INPUT A$', poll_cap=3000)
                    got = d.get(b'A$')
                    exp = (pre + b(text))
                    run.probe('line_inputs')
                    # the line comes from the screen editor, which drops blanks at the end of the line (as GW-BASIC's does):
                    # trailing blanks are not judged
                    if got.rstrip(b' ') != exp.rstrip(b' '):
                        run.violate('C37', 'lineinput-mismatch', 'LINE INPUT returned %r, typed %r' % (got, exp))
                        return
                elif k == 'resume':
                    d = suspend_resume(d, os.path.join(scratch, 'st.bin'))
            d.close()
    return execute(case, body)
