"""
save machine - C15 and C16.

C15  Saved programs load back identically in every file format.
     A program (canonical template lines / raw lines with EOF bytes, high-bit bytes and over-long
     listings / a harness-built tokenised file with arbitrary REM bytes and line numbers above
     65529 / a bundled corpus program) lives in a Session. Ops: edit a line; SAVE in B / ,P / ,A to
     a disk mount (Z:), a bound file on the internal device (@:) or a cassette image (CAS1:), close
     the Session, open a fresh one on the same scratch tree ("restart": only durable state
     survives), LOAD (or MERGE) and compare; the same with an I/O error injected into the save;
     the same with the saved file torn (truncated / one byte altered) before the load; a save whose
     last flush fails at close (the buffered tail never reaches the file): a SAVE that reported no error is
     acknowledged and must load back identically, one that reported an error may leave anything; OPEN of a
     data file under the name of a later SAVE failing inside the host open (EACCES/EMFILE/EIO/ENOSPC);
     bounded liveness ("settle"): once the faults have stopped and files are closed, SAVE in every format under
     every name a faulted statement was aimed at succeeds in the Session that saw the faults and LOAD in a
     second Session gives the program back; the
     command-line converter (pcbasic.main.main("--convert=..")) against LOAD+SAVE in a Session;
     the protection cipher on byte strings covering every (position mod 143, byte) pair.

C16  A protected program never discloses its text in direct mode.
     A generated program carrying unique 12-byte markers in REM, DATA and never-printed,
     never-assigned string literals is saved ,P; a fresh Session with hide_protected=True loads it
     and is driven through a direct-mode history (exec'd, typed through the keyboard seam, or
     typed by function-key macros). Information-flow oracle: no 6-byte window of any marker may
     ever appear in the output pipe, the output stream, get_chars, the text of video `update`
     signals, any scratch file that is not a ,P file (first byte FE), the LPT1 capture, the tape
     image, or variables assigned by direct-mode statements; the same for any 6-byte window of the
     program's tokenised image that holds at least two non-printable bytes (raw program bytes, not only
     markers). Histories include SAVE with ,A / ,P / no option aimed at LPT1: SCRN: CAS1: COM1: KYBD: and
     disk, and an unprotected loader that assigns literals to COMMON (or CHAIN ,ALL) variables and CHAINs
     to the protected file, after which direct mode prints/writes those variables (their values must be
     what the loader assigned). Expectation oracle (only while the
     model knows that the program is protected and no error trap can swallow the message):
     LIST/LLIST/EDIT/SAVE (A,B)/PEEK/BSAVE/MERGE/CHAIN MERGE/line entry end in error 5,
     SAVE ,P succeeds and its file starts with the original ,P file's bytes, RUN prints what the
     unprotected original prints under the same break schedule.
"""

import os
import io
import errno
import logging

from .. import kernel as K
from ..basicdrv import Driver, EngineCrash, ByteSink, interact, parse_errors
from .. import simfs
from .common import execute, b

NAME = 'save'
PROPS = ('C15', 'C16')
RULE = ('C15: one evaluation = one Session history of edit/save/restart/load transactions; distinct = '
        'distinct (op kind, file format, device, program source kind, outcome class, fault kind, program '
        'size bucket) tuples; non-trivial = at least one image/listing/file comparison was made. '
        'C16: one evaluation = one direct-mode history on a protected program; distinct = distinct '
        '(model protection state, trap state, op/statement kind, how it was entered, outcome class) tuples; '
        'non-trivial = at least one sink was scanned while marker-bearing program bytes were in memory')
REAL = ['pcbasic.basic (whole package: tokeniser, lister, program, converter.protect, devices.disk, '
        'devices.cassette, parports, console, display)', 'pcbasic.main.main + pcbasic.config.Settings '
        '(converter ops)', 'host tmpfs for every file operation that is not faulted']
STUB = ['wall clock (simulated)', 'interface queues (simulated, recording)', 'the typist (keyboard seam)',
        'stdin pump thread (config.IS_CONSOLE_APP forced False around the converter call)',
        'user config/state directories (config.STATE_PATH etc. redirected into the scratch tree)']
ASSUMPTIONS = [
    'C15 ASCII equality is claimed only for programs built from templates whose listing is canonical',
    'C15 converter is compared with LOAD+SAVE in a Session of the same (default) memory layout',
    'C16 markers are planted only where the program itself can never print or assign them',
]
BATCH = 10

TOK_REM = 0x8f
TOK_PRINT = 0x91


def quick_runs(prop):
    return 1600 if prop == 'C15' else 3200


###############################################################################
# shared helpers

def _tape(root, no=0):
    return '%s/tape%s.cas' % (root, no or '')


def _devices(root, tape=0):
    return {'Z:': root + '/z', 'CAS1:': 'CAS:' + _tape(root, tape), 'LPT1:': 'FILE:' + root + '/lpt.txt'}


def _mk(w, root, sk, tape=0, **extra):
    kw = dict(sk)
    kw.update(extra)
    return Driver(w, devices=_devices(root, tape), current_device='Z:', **kw)


def _read(path):
    with simfs.real_open(path, 'rb') as f:
        return f.read()


def _write(path, data):
    with simfs.real_open(path, 'wb') as f:
        f.write(data)


_OSERRS = ('OSError', 'IOError', 'PermissionError', 'FileNotFoundError', 'FileExistsError', 'BlockingIOError',
           'InterruptedError', 'IsADirectoryError', 'NotADirectoryError', 'TimeoutError', 'BrokenPipeError')


def _norm(e):
    """One violation class per escape site, whatever errno-specific subclass the host error has."""
    if e.exc_type in _OSERRS:
        e.signature = 'OSError@' + e.frame
    return e


class Malformed(Exception):
    """Program memory is not a well-formed chain of line records."""


def _peek(d, addr, n):
    out = bytearray()
    for i in range(n):
        v = d.eval(b'PEEK(%d)' % (addr + i))
        if v is None:
            raise Malformed('PEEK(%d) gave no value' % (addr + i))
        out.append(int(v) & 255)
    return bytes(out)


def snapshot(d, cap=24000):
    """PEEK image of program memory: records from DS:30h up to and including the 00 00 terminator."""
    s = _peek(d, 0x30, 2)
    start = s[0] | (s[1] << 8)
    img = bytearray()
    addr = start
    while True:
        p = _peek(d, addr, 2)
        nxt = p[0] | (p[1] << 8)
        img += p
        if nxt == 0:
            break
        if not (addr + 4 < nxt <= addr + 600) or nxt > 0xfff0:
            raise Malformed('next-pointer %d at address %d' % (nxt, addr))
        img += _peek(d, addr + 2, nxt - addr - 2)
        addr = nxt
        if len(img) > cap:
            raise Malformed('image longer than %d' % cap)
    return start, bytes(img)


def _hexs(bs, n=48):
    bs = bytes(bs)
    return bs[:n].hex() + ('..(%d bytes)' % len(bs) if len(bs) > n else '')


def _first_diff(x, y):
    n = min(len(x), len(y))
    for i in range(n):
        if x[i] != y[i]:
            return i
    return n


###############################################################################
###############################################################################
# C15

_LEAD_EXTRA = {0x0f: 1, 0xff: 1, 0xfe: 1, 0xfd: 1, 0x0b: 2, 0x0c: 2, 0x0d: 2, 0x0e: 2, 0x1c: 2, 0x1d: 4, 0x1f: 8}


def _data_tail_lead(text):
    """Input-shape classifier (only chooses the violation class, never judges): the line is a DATA statement in
    which an unquoted byte that elsewhere starts a multi-byte token stands so close to the end of the line that
    the token's trailing bytes would reach over the line terminator."""
    t = b(text)
    if not t.upper().startswith(b'DATA'):
        return False
    i, quoted = 4, False
    while i < len(t):
        c = t[i]
        i += 1
        if c == 0x22:
            quoted = not quoted
        elif not quoted and c in _LEAD_EXTRA:
            i += _LEAD_EXTRA[c]
            if i > len(t):
                return True
    return False


FMTS = ('B', 'P', 'A')
DEVS = ('Z', '@', 'CAS')
CORPUS = ('COLOURS.BAS', 'FONTSCAN.BAS', 'SHOWDBCS.BAS', 'SHOWFONT.BAS', 'SPEED.BAS', 'PCTERM.BAS', 'ANSIVIEW.BAS')
_NUMTOK = (0x0b, 0x0c, 0x0e, 0x0f, 0x1c, 0x1d, 0x1f)
_UID = 'ABCDEFGHIJKLMNOPQRSTUVWXYZ0123456789 .-+*/<>=()$%!#?;:'


def _uid(rng, lo=1, hi=24, alphabet=_UID):
    s = ''.join(rng.choice(alphabet) for _ in range(rng.randint(lo, hi))).strip()
    return s or 'X'


def _canon_stmt(rng, nums):
    """A statement whose LIST text equals the entered text."""
    tgt = lambda: str(rng.choice(nums)) if nums and rng.random() < 0.8 else str(rng.randint(0, 65529))
    k = rng.randrange(12)
    if k == 0:
        return 'PRINT "%s"' % _uid(rng)
    if k == 1:
        return 'PRINT "%s";A$;B' % _uid(rng)
    if k == 2:
        return 'REM ' + _uid(rng, 1, 60 if rng.random() < 0.8 else 240)
    if k == 3:
        return "' " + _uid(rng, 1, 40)
    if k == 4:
        return 'DATA %s,"%s",%d' % (_uid(rng, 1, 12, 'ABCDEFGHIJKLMNOPQRSTUVWXYZ0123456789'), _uid(rng), rng.randint(0, 999))
    if k == 5:
        return rng.choice(['GOTO ', 'GOSUB ']) + tgt()
    if k == 6:
        return 'IF A>%d THEN %s ELSE %s' % (rng.randint(0, 99), tgt(), tgt())
    if k == 7:
        return 'A$="%s"+CHR$(34)' % _uid(rng)
    if k == 8:
        return 'FOR I=1 TO %d:NEXT I' % rng.randint(1, 99)
    if k == 9:
        return 'ON X GOTO %s,%s' % (tgt(), tgt())
    if k == 10:
        return 'A=%d:B%%=%d:C#=%d' % (rng.randint(0, 32767), rng.randint(0, 32767), rng.randint(0, 9))
    return 'PRINT "%s":REM %s' % (_uid(rng), _uid(rng, 1, 100))


def _raw_stmt(rng):
    """Statements that need not list canonically: EOF bytes, high-bit bytes, listings over 255 chars."""
    k = rng.randrange(6)
    if k == 0:
        s = ''.join(rng.choice(['\x1a', chr(rng.randint(0x80, 0xff)), chr(rng.randint(0x20, 0x7e))]) for _ in range(rng.randint(1, 40)))
        return 'PRINT "%s"' % s.replace('"', "'")
    if k == 1:
        return 'REM ' + ''.join(chr(rng.choice([0x1a, 0x1a, rng.randint(1, 9), rng.randint(0x0e, 0xff)])) for _ in range(rng.randint(1, 80))) + (
            chr(rng.choice(_NUMTOK)) + 'X' * rng.randint(0, 3) if rng.random() < 0.4 else '')
    if k == 2:
        # 50..120 PRINT tokens: listing far beyond 255 characters
        return ':'.join(['?'] * rng.randint(50, 120))
    if k == 3:
        return 'print  "%s" : goto  10' % _uid(rng)
    if k == 4:
        return 'DATA ' + ''.join(chr(rng.choice([0x1a, rng.randint(0x20, 0xff)])) for _ in range(rng.randint(1, 60))).replace(':', ';')
    return 'A$="%s\x1a%s"' % (_uid(rng, 1, 8, 'ABCDEFGH'), _uid(rng, 1, 8, 'ABCDEFGH'))


def _line_numbers(rng, n, hi=65529):
    nums = set()
    base = rng.choice([0, 1, 10, 100, 1000, 30000, 65000, 65400])
    while len(nums) < n:
        r = rng.random()
        if r < 0.6:
            nums.add(min(hi, base + rng.randint(0, 40) * rng.choice([1, 1, 10])))
        elif r < 0.8:
            nums.add(rng.randint(0, hi))
        else:
            nums.add(rng.choice([0, 1, 9, 10, 255, 256, 32767, 32768, 65280, hi - 1, hi]))
    return sorted(nums)


def _gen15(rng, tier):
    quick = tier == 'quick'
    r = rng.random()
    src = 'lines' if r < 0.55 else 'raw' if r < 0.75 else 'tok' if r < 0.93 else 'corpus'
    cfg = {'sk': {'syntax': rng.choice(['advanced', 'advanced', 'pcjr', 'tandy'])}, 'src': src}
    nlines = rng.randint(1, 14 if quick else 60)
    nums = _line_numbers(rng, nlines)
    if src == 'lines':
        cfg['lines'] = ['%d %s' % (n, _canon_stmt(rng, nums)) for n in nums]
        if rng.random() < 0.3:
            # a line whose text is at the 255-character limit of a program line
            i = rng.randrange(len(nums))
            head = '%d REM ' % nums[i]
            total = rng.choice([253, 254, 255, 255])
            cfg['lines'][i] = head + ''.join(rng.choice('ABCDEFGHIJKLMNOPQRSTUVWXYZ0123456789') for _ in range(total - len(head)))
    elif src == 'raw':
        cfg['lines'] = ['%d %s' % (n, _raw_stmt(rng) if rng.random() < 0.5 else _canon_stmt(rng, nums)) for n in nums]
    elif src == 'tok':
        hi = rng.random() < 0.5
        tn = _line_numbers(rng, nlines, 65535 if hi else 65529)
        if hi:
            tn = sorted(set(tn) | set(rng.sample(range(65530, 65536), rng.randint(1, 4))))
        body = []
        for n in tn:
            if rng.random() < 0.75:
                # REM + arbitrary non-zero bytes; lengths make the line ends fall on all cipher positions
                c = chr(TOK_REM) + ''.join(chr(rng.randint(1, 255)) for _ in range(rng.randint(0, 120 if quick else 240)))
                if rng.random() < 0.3:
                    # bytes that are number-constant tokens outside a comment, close to the end of the line
                    c += chr(rng.choice(_NUMTOK)) + ''.join(chr(rng.randint(1, 255)) for _ in range(rng.randint(0, 3)))
            else:
                c = chr(TOK_PRINT) + ' "' + ''.join(chr(rng.choice([0x1a, rng.randint(0x20, 0x21), rng.randint(0x23, 0xff)])) for _ in range(rng.randint(0, 40))) + '"'
            body.append([n, c])
        cfg['tok'] = body
    else:
        cfg['corpus'] = rng.choice(CORPUS[:5] if quick else CORPUS)
    faulty = rng.random() < 0.6
    nops = rng.randint(2, 6 if quick else 24)
    ops = []
    touched = []     # [dev, nm] of disk files that a faulted statement was aimed at
    pending = None   # [dev, nm] of a faulted OPEN that the next transaction should come back to
    for i in range(nops):
        r = rng.random()
        fmt = rng.choice(['B', 'B', 'P', 'P', 'P', 'A', 'A'])
        dev = rng.choice(['Z', 'Z', 'Z', '@', '@', 'CAS', 'CAS'])
        nm = 'F%d' % i
        if pending is not None and r >= 0.30:
            # the same name on the same drive, later in the same Session
            if rng.random() < 0.85:
                dev, nm = pending
            pending = None
        elif touched and dev != 'CAS' and rng.random() < 0.15:
            dev, nm = rng.choice(touched)
        if faulty and 0.30 <= r < 0.37:
            # a data file is opened under a name that a program will later be saved under, and the host open fails
            mode = rng.choice(['OUTPUT', 'OUTPUT', 'APPEND', 'RANDOM'])
            # (OUTPUT is one host open; APPEND and RANDOM create, look at and reopen the file)
            at = 'open' if mode == 'OUTPUT' and rng.random() < 0.9 else rng.choice(['open'] * 7 + ['close', 'seek', 'read'])
            dev = rng.choice(['Z', 'Z', 'Z', '@']) if mode != 'RANDOM' else 'Z'
            ops.append({'op': 'openfault', 'dev': dev, 'nm': nm, 'mode': mode,
                        'num': rng.choice([1, 1, 2, 15]), 'at': at, 'nth': 1 if mode == 'OUTPUT' and rng.random() < 0.9 else rng.choice([1, 1, 1, 2, 2, 3]),
                        'errno': rng.choice([errno.EACCES, errno.EMFILE, errno.EIO, errno.ENOSPC]),
                        'data': rng.random() < 0.5, 'then': rng.choice(['CLOSE', 'CLOSE', 'RESET', 'CLOSE #', None])})
            touched.append([dev, nm])
            pending = [dev, nm]
            if rng.random() < 0.25:
                ops.append(_settle_op(rng, touched))
            continue
        if r < 0.14 and src in ('lines', 'raw'):
            if rng.random() < 0.25 and nums:
                ops.append({'op': 'edit', 'line': str(rng.choice(nums))})
            else:
                n = rng.choice(nums) if rng.random() < 0.4 else rng.randint(0, 65529)
                ops.append({'op': 'edit', 'line': '%d %s' % (n, _canon_stmt(rng, nums) if src == 'lines' or rng.random() < 0.5 else _raw_stmt(rng))})
        elif r < 0.22:
            ops.append({'op': 'conv', 'from': rng.choice(FMTS), 'to': rng.choice(FMTS)})
        elif r < 0.30:
            if rng.random() < 0.25:
                ops.append({'op': 'cipher', 'kind': 'full', 'rot': rng.randint(0, 255), 'mul': rng.choice([1, 3, 7, 11, 37, 255])})
            else:
                n = rng.choice([0, 1, 2, 3, 10, 11, 12, 13, 14, 142, 143, 144, 286, rng.randint(0, 700)])
                ops.append({'op': 'cipher', 'kind': 'rand', 'data': ''.join(chr(rng.randint(0, 255)) for _ in range(n))})
        elif r < 0.50 and faulty:
            at = rng.choice(['open', 'write', 'write', 'write', 'write', 'close', 'close', 'close', 'flush'])
            op = {'op': 'savefault', 'fmt': fmt, 'dev': dev, 'nm': nm, 'at': at,
                  'nth': 1 if at != 'write' else rng.choice([1, 1, 1, 2, 2, 3, rng.randint(1, 20), rng.randint(1, 200)]),
                  'errno': rng.choice([errno.ENOSPC, errno.ENOSPC, errno.EIO, errno.EACCES, errno.EROFS, errno.EDQUOT, errno.ENXIO, 131])}
            if at == 'write' and rng.random() < 0.4:
                op['torn'] = rng.randint(0, 3)
            if at == 'write' and rng.random() < 0.3:
                # counted from the last host write of this SAVE (0 = the end-of-file mark written at close)
                del op['nth']
                op['back'] = rng.choice([0, 0, 1, 2])
            if at in ('close', 'flush'):
                # what a buffered host file holds when its last flush fails: a prefix (mostly nothing) of what was written
                op['keep'] = rng.choice([0, 0, 0, rng.randint(0, 1000)])
            ops.append(op)
            if dev != 'CAS':
                touched.append([dev, nm])
            if rng.random() < 0.2:
                ops.append(_settle_op(rng, touched))
        elif r < 0.66 and faulty:
            op = {'op': 'torn', 'fmt': fmt, 'dev': dev, 'nm': nm, 'how': 'LOAD'}
            q = rng.random()
            if q < 0.3:
                op['cut_abs'] = rng.choice([0, 1, 1, 2, 2, 3, 4, 5, 7, 16])
            elif q < 0.7:
                op['cut'] = rng.randint(0, 1000)
            else:
                op['flip'] = [rng.randint(0, 1000), rng.choice([1, 0x80, 0xff, rng.randint(1, 255)])]
            ops.append(op)
        else:
            op = {'op': 'rt', 'fmt': fmt, 'dev': dev, 'nm': nm, 'how': 'LOAD'}
            if fmt == 'A' and rng.random() < 0.35:
                op['how'] = 'MERGE'
                rn = _line_numbers(rng, rng.randint(0, 5))
                if nums and rng.random() < 0.5:
                    rn = sorted(set(rn) | {rng.choice(nums)})
                op['resident'] = ['%d %s' % (n, _canon_stmt(rng, nums)) for n in rn]
            ops.append(op)
    if faulty and ops[-1]['op'] != 'settle':
        # faults have stopped for good
        ops.append(_settle_op(rng, touched))
    return {'machine': NAME, 'prop': 'C15', 'cfg': cfg, 'ops': ops}


def _settle_op(rng, touched):
    fmts = list(FMTS)
    rng.shuffle(fmts)
    tg = [list(t) for t in touched[-2:]] or [['Z', 'F0']]
    return {'op': 'settle', 'then': rng.choice(['CLOSE', 'CLOSE', 'RESET', None]), 'targets': tg, 'fmts': fmts[:rng.randint(1, 3)]}


class S15(object):
    """State of one C15 run."""

    def __init__(self, run, root, fs, cfg):
        self.run = run
        self.w = run.w
        self.root = root
        self.fs = fs
        self.cfg = cfg
        self.sk = dict(cfg['sk'])
        self.src = cfg['src']
        self.canon = self.src == 'lines'
        self.d = None
        self.lines = {}       # model: line number -> text (src lines/raw)
        self.img = None       # last verified image of the current program (lazy)
        self.start = None
        self.pristine = None  # bytes of a B file of the current program
        self.bound = set()
        self.nrestart = 0
        self.ncrash = 0
        self.tape = 0
        self.tape_dirty = False
        self.holders = {}         # file number -> [dev, nm] (None: unknown) of data files the ENGINE says are open
        self.nfaults = 0          # injected faults that fired so far

    # -- plumbing -------------------------------------------------------------

    def v(self, sig, detail):
        self.run.violate('C15', sig, detail)

    def open_session(self):
        self.d = _mk(self.w, self.root, self.sk, tape=self.tape)
        self.bound = set()
        self.holders = {}

    def use(self, dev):
        """Before a transaction on the cassette: if an earlier op left the tape in the middle of a file or
        with half-written records, put in a fresh tape. (What SAVE over the middle of another file means
        for later searches is tape semantics the property does not talk about.)"""
        if dev == 'CAS' and self.tape_dirty:
            self.tape += 1
            self.tape_dirty = False
            self.run.probe('fresh_tape')
            self.restart()
            self.resync('tape change')
        if dev == 'CAS':
            # dirty until the transaction ends with the tape positioned right behind a file that read back whole
            self.tape_dirty = True

    def restart(self):
        self.d.close()
        self.open_session()
        self.nrestart += 1
        self.run.fault('restart')

    def claimed(self, *fmts):
        """Does the property promise anything about this format for this program?"""
        return self.canon or 'A' not in fmts

    def attempt(self, claimed, fn, what):
        """Run fn. A host exception where C15 claims nothing (listing/re-entering a non-canonical
        program as text) is C01's business: note it there, recover, return None."""
        try:
            return fn()
        except EngineCrash as e:
            if claimed:
                raise
            self.run.violate('C01', 'crash:' + e.signature, 'during C15 history (%s, non-canonical program as ASCII): %s: %s\n%s' % (
                what, e.exc_type, e.exc_msg, e.tb[-1200:]))
            self.run.probe('crash_unclaimed')
            self.tape_dirty = True
            try:
                self.d.close()
            except EngineCrash:
                pass
            self.open_session()
            self.resync('crash in ' + what)
            return None

    def crashed(self, e, recover=True):
        """A host exception where C15 promises a BASIC-level outcome: a violation; then go on with a fresh Session."""
        _norm(e)
        self.v('crash:' + e.signature, '%s: %s (during %r)\n%s' % (e.exc_type, e.exc_msg, e.where, e.tb))
        self.run.probe('crash_claimed')
        self.tape_dirty = True
        self.ncrash += 1
        if self.ncrash > 3:
            raise e
        if recover:
            try:
                self.d.close()
            except EngineCrash:
                pass
            self.open_session()
            self.resync('crash')

    def host_sub(self, dev, nm):
        """Tail of the host path that tells Z:NM.BAS from @:NM.BAS (both match the bare file name)."""
        h = self.host(dev, nm)
        return os.path.join(os.path.basename(os.path.dirname(h)), os.path.basename(h))

    def host(self, dev, nm):
        if dev == 'Z':
            return '%s/z/%s.BAS' % (self.root, nm)
        if dev == '@':
            return '%s/b/%s.BAS' % (self.root, nm)
        return _tape(self.root, self.tape)

    def bname(self, dev, nm):
        if dev == 'Z':
            return b'Z:' + b(nm) + b'.BAS'
        if dev == '@':
            if nm not in self.bound:
                path = self.host(dev, nm)
                self.d._guard('bind_file', lambda: self.d.s.bind_file(path, name=b(nm), create=True))
                self.bound.add(nm)
            return b'@:' + b(nm)
        return b'CAS1:' + b(nm)

    def save(self, fmt, dev, nm):
        suffix = {'B': b'', 'P': b',P', 'A': b',A'}[fmt]
        name = self.bname(dev, nm)
        self.release(dev, nm)
        return self.d.exec(b'SAVE "' + name + b'"' + suffix)

    NUMS = (1, 2, 15)

    def probe_open(self):
        """Ask the engine which file numbers are open (LOC of a closed number is Bad file number) and bring
        self.holders in line: never infer it from whether a fault fired or what a statement answered."""
        for n in self.NUMS:
            r = self.d.exec(b'Q#=LOC(%d)' % n)
            if r.err is None:
                self.holders.setdefault(n, None)
            else:
                self.holders.pop(n, None)

    def release(self, dev, nm):
        """A data file that an earlier op left open under the very name a SAVE is aimed at (or under a name the
        model does not know): while it is held, SAVE is rightly refused (OUTPUT/APPEND holder) or shares the host
        file with a second handle (RANDOM holder), and a fault armed for the SAVE would hit the holder's handle.
        Close the holder first - always before anything is armed."""
        if any(h is None or h == [dev, nm] for h in self.holders.values()):
            self.run.probe('holder_closed')
            r = self.d.exec(b'CLOSE')
            self.probe_open()
            if r.err is not None or self.holders:
                # no claim about data files here; go on in a fresh Session
                self.restart()
                self.resync('CLOSE of data files')

    def load(self, dev, nm, how='LOAD'):
        return self.d.exec(b(how) + b' "' + self.bname(dev, nm) + b'"')

    def snap(self):
        try:
            return snapshot(self.d)
        except Malformed as e:
            return None, ('malformed: %s' % e).encode()

    def ensure_img(self):
        if self.img is None:
            self.start, self.img = self.snap()
            if self.start is None:
                self.v('image-malformed:current-program', 'program memory is not a chain of records: %r' % (self.img,))
        return self.img

    def refresh_pristine(self):
        r = self.d.exec(b'SAVE "Z:PRISTINE.BAS"')
        path = self.root + '/z/PRISTINE.BAS'
        if r.err is not None or not os.path.exists(path):
            raise K.HarnessError('cannot save pristine copy: %r' % (r,))
        self.pristine = _read(path)
        os.remove(path)
        self.img = None

    def resync(self, why):
        """Bring the current Session back to the model program (after an op that claims no equality)."""
        self.run.probe('resync')
        path = self.root + '/z/RESYNC.BAS'
        _write(path, self.pristine)
        r = self.d.exec(b'LOAD "Z:RESYNC.BAS"')
        os.remove(path)
        if r.err is not None:
            self.v('resync-load-error', 'fault-free LOAD of an intact tokenised file after %s: %r' % (why, r))
            return
        if self.img is not None and self.start is not None:
            st, img = self.snap()
            if img != self.img:
                self.v(self.img_sig('B', 'Z', ':same-session'), 'after %s, reloading the tokenised copy gave a different image '
                       '(first difference at %d)\nwant %s\ngot  %s' % (why, _first_diff(img, self.img), _hexs(self.img), _hexs(img)))

    # -- building the program -------------------------------------------------

    def build(self):
        d = self.d
        if self.src in ('lines', 'raw'):
            for l in self.cfg['lines']:
                self.enter(l)
        elif self.src == 'tok':
            s = _peek(d, 0x30, 2)
            addr = s[0] | (s[1] << 8)
            out = bytearray(b'\xff')
            for n, c in self.cfg['tok']:
                c = b(c)
                addr += 4 + len(c) + 1
                out += bytes((addr & 255, addr >> 8, n & 255, n >> 8)) + c + b'\0'
            out += b'\0\0\x1a'
            _write(self.root + '/z/TOK.BAS', bytes(out))
            r = d.exec(b'LOAD "Z:TOK.BAS"')
            os.remove(self.root + '/z/TOK.BAS')
            if r.err is not None:
                self.v('load-error:harness-built-tokenised-file', 'LOAD of a well-formed tokenised file: %r' % (r,))
            else:
                # a tokenised file is the memory image: loading it must restore exactly these records
                st, img = self.snap()
                want = bytes(out[1:-1])
                self.run.probe('image_compared')
                if img != want:
                    i = _first_diff(img, want)
                    self.v('image-differs:B:Z:harness-built-file', 'program memory after LOAD of a well-formed tokenised file differs from the file: '
                           'lengths %d/%d, first difference at %d\nfile   %s\nmemory %s' % (len(want), len(img), i, _hexs(want[max(0, i - 8):]), _hexs(img[max(0, i - 8):])))
        else:
            data = _read(os.path.join(K.REPO, 'pcbasic', 'data', 'programs', self.cfg['corpus']))
            _write(self.root + '/z/CORPUS.BAS', data)
            r = d.exec(b'LOAD "Z:CORPUS.BAS"')
            os.remove(self.root + '/z/CORPUS.BAS')
            if r.err is not None:
                raise K.HarnessError('corpus program does not load: %r' % (r,))
        self.refresh_pristine()

    def enter(self, line):
        r = self.d.exec(b(line))
        num, _, text = line.partition(' ')
        if r.err is None and not r.out:
            if text:
                self.lines[int(num)] = text
            else:
                self.lines.pop(int(num), None)
            return True
        return False

    def img_sig(self, fmt, dev, tag):
        """Violation class of a tokenised/protected reload that gives another image."""
        if self.src in ('lines', 'raw') and any(_data_tail_lead(t) for t in self.lines.values()):
            # one cause, whatever the device and the history: keep it in a class of its own
            return 'image-differs:data-line-ends-in-token-lead-byte:%s' % fmt
        return 'image-differs:%s:%s%s' % (fmt, dev, tag)

    def listing(self, lines=None):
        lines = self.lines if lines is None else lines
        return b''.join(b'%d %s\r\n' % (n, b(lines[n])) for n in sorted(lines))

    # -- ops ------------------------------------------------------------------

    def op_edit(self, op):
        if self.src not in ('lines', 'raw'):
            return
        ok = self.enter(op['line'])
        self.run.state('edit', ok, len(self.lines) // 8)
        if ok:
            self.refresh_pristine()

    def size_bucket(self):
        return len(self.pristine or b'') // 256

    def check_loaded(self, op, r, before_img, before_list, tag):
        """Compare the reloaded program with what was saved. Returns True if equality held/was not claimed."""
        fmt, dev = op['fmt'], op['dev']
        how = op.get('how', 'LOAD')
        if fmt in ('B', 'P'):
            if r.err is not None:
                self.v('load-error:%s:%s%s' % (fmt, dev, tag), '%s of a file just written by SAVE (format %s, device %s) reports %r' % (how, fmt, dev, r))
                return False
            st, img = self.snap()
            self.run.probe('image_compared')
            if img != before_img:
                self.v(self.img_sig(fmt, dev, tag),
                       'program memory after SAVE(%s)/restart/LOAD on %s differs from before; lengths %d/%d, first difference at %d\n'
                       'before %s\nafter  %s' % (fmt, dev, len(before_img), len(img), _first_diff(img, before_img),
                                                _hexs(before_img[max(0, _first_diff(img, before_img) - 8):]),
                                                _hexs(img[max(0, _first_diff(img, before_img) - 8):])))
                return False
            return True
        # ASCII
        if not self.canon or (before_list is None and how != 'MERGE'):
            # the listing need not re-enter as the same program: any BASIC-level outcome is acceptable
            self.run.probe('ascii_unclaimed')
            return None
        if r.err is not None:
            self.v('load-error:A:%s:%s%s' % (dev, how, tag), '%s of an ASCII file of a canonical program reports %r' % (how, r))
            return False
        after = self.d.exec(b'LIST').out
        self.run.probe('listing_compared')
        if how == 'MERGE':
            merged = {}
            for l in op.get('resident', []):
                num, _, text = l.partition(' ')
                if text:
                    merged[int(num)] = text
            merged.update(self.lines)
            want = self.listing(merged)
        else:
            want = before_list
        if after != want:
            self.v('listing-differs:A:%s:%s%s' % (dev, how, tag), 'LIST after SAVE,A/restart/%s differs\nwant %r\ngot  %r' % (how, want[:600], after[:600]))
            return False
        if how == 'MERGE':
            self.lines = merged
            self.refresh_pristine()
        return True

    def canon_listing(self, fmt):
        """LIST output, if an ASCII claim can be made on it (it is what the canonical model says), else None."""
        if fmt != 'A' or not self.canon:
            return None
        out = self.d.exec(b'LIST').out
        if out != self.listing():
            # C13's business; an ASCII claim made on a non-canonical listing would be unsound
            self.run.probe('listing_not_canonical')
            return None
        return out

    def prepare_merge(self, op):
        if op.get('how') == 'MERGE':
            for l in op.get('resident', []):
                self.d.exec(b(l))

    def op_rt(self, op, tag=''):
        fmt, dev, nm = op['fmt'], op['dev'], op['nm']
        self.use(dev)
        before_img = self.ensure_img()
        if self.start is None:
            return
        before_list = self.canon_listing(fmt)
        r = self.attempt(self.claimed(fmt), lambda: self.save(fmt, dev, nm), 'SAVE,A')
        if r is None:
            return
        if r.err is not None:
            self.v('save-error:%s:%s%s' % (fmt, dev, tag), 'fault-free SAVE (format %s, device %s) reports %r' % (fmt, dev, r))
            self.run.state('rt', fmt, dev, self.src, 'save-error', tag, self.size_bucket())
            return
        self.restart()
        if fmt == 'A' and self.canon and before_list is None:
            ok = None
            self.load(dev, nm, 'LOAD')
        else:
            self.prepare_merge(op)
            r = self.attempt(self.claimed(fmt), lambda: self.load(dev, nm, op.get('how', 'LOAD')), 'LOAD of ASCII file')
            if r is None:
                return
            ok = self.check_loaded(op, r, before_img, before_list, tag)
        self.run.state('rt', fmt, dev, self.src, ok, op.get('how'), tag, self.size_bucket())
        if ok is True and dev == 'CAS':
            self.tape_dirty = False
        if ok is not True or op.get('how') == 'MERGE':
            if ok is not True:
                self.resync('%s round trip' % fmt)
            else:
                self.img = None

    def op_savefault(self, op):
        fmt, dev, nm = op['fmt'], op['dev'], op['nm']
        self.use(dev)
        before = self.ensure_img()
        if self.start is None:
            return
        before_list = self.canon_listing(fmt)
        self.release(dev, nm)        # holders of the name are closed before the fault is armed ...
        name = self.bname(dev, nm)   # ... and the name is bound before
        sub = self.host_sub(dev, nm)
        nth = op.get('nth', 1)
        if 'back' in op:
            # scheduling only: count the host writes of this very SAVE in a fault-free rehearsal on another name
            n0 = self.fs.counts['write']
            r0 = self.attempt(self.claimed(fmt), lambda: self.save(fmt, 'Z', 'REHEARSE'), 'SAVE,A')
            nth = max(1, self.fs.counts['write'] - n0 - op['back'])
            if os.path.exists(self.root + '/z/REHEARSE.BAS'):
                os.remove(self.root + '/z/REHEARSE.BAS')
            if r0 is None:
                return
            if dev == 'CAS':
                nth = 1
        self.fs.arm(op['at'], nth=nth, err=op['errno'], path_sub=sub, torn=op.get('torn'))
        if op['at'] == 'flush':
            # the medium stays unwritable until the statement is over
            self.fs.arm('close', nth=1, err=op['errno'], path_sub=sub)
        nfired = len(self.fs.fired)
        kind = '%s:%s' % (op['at'], errno.errorcode.get(op['errno'], op['errno']))
        try:
            r = self.save(fmt, dev, nm)
        except EngineCrash as e:
            self.fs.disarm()
            if e.exc_type not in _OSERRS and not self.claimed(fmt):
                self.attempt(False, lambda: (_ for _ in ()).throw(e), 'SAVE,A')
                return
            e.exc_msg += ' [SAVE format %s to %s with injected %s]' % (fmt, dev, kind)
            self.nfaults += len(self.fs.fired) - nfired
            self.run.state('savefault', fmt, dev, self.src, 'crash', op['at'])
            self.crashed(e)
            return
        finally:
            self.fs.disarm()
        fired = len(self.fs.fired) > nfired
        self.nfaults += len(self.fs.fired) - nfired
        self.run.state('savefault', fmt, dev, self.src, fired, r.err, op['at'], 'back' in op)
        if dev != 'CAS' and 'keep' in op and any(k == 'close' and pth and pth.endswith(sub) for k, _, pth in self.fs.fired[nfired:]):
            self.lose_buffer(self.host(dev, nm), op['keep'])
        if not fired:
            # the planned call never happened: this was an ordinary save
            self.run.probe('savefault_not_fired')
            if r.err is not None:
                self.v('save-error:%s:%s' % (fmt, dev), 'fault-free SAVE reports %r' % (r,))
                return
            self.restart()
            r = self.attempt(self.claimed(fmt), lambda: self.load(dev, nm), 'LOAD of ASCII file')
            if r is not None:
                if self.check_loaded(op, r, before, before_list, '') is not True:
                    self.resync('round trip')
                elif dev == 'CAS':
                    self.tape_dirty = False
            return
        st, after = self.snap()
        if after != before:
            if self.src in ('lines', 'raw') and any(_data_tail_lead(t) for t in self.lines.values()):
                # the known relinking quirk (token lead byte at the end of DATA text) shows here as well: a failed
                # SAVE,A re-links the program. Same cause, same class.
                self.v('image-differs:data-line-ends-in-token-lead-byte:%s' % fmt,
                       'program memory changed after a failed SAVE(%s) (first difference at %d)' % (fmt, _first_diff(after, before)))
                return
            self.v('save-fault-changed-program:%s:%s' % (fmt, op['at']),
                   'injected %s during SAVE(%s) to %s: program memory changed (first difference at %d)' % (kind, fmt, dev, _first_diff(after, before)))
        if r.err is None:
            # the statement claims success although a host call failed: then the data must be there
            self.run.probe('savefault_acknowledged')
            self.restart()
            r2 = self.attempt(self.claimed(fmt), lambda: self.load(dev, nm), 'LOAD of ASCII file')
            if r2 is not None and self.check_loaded(op, r2, before, before_list, ':after-unreported-%s-fault' % op['at']) is not True:
                self.resync('acknowledged faulted save')
            return
        self.run.probe('savefault_reported')
        # retry without fault in a fresh Session (the faulted device may legitimately be left unusable)
        self.restart()
        self.resync('reported save fault')
        self.op_rt({'op': 'rt', 'fmt': fmt, 'dev': dev, 'nm': nm + 'R', 'how': 'LOAD'}, tag=':retry-after-fault')

    def lose_buffer(self, path, keep):
        """The host reported an error from close(): what was still buffered never reached the medium. The
        simulated file object passes everything through before it reports the error, so cut the file here
        to the prefix (in permille of what was written) that did get out."""
        if not os.path.isfile(path):
            return
        data = _read(path)
        n = len(data) * keep // 1000
        _write(path, data[:n])
        self.run.fault('close-loses-buffer')
        self.w.log.add('lose', os.path.basename(path), n, len(data))

    def op_openfault(self, op):
        """OPEN of a data file fails inside the host; no claim about the data file. What matters is that the
        name stays usable for programs afterwards (op_rt on the same name, op_settle)."""
        dev, nm, num = op['dev'], op['nm'], op.get('num', 1)
        if dev not in ('Z', '@'):
            return
        name = self.bname(dev, nm)
        sub = self.host_sub(dev, nm)
        self.fs.arm(op['at'], nth=op['nth'], err=op['errno'], path_sub=sub)
        nfired = len(self.fs.fired)
        kind = '%s:%s' % (op['at'], errno.errorcode.get(op['errno'], op['errno']))
        line = b'OPEN "%s" FOR %s AS %d' % (name, b(op['mode']), num)
        if op['mode'] == 'RANDOM':
            line = b'OPEN "R",%d,"%s",32' % (num, name)
        try:
            try:
                r = self.d.exec(line)
            finally:
                self.fs.disarm()
            fired = len(self.fs.fired) > nfired
            self.nfaults += len(self.fs.fired) - nfired
            if r.err is None:
                self.holders[num] = [dev, nm]
                if op.get('data') and op['mode'] != 'RANDOM':
                    self.d.exec(b'PRINT#%d,"DATA";1' % num)
            then = op.get('then')
            if then:
                self.d.exec(b(then) + (b'%d' % num if then.endswith('#') else b''))
            self.probe_open()
        except EngineCrash as e:
            # C15 says nothing about data files: a host exception out of OPEN/PRINT#/CLOSE is C01's business.
            # Note it there and go on in a fresh Session (which ends the same-Session history).
            _norm(e)
            self.run.violate('C01', 'crash:' + e.signature, 'during C15 history (%s with injected %s, then %s): %s: %s\n%s' % (
                line.decode('latin-1'), kind, op.get('then'), e.exc_type, e.exc_msg, e.tb[-1200:]))
            self.run.probe('crash_unclaimed')
            self.run.state('openfault', dev, op['mode'], op['at'], 'crash')
            self.fs.disarm()
            try:
                self.d.close()
            except EngineCrash:
                pass
            self.open_session()
            self.resync('crash in OPEN of a data file')
            return
        self.run.state('openfault', dev, op['mode'], op['at'], op['nth'], fired, r.err, op.get('then'), len(self.holders))
        if fired:
            self.run.probe('openfault_fired')

    def op_settle(self, op):
        """Bounded liveness. All injected faults are disarmed; files are closed. From here on, in the very
        Session that saw the faults, SAVE under each name that a faulted statement was aimed at must succeed in
        every format, and LOAD (in a second Session on the same tree) must give the program back."""
        self.fs.disarm()
        self.ensure_img()
        if self.start is None:
            return
        if op.get('then'):
            self.d.exec(b(op['then']))
            self.probe_open()
        tag = ':after-faults-stopped'
        for dev, nm in op.get('targets', []):
            if dev not in ('Z', '@'):
                continue
            for fmt in op.get('fmts', FMTS):
                before_img = self.ensure_img()
                before_list = self.canon_listing(fmt)
                r = self.attempt(self.claimed(fmt), lambda: self.save(fmt, dev, nm), 'SAVE,A')
                if r is None:
                    return
                self.run.state('settle', fmt, dev, self.src, r.err, self.nfaults > 0, self.size_bucket())
                if r.err is not None:
                    self.v('save-error:%s:%s%s' % (fmt, dev, tag), 'no fault armed, the engine reports no data file open under this name (open numbers: %r), '
                           '%d injected fault(s) earlier in this Session\'s history: SAVE (format %s) to %s reports %r' % (
                               sorted(self.holders), self.nfaults, fmt, self.bname(dev, nm), r))
                    continue
                # verify from a second Session; the one that saw the faults stays as it is
                mine = (self.d, self.bound, self.holders)
                self.d = _mk(self.w, self.root, self.sk, tape=998)
                self.bound, self.holders = set(), {}
                try:
                    vop = {'fmt': fmt, 'dev': dev, 'nm': nm, 'how': 'LOAD'}
                    if fmt == 'A' and self.canon and before_list is None:
                        ok = None
                    else:
                        r2 = self.attempt_other(self.claimed(fmt), lambda: self.load(dev, nm))
                        ok = None if r2 is None else self.check_loaded(vop, r2, before_img, before_list, tag)
                    try:
                        self.d.close()
                    except EngineCrash:
                        pass
                finally:
                    self.d, self.bound, self.holders = mine
                self.run.probe('settled')

    def attempt_other(self, claimed, fn):
        """Like attempt(), for the verifying Session of op_settle: nothing to recover."""
        try:
            return fn()
        except EngineCrash as e:
            if claimed:
                raise
            self.run.violate('C01', 'crash:' + e.signature, 'during C15 history (LOAD of ASCII file of a non-canonical program): %s: %s' % (e.exc_type, e.exc_msg))
            self.run.probe('crash_unclaimed')
            return None

    def op_torn(self, op):
        fmt, dev, nm = op['fmt'], op['dev'], op['nm']
        self.use(dev)
        self.ensure_img()
        if self.start is None:
            return
        r = self.attempt(self.claimed(fmt), lambda: self.save(fmt, dev, nm), 'SAVE,A')
        if r is None:
            return
        if r.err is not None:
            self.v('save-error:%s:%s' % (fmt, dev), 'fault-free SAVE reports %r' % (r,))
            return
        self.d.close()
        path = self.host(dev, nm)
        data = _read(path)
        keep = 32 if dev == 'CAS' else 0
        what = 'intact'
        if 'cut_abs' in op:
            n = min(len(data), keep + op['cut_abs'])
            data = data[:n]
            what = 'cut to %d bytes' % n
        elif 'cut' in op:
            n = keep + (len(data) - keep) * op['cut'] // 1000
            data = data[:n]
            what = 'cut to %d bytes' % n
        elif 'flip' in op and len(data) > keep:
            pos = keep + (len(data) - keep - 1) * op['flip'][0] // 1000
            data = data[:pos] + bytes((data[pos] ^ op['flip'][1],)) + data[pos + 1:]
            what = 'byte %d xor %d' % (pos, op['flip'][1])
        _write(path, data)
        if dev == 'CAS':
            self.tape_dirty = True
        self.run.fault('torn-file')
        self.open_session()
        self.nrestart += 1
        self.w.log.add('torn', fmt, dev, what, data[:8])
        try:
            r = self.load(dev, nm, op.get('how', 'LOAD'))
        except EngineCrash as e:
            e.exc_msg += ' [LOAD of a %s-format file on %s, %s; file bytes start %s]' % (fmt, dev, what, _hexs(data, 8))
            if not self.claimed(fmt):
                self.attempt(False, lambda: (_ for _ in ()).throw(e), 'LOAD of torn ASCII file')
                return
            self.run.state('torn', fmt, dev, self.src, 'crash', 'cut_abs' in op, 'flip' in op, min(len(data), 4))
            self.crashed(e)
            return
        self.run.state('torn', fmt, dev, self.src, r.err, 'cut_abs' in op, 'flip' in op, min(len(data), 4))
        self.run.probe('torn_loaded')
        # no equality claimed. A torn tape may leave the tape file open; restart before going on
        self.restart()
        self.resync('torn load')

    def op_conv(self, op):
        f, t = op['from'], op['to']
        self.ensure_img()
        if self.start is None:
            return
        claimed = self.claimed(f, t)
        r = self.attempt(claimed, lambda: self.save(f, 'Z', 'CSRC'), 'SAVE,A')
        if r is None:
            return
        if r.err is not None:
            self.v('save-error:%s:Z' % f, 'fault-free SAVE reports %r' % (r,))
            return
        src, out, ref = (self.root + '/z/' + n for n in ('CSRC.BAS', 'COUT.BAS', 'CREF.BAS'))

        def both():
            self._converter(t, src, out)
            # the same in a Session: LOAD the file, SAVE in the target format
            d2 = _mk(self.w, self.root, self.sk, tape=999)
            try:
                return d2.exec(b'LOAD "Z:CSRC.BAS"'), d2.exec(b'SAVE "Z:CREF.BAS"' + {'B': b'', 'P': b',P', 'A': b',A'}[t])
            finally:
                try:
                    d2.close()
                except EngineCrash:
                    pass
        rr = self.attempt(claimed, both, 'convert %s->%s' % (f, t))
        if rr is None:
            return
        r1, r2 = rr
        self.run.probe('converted')
        got = _read(out) if os.path.exists(out) else None
        want = _read(ref) if os.path.exists(ref) else None
        self.run.state('conv', f, t, self.src, got == want, r1.err, r2.err, self.size_bucket())
        if got != want:
            i = _first_diff(got or b'', want or b'')
            sig = 'convert-differs:%s->%s' % (f, t)
            if self.src in ('lines', 'raw') and any(_data_tail_lead(x) for x in self.lines.values()):
                # the known relinking quirk (token lead byte at the end of DATA text): the Session re-links on LOAD,
                # the converter does not. Same cause, same class.
                sig = 'image-differs:data-line-ends-in-token-lead-byte:%s' % t
            self.v(sig,
                   '--convert=%s of a %s file saved by a Session differs from LOAD+SAVE in a Session (LOAD %r, SAVE %r): '
                   'lengths %s/%s, first difference at %d\nconverter %s\nsession   %s' % (
                       t, f, r1.errs, r2.errs, got and len(got), want and len(want), i,
                       _hexs((got or b'')[max(0, i - 8):]), _hexs((want or b'')[max(0, i - 8):])))
        for p in (src, out, ref):
            if os.path.exists(p):
                os.remove(p)

    def _converter(self, mode, src, dst):
        import importlib
        pm = importlib.import_module('pcbasic.main')
        pc = importlib.import_module('pcbasic.config')
        main = pm.main
        home = self.root + '/home'
        new = {
            'STATE_PATH': home + '/state', 'USER_CONFIG_DIR': home + '/config',
            'USER_CONFIG_PATH': home + '/config/PCBASIC.INI', 'PROGRAM_PATH': home + '/state/bundled_programs',
            'IS_CONSOLE_APP': False,
        }
        saved = {k: getattr(pc, k) for k in new}
        root_logger = logging.getLogger()
        handlers, level = list(root_logger.handlers), root_logger.level
        for k, val in new.items():
            setattr(pc, k, val)
        self.w.log.add('convert', mode)
        try:
            self.d._guard('main(--convert=%s)' % mode, lambda: main(
                u'--convert=' + mode, src, dst, u'--syntax=' + self.sk.get('syntax', 'advanced'),
                u'--mount=Z:' + self.root + '/z', u'--logfile=' + home + '/log.txt'))
        finally:
            for k, val in saved.items():
                setattr(pc, k, val)
            logging.captureWarnings(False)
            for h in list(root_logger.handlers):
                if h not in handlers:
                    root_logger.removeHandler(h)
                    try:
                        h.close()
                    except Exception:
                        pass
            for h in handlers:
                if h not in root_logger.handlers:
                    root_logger.addHandler(h)
            root_logger.setLevel(level)
        import threading
        if threading.active_count() != 1:
            raise K.HarnessError('the converter call left %d threads running' % threading.active_count())

    def op_cipher(self, op):
        from pcbasic.basic import converter
        if op['kind'] == 'full':
            rot, mul = op['rot'], op['mul']
            data = bytes(((i // 143) * mul + (i % 143) * 5 + rot) & 255 for i in range(143 * 256))
        else:
            data = b(op['data'])
        self.w.log.add('cipher', op['kind'], len(data))

        def both():
            enc = io.BytesIO()
            converter.protect(io.BytesIO(data), enc)
            dec = io.BytesIO()
            converter.unprotect(io.BytesIO(enc.getvalue() + b'\x1a'), dec)
            return enc.getvalue(), dec.getvalue()
        try:
            enc, dec = self.d._guard('cipher', both)
        except EngineCrash as e:
            e.exc_msg += ' [protect/unprotect of a %d-byte string]' % len(data)
            self.run.state('cipher', op['kind'], min(len(data), 150), 'crash')
            self.crashed(e, recover=False)
            return
        self.run.probe('cipher_bytes', len(data))
        self.run.state('cipher', op['kind'], min(len(data), 150), dec == data)
        if dec != data:
            i = _first_diff(dec, data)
            self.v('cipher-not-identity', 'unprotect(protect(x)) != x for %d-byte x: first difference at %d (position mod 143 = %d): byte %r came back as %r' % (
                len(data), i, i % 143, data[i:i + 1], dec[i:i + 1]))
        if len(enc) != len(data):
            self.v('cipher-length', 'protect maps %d bytes to %d' % (len(data), len(enc)))
        if op['kind'] == 'full' and len(enc) == len(data):
            # a bijection per position: 256 distinct plain bytes must give 256 distinct cipher bytes
            for pos in range(143):
                if len(set(enc[pos::143])) != 256 or len(set(data[pos::143])) != 256:
                    self.v('cipher-not-bijective', 'at position %d mod 143 the 256 byte values map to %d cipher values' % (pos, len(set(enc[pos::143]))))
                    break


def _run15(run, case):
    cfg, ops = case['cfg'], case['ops']
    root = run.make_scratch()
    for sub in ('z', 'b', 'home'):
        os.makedirs(os.path.join(root, sub))
    simfs.install_fs_seams()
    fs = simfs.SimFS(run.w, [root])
    st = S15(run, root, fs, cfg)
    with run.w:
        st.open_session()
        st.build()
        for op in ops:
            getattr(st, 'op_' + op['op'])(op)
        st.d.close()


###############################################################################
###############################################################################
# C16

MARK_ALPHA = 'BCDFGHJKLMNPQRSTVWXZ23456789'
FRAG = 6
_PLAIN = bytes(range(0x20, 0x7f))
FKEYS = {1: u'\0\x3b', 2: u'\0\x3c', 3: u'\0\x3d', 4: u'\0\x3e', 5: u'\0\x3f', 6: u'\0\x40', 7: u'\0\x41',
         8: u'\0\x42', 9: u'\0\x43', 10: u'\0\x44'}
BRK_LINES = (40, 50, 70, 70, 70, 80, 100, 130, 510, 900)   # lines without statements that wait inside
PROG_LINES = (10, 20, 40, 50, 60, 70, 80, 90, 100, 110, 120, 130, 500, 510, 900, 910)


def _marker(rng):
    return ''.join(rng.choice(MARK_ALPHA) for _ in range(12))


def _gen_prog16(rng):
    m = {'rem': [_marker(rng) for _ in range(3)], 'data': [_marker(rng) for _ in range(2)], 'lit': [_marker(rng) for _ in range(2)]}
    onerr = rng.random() < 0.6
    handler = rng.choice(['resume_next', 'resume_next', 'print_resume', 'err_in_handler', 'end'])
    ending = rng.choice(['end', 'end', 'stop', 'error', 'error53', 'syntax', 'falloff', 'loop'])
    lines = [
        '10 REM ' + m['rem'][0],
        '20 DATA 7,%s,"%s"' % (m['data'][0], m['data'][1]),
    ]
    if onerr:
        lines.append('30 ON ERROR GOTO 900')
    lines += [
        '40 A$="K"+"Q":B=0',
        '50 IF A$="%s" THEN B=1' % m['lit'][0],
        '60 PRINT "START";B',
        '70 FOR I=1 TO %d:B=B+1:NEXT' % rng.choice([3, 40, 300]),
        '80 GOSUB 500',
        '90 PRINT "SUM";B',
        '100 Z=LEN("%s")' % m['lit'][1],
        {'end': '110 END', 'stop': '110 STOP', 'error': '110 X=1/0', 'error53': '110 ERROR 53',
         'syntax': '110 Z=LEN("%s") Z' % m['lit'][1], 'falloff': '110 PRINT "FALL"', 'loop': '110 GOTO 110'}[ending],
        '120 PRINT "AFTER"',
        '130 END',
    ]
    for i in range(rng.randint(0, 8)):
        lines.append('%d %s' % (200 + 10 * i, rng.choice(['PRINT "FILLER"', 'REM PLAIN', 'C=C+1', "' NOTE"])))
    lines += [
        '500 REM ' + m['rem'][1],
        '510 B=B+100:RETURN',
        {'resume_next': '900 E=ERR:RESUME NEXT', 'print_resume': '900 PRINT "H";ERR;ERL:RESUME NEXT',
         'err_in_handler': '900 E=ERR:ERROR 77', 'end': '900 PRINT "HALT":END'}[handler],
        "910 ' " + m['rem'][2],
    ]
    return {'prog': lines, 'markers': m, 'onerr': onerr, 'ending': ending, 'handler': handler}


def _ifc_stmt(rng):
    """(kind, line) of a statement that must end in Illegal function call on a protected program."""
    ln = rng.choice(PROG_LINES)
    k = rng.randrange(14)
    if k == 0:
        return 'list', rng.choice(['LIST', 'LIST', 'LIST %d' % ln, 'LIST %d-' % ln, 'LIST -%d' % ln, 'LIST 10-900', 'LIST .'])
    if k == 1:
        return 'list-file', rng.choice(['LIST ,"Z:L%d.TXT"' % rng.randint(1, 3), 'LIST ,"SCRN:"', 'LIST ,"LPT1:"', 'LIST %d-,"Z:L4.TXT"' % ln])
    if k == 2:
        return 'llist', rng.choice(['LLIST', 'LLIST %d-' % ln, 'LLIST 10-900'])
    if k == 3:
        return 'save-dev', rng.choice(['SAVE "SCRN:",A', 'SAVE "LPT1:",A', 'SAVE "CAS1:SA",A', 'SAVE "CAS1:SB"', 'SAVE "LPT1:"', 'SAVE "SCRN:"',
                                       'X=1:SAVE "LPT1:",A', 'SAVE "lpt1:",a'])
    if k == 4:
        return 'peek', rng.choice(['PRINT PEEK(%d)', 'A=PEEK(%d)', 'DEF SEG:T$=CHR$(PEEK(%d))', 'DEF SEG=0:A=PEEK(%d)', '?PEEK(%d);PEEK(%d)']).replace('%d', str(rng.randint(0, 65535)))
    if k == 5:
        return 'bsave', 'DEF SEG:BSAVE "Z:M%d.BIN",%d,%d' % (rng.randint(1, 3), rng.randint(0, 6000), rng.randint(1, 2000))
    if k == 6:
        return 'merge', 'MERGE "Z:U.BAS"'
    if k == 7:
        return 'chain-merge', rng.choice(['CHAIN MERGE "Z:U.BAS"', 'CHAIN MERGE "Z:U.BAS",1000', 'CHAIN MERGE "Z:U.BAS",,ALL',
                                          'CHAIN MERGE "Z:U.BAS",,DELETE 10-20', 'CHAIN MERGE "Z:U.BAS",1000,ALL,DELETE 500-510'])
    if k == 8:
        return 'line-entry', rng.choice(['15 PRINT "X"', '%d PRINT "Y"' % ln, '65529 REM', '0 END', '%d' % ln, '%d  ' % ln])
    if k == 9:
        return 'colon-list', rng.choice(['X=1:LIST', 'PRINT 1:LLIST', 'FOR I=1 TO 2:NEXT:LIST', 'X=2:LIST ,"Z:L5.TXT"', ':LIST', 'IF 1 THEN LIST', 'IF 0 THEN X=1 ELSE LIST %d' % ln])
    if k == 10:
        a = rng.randint(0, 65000)
        return 'colon-peek', rng.choice(['X=1:PRINT PEEK(%d)' % a, 'DEF SEG:X=2:A=PEEK(%d)' % a, 'IF 1 THEN A=PEEK(%d)' % a,
                                         'T$="":FOR I=%d TO %d:T$=T$+CHR$(PEEK(I)):NEXT' % (a, a + rng.randint(1, 200))])
    if k == 11:
        return 'colon-save', rng.choice(['X=1:SAVE "Z:S7.BAS",A', 'X=1:BSAVE "Z:M4.BIN",0,500', 'X=1:MERGE "Z:U.BAS"', 'X=1:CHAIN MERGE "Z:U.BAS"'])
    if k == 12:
        return 'edit', 'EDIT %d' % ln
    return 'list', 'LIST'


def _misc_stmt(rng):
    """(kind, line, effect, vars): statements with no demanded outcome."""
    ln = rng.choice(PROG_LINES)
    k = rng.randrange(27)
    if k in (23, 24):
        # SAVE in protected form aimed at every kind of device: whatever the statement answers, nothing readable
        # may arrive at the printer, the screen, the tape or a file (devices that are not files take no file format)
        return 'save-dev-p', rng.choice(['SAVE "LPT1:",P', 'SAVE "LPT1:",P', 'SAVE "SCRN:",P', 'SAVE "CAS1:SP",P', 'SAVE "COM1:",P', 'SAVE "KYBD:",P',
                                         'SAVE "lpt1:",p', 'X=1:SAVE "LPT1:",P', 'SAVE "Z:S3.BAS",P', 'SAVE "COM1:",A', 'SAVE "COM1:"', 'SAVE "KYBD:",A']), None, []
    if k in (25, 26):
        return _common_stmt(rng)
    if k == 22:
        # an image of the protection flag byte, made in an ordinary session: loading it is another way to write the flag
        return 'bload-flag', rng.choice(['DEF SEG:BLOAD "Z:FLAG0.BIN"', 'DEF SEG:BLOAD "Z:FLAG0.BIN",1450', 'X=1:DEF SEG:BLOAD "Z:FLAG0.BIN":LIST']), None, []
    return _misc_stmt2(rng, ln, k)


def _common_stmt(rng):
    """Direct-mode looks at the values that an unprotected loader handed over in COMMON (op chainload)."""
    return 'print-common', rng.choice([
        'PRINT L1$;L2$;L3$;L4$', 'PRINT L1$', 'LPRINT L2$;L3$', 'T$=MID$(L1$,%d,%d):PRINT T$' % (rng.randint(1, 200), rng.randint(1, 255)),
        'OPEN "Z:D2.DAT" FOR OUTPUT AS 1:PRINT#1,L1$;L2$;L3$:CLOSE', 'OPEN "Z:D3.DAT" FOR OUTPUT AS 1:WRITE#1,L1$,L3$:CLOSE',
        'T$=L2$+"":S$=L3$', 'PRINT LEN(L1$);LEN(L2$);N%', 'OPEN "SCRN:" FOR OUTPUT AS 1:PRINT#1,L1$:CLOSE']), None, ['L1$', 'L2$', 'L3$', 'L4$', 'T$', 'S$']


def _misc_stmt2(rng, ln, k):
    if k == 0:
        return 'read', rng.choice(['READ A$', 'READ A$,S$', 'READ X,A$:PRINT A$', 'RESTORE:READ X,A$,S$', 'RESTORE 20:READ X:READ A$:LPRINT A$']), None, ['A$', 'S$']
    if k == 1:
        return 'print-vars', 'PRINT A$;S$;T$;B;E;Z', None, ['A$', 'S$', 'T$']
    if k == 2:
        return 'delete', rng.choice(['DELETE %d' % ln, 'DELETE 200-480', 'DELETE -%d' % ln]), 'mod', []
    if k == 3:
        return 'renum', rng.choice(['RENUM', 'RENUM 1000,500', 'RENUM 5,10,1']), 'mod', []
    if k == 4:
        return 'clear', 'CLEAR', None, []
    if k == 5:
        return 'tron', rng.choice(['TRON', 'TROFF']), None, []
    if k == 6:
        return 'poke-flag', rng.choice(['DEF SEG:POKE 1450,0', 'POKE 1450,0', 'DEF SEG:POKE 1450,0:LIST', 'X=1:POKE 1450,0']), None, []
    if k == 7:
        return 'on-error', 'ON ERROR GOTO 900', 'trap', []
    if k == 8:
        return 'error', rng.choice(['ERROR 5', 'ERROR 11:LIST', 'X=1/0:LIST', 'ERROR 5:PRINT PEEK(%d)' % rng.randint(0, 65535), 'ERROR 2:LLIST', 'ERROR 5:SAVE "Z:S8.BAS",A']), None, []
    if k == 9:
        return 'varptr', rng.choice(['PRINT VARPTR(B)', 'A$=VARPTR$(A$):PRINT LEN(A$)', 'PRINT VARPTR(#1)']), None, ['A$']
    if k == 10:
        # (FILES prints the host's free space, which no simulator owns: not used)
        return 'name', rng.choice(['NAME "Z:L1.TXT" AS "Z:L9.TXT"', 'KILL "Z:L2.TXT"', 'KILL "Z:NONE.BAS"']), None, []
    if k == 11:
        return 'lprint', 'LPRINT "X";B', None, []
    if k == 12:
        return 'key', rng.choice(['KEY LIST', 'KEY ON', 'KEY OFF', 'KEY 1,"LIST"+CHR$(13)', 'KEY 10,"LLIST"+CHR$(13)']), None, []
    if k == 13:
        return 'screen', rng.choice(['CLS', 'WIDTH 40', 'WIDTH 80', 'SCREEN 0', 'SCREEN 1', 'LOCATE 1,1']), None, []
    if k == 14:
        return 'merge-prot', rng.choice(['MERGE "Z:P.BAS"', 'LOAD "Z:NONE.BAS"', 'RUN "Z:NONE.BAS"', 'BLOAD "Z:P.BAS"', 'BLOAD "Z:M1.BIN"']), None, []
    if k == 15:
        return 'open', rng.choice(['OPEN "Z:P.BAS" FOR INPUT AS 1:LINE INPUT#1,A$:CLOSE', 'OPEN "Z:D1.DAT" FOR OUTPUT AS 1:PRINT#1,A$;S$;T$:CLOSE']), None, ['A$']
    if k == 16:
        return 'common', rng.choice(['COMMON A$,B', 'CHAIN "Z:NONE.BAS"']), None, []
    if k == 17:
        return 'fn', rng.choice(['DEF FNA(X)=PEEK(X)', 'PRINT FNA(1)', 'DEF SEG=&HB800:A=PEEK(0)']), None, []
    if k == 18:
        return 'goto-direct', rng.choice(['GOSUB 500:PRINT PEEK(%d)' % rng.randint(0, 65535), 'GOSUB 500:LIST', 'GOSUB 500:T$=CHR$(PEEK(%d))' % rng.randint(0, 65535)]), None, ['T$']
    if k == 19:
        return 'cont', 'CONT', 'ran', []
    if k == 20:
        return 'usr', rng.choice(['A=USR(0)', 'CALL B', 'A=INP(97)', 'PRINT ERL;ERR', 'PRINT FRE(0)']), None, []
    return 'system-vars', rng.choice(['PRINT DATE$', 'PRINT LEN(A$)', 'A$=S$+T$']), None, ['A$']


def _gen16(rng, tier):
    quick = tier == 'quick'
    cfg = _gen_prog16(rng)
    cfg['sk'] = {'syntax': rng.choice(['advanced', 'advanced', 'pcjr', 'tandy'])}
    cfg['media'] = rng.choice(['Z', 'Z', 'Z', '@', 'CAS'])
    faulty = rng.random() < 0.6
    nops = rng.randint(4, 16 if quick else 60)
    ops = []

    def via(line):
        r = rng.random()
        if r < 0.68:
            return 'exec'
        if r < 0.9 or len(line) > 12:
            return 'type'
        return 'keys'

    def brk():
        r = rng.random()
        if r < 0.35:
            return None
        if r < 0.7:
            # Ctrl-Break when the program is about to execute line L for the k-th time
            return ['pos', rng.choice(BRK_LINES), rng.choice([1, 1, 2, 3, rng.randint(1, 120), rng.randint(1, 900)])]
        return ['poll', rng.choice([rng.randint(1, 30), rng.randint(1, 400), rng.randint(1, 1500)])]

    def load_op():
        src = 'P'
        if faulty and rng.random() < 0.35:
            q = rng.random()
            if q < 0.3:
                ops.append({'op': 'tear', 'abs': rng.choice([0, 1, 2, 3, 4, 5, 8])})
            else:
                ops.append({'op': 'tear', 'permille': rng.randint(0, 1000)})
            src = 'T'
        elif faulty and rng.random() < 0.5:
            at = rng.choice(['read'] * 8 + ['open', 'seek', 'close'])
            ops.append({'op': 'fault', 'at': at, 'nth': rng.randint(1, 350) if at == 'read' else rng.randint(1, 2),
                        'errno': rng.choice([errno.EIO, errno.EACCES, errno.ENXIO, errno.EBUSY]),
                        'short': rng.choice([None, None, None, 0])})
        elif rng.random() < 0.1:
            src = 'Q%d' % rng.randint(1, 3)
        how = rng.choice(['LOAD', 'LOAD', 'LOAD', 'LOAD', 'RUN', 'CHAIN', 'LOAD,R'])
        ops.append({'op': 'load', 'how': how, 'src': src, 'via': rng.choice(['exec', 'exec', 'type']), 'brk': brk()})
        if ops[-2]['op'] in ('tear', 'fault') if len(ops) > 1 else False:
            # the instants at which flag and bytes could disagree: try every way out at once
            for _ in range(rng.randint(1, 4)):
                q = rng.randrange(6)
                if q == 0:
                    ops.append({'op': 'sweep', 'off': rng.randint(-4, 300), 'n': rng.randint(100, 250), 'via': 'exec'})
                elif q == 1:
                    ops.append({'op': 'bsave', 'off': rng.randint(-4, 100), 'n': rng.randint(500, 2000), 'nm': 'M%d' % rng.randint(5, 7)})
                elif q == 2:
                    ops.append({'op': 'saveother', 'nm': rng.choice(['S1', 'S2']), 'fmt': rng.choice(['A', 'B']), 'via': 'exec'})
                elif q == 3:
                    ops.append({'op': 'stmt', 'kind': 'list', 'line': rng.choice(['LIST', 'LLIST', 'LIST ,"Z:L6.TXT"']), 'via': 'exec', 'exp': 'ifc', 'vars': []})
                elif q == 4:
                    ops.append({'op': 'run', 'cmd': 'RUN', 'via': 'exec', 'brk': None})
                else:
                    ops.append({'op': 'stmt', 'kind': 'save-dev', 'line': rng.choice(['SAVE "SCRN:",A', 'SAVE "LPT1:",A']), 'via': 'exec', 'exp': 'ifc', 'vars': []})

    def chain_op():
        # an unprotected loader puts string literals into variables, declares them COMMON (or chains with ALL) and
        # CHAINs to the protected file; literal lengths and filler lines move the literals over the loader's code area
        names = ['L1$', 'L2$', 'L3$', 'L4$']
        vs = []
        for nmv in names[:rng.randint(1, 4)]:
            q = rng.random()
            ln_ = rng.choice([rng.randint(1, 30), rng.randint(30, 120), rng.randint(120, 235), 235])
            lit = ''.join(rng.choice('abcdefghijklmnopqrstuvwxyz') for _ in range(ln_))
            vs.append([nmv, 'lit' if q < 0.7 else 'expr' if q < 0.85 else 'copy', lit])
        src = 'P'
        if faulty and rng.random() < 0.2:
            ops.append({'op': 'tear', 'permille': rng.randint(0, 1000)})
            src = 'T'
        ops.append({'op': 'chainload', 'vars': vs, 'all': rng.random() < 0.3, 'fill': [rng.randint(0, 60) for _ in range(rng.randint(0, 4))],
                    'line': rng.choice([None, None, None, 60, 10]), 'src': src, 'nm': 'LD%d' % rng.randint(1, 2),
                    'via': rng.choice(['exec', 'exec', 'type']), 'brk': brk()})
        for _ in range(rng.randint(1, 3)):
            kind, line, eff, vv = _common_stmt(rng)
            ops.append({'op': 'stmt', 'kind': kind, 'line': line, 'via': via(line), 'exp': None, 'eff': eff, 'vars': vv})

    if rng.random() < 0.08:
        chain_op()
    else:
        load_op()
    while len(ops) < nops:
        r = rng.random()
        if r < 0.035:
            chain_op()
        elif r < 0.46:
            kind, line = _ifc_stmt(rng)
            ops.append({'op': 'stmt', 'kind': kind, 'line': line, 'via': via(line), 'exp': 'ifc', 'vars': ['T$'] if 'T$' in line else []})
        elif r < 0.56:
            ops.append({'op': 'run', 'cmd': rng.choice(['RUN', 'RUN', 'RUN', 'CONT', 'GOTO 60', 'RUN 60', 'GOSUB 500', 'GOTO 900', 'RUN 110']),
                        'via': rng.choice(['exec', 'exec', 'type']), 'brk': brk()})
        elif r < 0.64:
            ops.append({'op': 'untrap'})
        elif r < 0.69:
            ops.append({'op': 'savep', 'nm': 'Q%d' % rng.randint(1, 3), 'dev': rng.choice(['Z', 'Z', 'CAS']), 'via': via('x' * 20)})
        elif r < 0.72:
            ops.append({'op': 'saveother', 'nm': rng.choice(['Q1', 'Q2', 'Q3', 'S1', 'S2']), 'fmt': rng.choice(['A', 'B']), 'via': via('x' * 20)})
        elif r < 0.79:
            ops.append({'op': 'sweep', 'off': rng.randint(-4, 900), 'n': rng.randint(20, 250), 'via': rng.choice(['exec', 'exec', 'type'])})
        elif r < 0.82:
            ops.append({'op': 'bsave', 'off': rng.randint(-4, 400), 'n': rng.randint(100, 2000), 'nm': 'M%d' % rng.randint(5, 7)})
        elif r < 0.90:
            kind, line, eff, vs = _misc_stmt(rng)
            ops.append({'op': 'stmt', 'kind': kind, 'line': line, 'via': via(line), 'exp': None, 'eff': eff, 'vars': vs})
        elif r < 0.93:
            ops.append({'op': 'unprot', 'line': rng.choice(['NEW', 'LOAD "Z:U.BAS"', 'CHAIN "Z:U.BAS"', 'RUN "Z:U.BAS"', 'LOAD "Z:UB.BAS"', 'NEW:LIST']),
                        'via': rng.choice(['exec', 'type'])})
        elif r < 0.955:
            ops.append({'op': 'fkey', 'keys': rng.choice([[1], [1, 6], [2], [5], [10], [1, 1], [7, 2]]),
                        'define': rng.choice([None, None, [10, 'LLIST'], [1, 'LIST'], [3, 'EDIT 10'], [10, 'SAVE "Z:S9.BAS",A']]), 'brk': brk()})
        elif r < 0.97:
            ops.append({'op': 'auto', 'start': rng.choice(['', '10', '15,5', '900']), 'lines': [rng.choice(['PRINT 1', 'LIST', 'REM X', '']) for _ in range(rng.randint(1, 3))]})
        else:
            load_op()
    return {'machine': NAME, 'prop': 'C16', 'cfg': cfg, 'ops': ops}


SAFETY_POLLS = 3000


def _pos_hook(d, line, count):
    """Poll hook: Ctrl-Break when the program is about to execute `line` for the count-th time.
    Reads the interpreter position to *schedule* (DESIGN 2.2c), so that two Sessions with different
    screen states (scrolling adds polls inside PRINT) are interrupted at the same program point."""
    st = {'n': 0, 'done': False}

    def hook(w):
        if st['done']:
            return
        impl = d.s._impl
        if impl.interpreter.run_mode:
            if impl.program.get_line_number(impl.program.bytecode.tell()) == line:
                st['n'] += 1
                if st['n'] >= count:
                    st['done'] = True
                    w.inputs.pending.append(K.sig_break())
    return hook


class Screen(object):
    """Text carried by video `update` signals, in arrival order (a rolling window)."""

    def __init__(self, w):
        self.w = w
        w.video.record = []
        self.tail = b''

    def take(self):
        rec = self.w.video.record
        parts = [self.tail]
        for ev in rec:
            if ev.event_type == 'update':
                try:
                    rows = ev.params[2]
                    for row in rows:
                        parts.append(u''.join(row).encode('latin-1', 'replace'))
                except Exception:
                    raise K.HarnessError('unexpected video update payload %r' % (ev.params[:3],))
        del rec[:]
        data = b''.join(parts)
        self.tail = data[-(2 * 12):]
        return data


class S16(object):
    """State of one C16 run."""

    def __init__(self, run, root, fs, cfg):
        self.run = run
        self.w = run.w
        self.root = root
        self.fs = fs
        self.cfg = cfg
        self.sk = dict(cfg['sk'])
        self.frags = []
        for loc in ('rem', 'data', 'lit'):
            for mk in cfg['markers'][loc]:
                mb = b(mk)
                for i in range(len(mb) - FRAG + 1):
                    self.frags.append((mb[i:i + FRAG], loc, mk))
        self.d = None
        self.sink = None
        self.screen = None
        self.prot = False      # True / False / None (unknown)
        self.trap = False      # an ON ERROR trap may be armed
        self.modified = False  # lines deleted / renumbered since the load
        self.read_done = False
        self.leaked = set()
        self.tokwin = {}       # 6-byte windows of the protected program's tokenised image -> offset
        self.pbytes = None
        self.start = None
        self.ref_runs = {}
        self.qvalid = {}
        self.crashes = 0
        self.env_dirty = False   # screen/trace/key-line state differs from a fresh Session
        self.opno = 0
        self.opkind = ''
        self.stop = False

    # -- oracles --------------------------------------------------------------

    def scan(self, data, sink):
        """Look for any 6-byte window of any marker in what reached a sink. True if found."""
        if not data:
            return False
        found = False
        for frag, loc, mk in self.frags:
            if loc in self.leaked or frag not in data:
                # (a class already reported for this run: what leaked once stays on the screen and in variables)
                continue
            self.leaked.add(loc)
            found = True
            i = data.find(frag)
            if loc == 'data' and self.read_done:
                sig = 'leak:data:via-direct-mode-READ'
            else:
                sig = 'leak:%s:%s' % (loc, sink)
            self.run.violate('C16', sig, 'op #%d (%s): marker %r planted in %s appears in %s: ...%r... [model: protected=%r trap=%r]' % (
                self.opno, self.opkind, mk, {'rem': 'a REM', 'data': 'a DATA line', 'lit': 'a never-printed literal'}[loc], sink,
                bytes(data[max(0, i - 30):i + 30]), self.prot, self.trap))
        if 'tok' not in self.leaked and self.tokwin and len(data) >= FRAG and len(data.translate(None, _PLAIN)) >= 2:
            # raw bytes of the tokenised program (not only the planted markers)
            tw = self.tokwin
            for i in range(len(data) - FRAG + 1):
                if data[i:i + FRAG] in tw:
                    j = i
                    while j + 1 <= len(data) - FRAG and tw.get(data[j + 1:j + 1 + FRAG]) == tw[data[i:i + FRAG]] + (j + 1 - i):
                        j += 1
                    self.leaked.add('tok')
                    found = True
                    self.run.violate('C16', 'leak:tokenised-text:%s' % sink, 'op #%d (%s): %d consecutive bytes of the protected program\'s tokenised text '
                                     '(offset %d of its image) appear in %s: ...%r... [model: protected=%r trap=%r]' % (
                                         self.opno, self.opkind, j - i + FRAG, tw[data[i:i + FRAG]], sink, bytes(data[max(0, i - 10):j + FRAG + 10]), self.prot, self.trap))
                    break
        return found

    def scan_all(self, out, vars_=()):
        """Scan every sink; one disclosure is reported once, at the first sink (in this order) that shows it."""
        self.run.probe('sink_scans')
        found = self.scan(out, 'pipe')
        found = self.scan(self.sink.take(), 'output-stream' if not found else 'pipe') or found
        vid = self.screen.take()
        if not found:
            found = self.scan(vid, 'video-update')
        try:
            rows = self.d.chars()
            if not found:
                found = self.scan(b''.join(b''.join(r) for r in rows), 'get_chars')
        except EngineCrash as e:
            self.crash(e)
        for name in vars_:
            try:
                val = self.d.get(b(name))
            except EngineCrash as e:
                self.crash(e)
                continue
            if isinstance(val, (bytes, bytearray)) and not found:
                found = self.scan(bytes(val), 'variable')
        if not found:
            self.scan_files()

    def scan_files(self):
        for dp, dn, fn in sorted(os.walk(self.root)):
            dn.sort()
            for f in sorted(fn):
                p = os.path.join(dp, f)
                try:
                    data = _read(p)
                except OSError:
                    continue
                if data[:1] == b'\xfe':
                    # a ,P file (whole or torn): ciphertext
                    continue
                self.scan(data, 'tape-image' if f == 'tape.cas' else 'lpt1-capture' if f == 'lpt.txt' else 'file')

    def crash(self, e):
        """A host exception is C01's business; note it and go on looking for disclosure."""
        self.crashes += 1
        _norm(e)
        self.run.violate('C01', 'crash:' + e.signature, 'during C16 history, op #%d (%s): %s: %s' % (self.opno, self.opkind, e.exc_type, e.exc_msg))
        self.run.probe('crash_survived')
        self.prot = None
        if self.crashes > 3:
            self.stop = True

    # -- driving --------------------------------------------------------------

    def open_session(self):
        self.sink = ByteSink()
        self.d = _mk(self.w, self.root, self.sk, hide_protected=True, output_streams=self.sink)
        self.screen = Screen(self.w)

    def do(self, line, via='exec', brk=None, extra=None, script=None):
        """Run one direct-mode line. Returns output bytes (pipe for exec, output stream for typed)."""
        w = self.w
        if via == 'keys' and len(line) > 12:
            via = 'type'
        hook = None
        out = b''
        try:
            if via != 'exec':
                # show whatever prompt is pending from earlier exec'd statements (EDIT, syntax error)
                interact(self.d, [], poll_cap=120000)
                self.scan(self.sink.take(), 'output-stream')
            if brk:
                if brk[0] == 'pos':
                    hook = _pos_hook(self.d, brk[1], brk[2])
                    w.at_poll(SAFETY_POLLS, K.sig_break())
                else:
                    w.at_poll(brk[1], K.sig_break())
            elif via == 'exec':
                # a direct statement can start an endless loop on its own (an armed trap whose handler ends in RESUME
                # retries the failing direct statement for ever): far beyond any statement here, Ctrl-Break.
                # (Typed statements have the typist's own stall break.)
                w.at_poll(2 * SAFETY_POLLS, K.sig_break())
            if via == 'exec':
                w.poll_hook = hook
                out = self.d.exec(b(line), poll_cap=60000).out
            else:
                if hook is not None:
                    inner = extra

                    def extra(w, t, hook=hook, inner=inner):
                        hook(w)
                        if inner is not None:
                            inner(w, t)
                if script is None:
                    script = [{'t': 'line' if via == 'type' else 'keys', 'text': line}]
                interact(self.d, script, extra=extra, poll_cap=120000)
        except EngineCrash as e:
            self.crash(e)
        finally:
            w.poll_hook = None
            w._at_poll.clear()
            del w._timed[:]
            w.inputs.pending.clear()
        if via != 'exec':
            out = self.sink.getvalue()
        return out

    def errs(self, out):
        return [c for c, _ in parse_errors(out)]

    def expect_ifc(self, kind, line, via, out):
        if self.prot is True and not self.trap and self.crashes == 0:
            if via != 'exec' and (b'\n' + b(line) + b'\r\n') not in (b'\n' + out):
                # what was typed went onto a screen row that already held text (after LOCATE, behind a trace
                # number): the editor handed the interpreter another line than the one meant
                self.run.probe('typed_line_merged')
                return
            self.run.probe('ifc_checked')
            e = self.errs(out)
            if not e or e[0] != 5:
                self.run.violate('C16', 'no-illegal-function-call:%s' % kind,
                                 'op #%d: %r (%s) on a protected program did not end in Illegal function call: output %r' % (self.opno, line, via, out[-300:]))

    def safety_brk(self, brk):
        # every run of program text gets a Ctrl-Break eventually (torn programs and the `loop` ending never stop)
        return brk if brk else ['poll', SAFETY_POLLS]

    def after_run(self):
        if self.cfg['onerr'] or self.prot is not True:
            self.trap = True

    # -- setup ----------------------------------------------------------------

    def setup(self, ops):
        root = self.root
        d = _mk(self.w, root, self.sk)
        for l in self.cfg['prog']:
            r = d.exec(b(l))
            if r.out:
                raise K.HarnessError('program line rejected: %r %r' % (l, r))
        r = d.exec(b'SAVE "Z:P.BAS",P')
        if r.err is not None:
            raise K.HarnessError('cannot save protected program: %r' % (r,))
        self.pbytes = _read(root + '/z/P.BAS')
        d.exec(b'DEF SEG:BSAVE "Z:FLAG0.BIN",1450,1')
        media = self.cfg['media']
        if media == 'CAS':
            d.exec(b'SAVE "CAS1:P",P')
        elif media == '@':
            _write(root + '/b/P.BAS', self.pbytes)
        try:
            self.start, img = snapshot(d)
        except Malformed as e:
            raise K.HarnessError('setup image malformed: %s' % e)
        self.proglen = len(img)
        self.pimg = img
        # reference outputs of the unprotected original under each break schedule used by RUN ops
        for op in ops:
            if op['op'] == 'run' and op.get('cmd') == 'RUN' and op.get('via') == 'exec':
                k = self.ref_key(op.get('brk'))
                if k is not None and k not in self.ref_runs:
                    self.w.at_poll(SAFETY_POLLS, K.sig_break())
                    if k:
                        self.w.poll_hook = _pos_hook(d, k[0], k[1])
                    try:
                        self.ref_runs[k] = d.exec(b'RUN', poll_cap=60000).out
                    finally:
                        self.w.poll_hook = None
                        self.w._at_poll.clear()
                        self.w.inputs.pending.clear()
        d.close()
        # the other party's files: an unrelated program in ASCII and tokenised form
        _write(root + '/z/U.BAS', b'1000 PRINT "OTHER"\r\n1010 X=X+1\r\n1020 END\r\n\x1a')
        d = _mk(self.w, root, self.sk)
        d.exec(b'LOAD "Z:U.BAS"')
        d.exec(b'SAVE "Z:UB.BAS"')
        d.close()
        # windows of the protected program's tokenised image that are binary enough never to be produced by
        # anything else in the run: they lie inside one statement body (a line header - pointer, number - and the
        # first token behind it are also what a line typed by the user under the same number tokenises to) and hold
        # at least two bytes that are not printable ASCII; minus those that the other party's own tokenised
        # program happens to share
        other = _read(root + '/z/UB.BAS')
        img = self.pimg
        pos = 0
        while pos + 4 < len(img):
            nxt = (img[pos] | (img[pos + 1] << 8)) - self.start
            if not pos + 4 < nxt <= len(img):
                break
            for i in range(pos + 4, nxt - 1 - FRAG + 1):
                win = img[i:i + FRAG]
                if len(win.translate(None, _PLAIN)) >= 2 and win not in other and win not in self.tokwin:
                    self.tokwin[win] = i
            pos = nxt

    @staticmethod
    def ref_key(brk):
        """Break schedules under which two Sessions are interrupted at the same program point."""
        if not brk:
            return ()
        if brk[0] == 'pos':
            return (brk[1], brk[2])
        return None

    def pname(self):
        media = self.cfg['media']
        if media == 'CAS':
            return 'CAS1:P'
        if media == '@':
            self.d._guard('bind_file', lambda: self.d.s.bind_file(self.root + '/b/P.BAS', name=b'P'))
            return '@:P'
        return 'Z:P.BAS'

    # -- ops ------------------------------------------------------------------

    def op_tear(self, op):
        data = self.pbytes
        n = op['abs'] if 'abs' in op else len(data) * op['permille'] // 1000
        _write(self.root + '/z/T.BAS', data[:n])
        self.run.fault('torn-file')
        self.w.log.add('tear', n)

    def op_fault(self, op):
        self.fs.arm(op['at'], nth=op['nth'], err=op['errno'], short=op.get('short') if op['at'] == 'read' else None)

    def op_load(self, op):
        src = op['src']
        name = self.pname() if src == 'P' else 'Z:T.BAS' if src == 'T' else 'Z:%s.BAS' % src
        how = op['how']
        line = 'LOAD "%s",R' % name if how == 'LOAD,R' else '%s "%s"' % (how, name)
        runs = how != 'LOAD'
        nfired = len(self.fs.fired)
        ncrash = self.crashes
        try:
            out = self.do(line, op.get('via', 'exec'), self.safety_brk(op.get('brk')) if runs else None)
        finally:
            armed = self.fs.disarm()
        fired = len(self.fs.fired) > nfired
        e = self.errs(out)
        intact = (src == 'P' or self.qvalid.get(src)) and not fired and self.crashes == ncrash
        # a Ctrl-Break that lands before the program has printed anything may have interrupted the
        # load itself (reading a tape polls for events): then nothing is known about what is in memory
        broke_early = (b'Break' in out or b'^C' in out) and b'START' not in out
        if intact and not e and not self.trap and not broke_early:
            self.prot = True
        else:
            self.prot = None
        if src == 'T':
            self.run.probe('torn_load')
        if fired:
            self.run.probe('faulted_load')
        self.modified = False
        if runs:
            self.after_run()
        self.run.state('load', how, src, op.get('via'), fired, tuple(e[:2]), self.prot, self.trap)
        self.scan_all(out)

    def op_chainload(self, op):
        """An unprotected loader (another party's file) assigns strings to COMMON variables and CHAINs to the
        protected file. The protected program runs; what direct mode can see afterwards is scanned as always,
        and the COMMON values must be what the loader assigned."""
        vs = [v for v in op.get('vars', []) if v[0] in ('L1$', 'L2$', 'L3$', 'L4$')]
        src = op.get('src', 'P')
        target = self.pname() if src == 'P' else 'Z:T.BAS'
        lines = []
        for f in op.get('fill', []):
            lines.append('REM ' + 'x' * f)
        if not op.get('all') and vs:
            lines.append('COMMON ' + ','.join(v[0] for v in vs) + ',N%')
        for name, how, lit in vs:
            lit = lit[:235]
            if how == 'lit':
                lines.append('%s="%s"' % (name, lit))
            elif how == 'expr':
                lines.append('%s="%s"+""' % (name, lit))
            else:
                lines.append('T9$="%s":%s=T9$' % (lit[:230], name))
        lines.append('N%=4711')
        ln = op.get('line')
        if op.get('all'):
            lines.append('CHAIN "%s",%s,ALL' % (target, ln or ''))
        else:
            lines.append('CHAIN "%s"%s' % (target, ',%d' % ln if ln else ''))
        nm = op.get('nm', 'LD1')
        _write('%s/z/%s.BAS' % (self.root, nm), b''.join(b'%d %s\r\n' % (i + 1, b(l)) for i, l in enumerate(lines)) + b'\x1a')
        nfired = len(self.fs.fired)
        ncrash = self.crashes
        try:
            out = self.do('RUN "Z:%s.BAS"' % nm, op.get('via', 'exec'), self.safety_brk(op.get('brk')))
        finally:
            self.fs.disarm()
        fired = len(self.fs.fired) > nfired
        e = self.errs(out)
        intact = src == 'P' and not fired and self.crashes == ncrash
        started = b'START' in out
        if intact and not e and not self.trap and started:
            self.prot = True
        else:
            self.prot = None
        self.modified = False
        self.after_run()
        self.run.state('chainload', src, op.get('via'), bool(op.get('all')), fired, tuple(e[:2]), self.prot, started, len(vs))
        names = [v[0] for v in vs]
        if intact and started:
            # the protected program has taken over (it printed): the loader's COMMON values went with it
            self.run.probe('common_checked')
            for name, how, lit in vs:
                want = b(lit[:230] if how == 'copy' else lit[:235])
                try:
                    val = self.d.get(b(name))
                except EngineCrash as ex:
                    self.crash(ex)
                    break
                if val != want:
                    self.run.violate('C16', 'common-changed-over-chain-to-protected:%s' % how,
                                     'op #%d: the loader assigned %s=%r (%s) and chained to the protected program; in direct mode afterwards %s is %r' % (
                                         self.opno, name, want[:40], {'lit': 'a literal in its program text', 'expr': 'a string expression', 'copy': 'a copy of a literal'}[how],
                                         name, val if not isinstance(val, (bytes, bytearray)) else bytes(val[:80])))
                    break
        self.scan_all(out, names + ['T9$'])

    def op_stmt(self, op):
        line, viaa = op['line'], op.get('via', 'exec')
        kind = op.get('kind', '?')
        if kind == 'edit':
            # the EDIT prompt only exists at the interactive prompt
            viaa = 'type'
        if kind in ('tron', 'screen', 'key', 'save-dev-p', 'print-common'):
            # (SAVE "SCRN:",P and long strings leave the cursor and the scroll state elsewhere)
            self.env_dirty = True
        if kind == 'read' and self.prot is not False:
            self.read_done = True
        out = self.do(line, viaa, self.safety_brk(None) if kind in ('cont', 'goto-direct') else None)
        if op.get('exp') == 'ifc' and not (kind == 'edit' and self.modified):
            # (EDIT of a line that DELETE/RENUM removed is Undefined line number, whoever asks)
            self.expect_ifc(kind, line, viaa, out)
        eff = op.get('eff')
        if eff == 'mod':
            self.modified = True
        elif eff == 'trap':
            self.trap = True
        elif eff == 'ran':
            self.after_run()
        self.run.state('stmt', kind, viaa, self.prot, self.trap, tuple(self.errs(out)[:2]))
        self.scan_all(out, op.get('vars', ()))

    def op_untrap(self, op):
        out = self.do('ON ERROR GOTO 0', 'exec')
        self.trap = False
        self.scan_all(out)

    def op_run(self, op):
        cmd, viaa = op['cmd'], op.get('via', 'exec')
        k = self.ref_key(op.get('brk'))
        clean = self.prot is True and not self.modified and self.crashes == 0 and not self.env_dirty
        out = self.do(cmd, viaa, self.safety_brk(op.get('brk')))
        if clean and cmd == 'RUN' and viaa == 'exec' and k is not None and k in self.ref_runs:
            self.run.probe('run_compared')
            if out != self.ref_runs[k]:
                self.run.violate('C16', 'protected-run-differs',
                                 'op #%d: RUN of the protected program (Ctrl-Break at line/count %r) printed %r, the unprotected original %r' % (self.opno, k, out[-400:], self.ref_runs[k][-400:]))
        self.after_run()
        self.run.state('run', cmd, viaa, self.prot, bool(op.get('brk')), tuple(self.errs(out)[:2]))
        self.scan_all(out)

    def op_savep(self, op):
        nm, dev = op['nm'], op.get('dev', 'Z')
        name = 'CAS1:%s' % nm if dev == 'CAS' else 'Z:%s.BAS' % nm
        clean = self.prot is True and not self.trap and self.crashes == 0
        out = self.do('SAVE "%s",P' % name, op.get('via', 'exec'))
        e = self.errs(out)
        if dev == 'Z':
            self.qvalid[nm] = False
        if clean:
            self.run.probe('savep_checked')
            if e:
                self.run.violate('C16', 'protected-save-fails:%s' % dev, 'op #%d: SAVE "%s",P of a protected program reports %r' % (self.opno, name, out[-200:]))
            elif dev == 'Z' and not self.modified:
                path = '%s/z/%s.BAS' % (self.root, nm)
                data = _read(path) if os.path.exists(path) else b''
                if not data.startswith(self.pbytes[:-1]) or len(data) > len(self.pbytes) + 8:
                    self.run.violate('C16', 'protected-save-differs', 'op #%d: SAVE ,P of the loaded protected program does not reproduce the original ,P file: '
                                     'first difference at %d of %d/%d' % (self.opno, _first_diff(data, self.pbytes), len(data), len(self.pbytes)))
                else:
                    self.qvalid[nm] = True
        self.run.state('savep', dev, self.prot, self.trap, tuple(e[:2]))
        self.scan_all(out)

    def op_saveother(self, op):
        nm, fmt = op['nm'], op['fmt']
        line = 'SAVE "Z:%s.BAS"%s' % (nm, ',A' if fmt == 'A' else '')
        self.qvalid[nm] = False
        out = self.do(line, op.get('via', 'exec'))
        self.expect_ifc('save-' + fmt, line, op.get('via', 'exec'), out)
        self.run.state('saveother', fmt, self.prot, self.trap, tuple(self.errs(out)[:2]))
        self.scan_all(out)

    def op_sweep(self, op):
        a = max(0, self.start + op['off'])
        z = min(65535, a + op['n'])
        line = 'DEF SEG:S$="":FOR I=%d TO %d:S$=S$+CHR$(PEEK(I)):NEXT' % (a, z)
        out = self.do(line, op.get('via', 'exec'))
        self.expect_ifc('peek-sweep', line, op.get('via', 'exec'), out)
        self.run.state('sweep', self.prot, self.trap, tuple(self.errs(out)[:2]))
        self.scan_all(out, ['S$'])

    def op_bsave(self, op):
        a = max(0, self.start + op['off'])
        line = 'DEF SEG:BSAVE "Z:%s.BIN",%d,%d' % (op['nm'], a, op['n'])
        out = self.do(line, 'exec')
        self.expect_ifc('bsave', line, 'exec', out)
        self.run.state('bsave', self.prot, self.trap, tuple(self.errs(out)[:2]))
        self.scan_all(out)

    def op_unprot(self, op):
        line = op['line']
        runs = line.startswith(('CHAIN', 'RUN'))
        out = self.do(line, op.get('via', 'exec'), self.safety_brk(None) if runs else None)
        e = self.errs(out)
        if self.trap or self.crashes:
            self.prot = None
        elif not e:
            self.prot = False
        elif self.prot is not True:
            self.prot = None
        self.modified = False
        self.run.state('unprot', line[:5], self.prot, self.trap, tuple(e[:2]))
        self.scan_all(out)

    def op_fkey(self, op):
        if op.get('define'):
            n, text = op['define']
            out = self.do('KEY %d,"%s"+CHR$(13)' % (n, text.replace('"', '"+CHR$(34)+"')), 'exec')
            self.scan_all(out)
        keys = list(op['keys'])
        state = {'i': 0}
        self.env_dirty = True   # F7 is TRON

        def extra(w, t):
            if state['i'] < len(keys) and t.engine_idle() and t.at_prompt() and not w.inputs.pending:
                k = keys[state['i']]
                state['i'] += 1
                w.inputs.pending.append(K.sig_key(FKEYS[k], 0x3a + k, ()))
                if state['i'] == len(keys):
                    # Enter, in case the macro does not end in CR
                    w.inputs.pending.append(K.sig_key(u'\r', None, ()))
        out = self.do('', 'type', self.safety_brk(op.get('brk')), extra=extra, script=[])
        self.after_run()
        self.run.state('fkey', tuple(keys), self.prot, self.trap, tuple(self.errs(out)[:2]))
        self.scan_all(out)

    def op_auto(self, op):
        script = [{'t': 'line', 'text': 'AUTO ' + op.get('start', '')}]
        script += [{'t': 'input', 'text': l} for l in op['lines']]
        n = len(script)

        def extra(w, t):
            impl = t.d.s._impl
            if impl._auto_mode and t.pos >= n and t.idle >= 4 and t.engine_idle() and not w.inputs.pending:
                w.inputs.pending.append(K.sig_break())
        out = self.do('', 'type', extra=extra, script=script)
        self.run.state('auto', self.prot, self.trap, tuple(self.errs(out)[:2]))
        self.scan_all(out)


def _run16(run, case):
    cfg, ops = case['cfg'], case['ops']
    root = run.make_scratch()
    for sub in ('z', 'b'):
        os.makedirs(os.path.join(root, sub))
    simfs.install_fs_seams()
    fs = simfs.SimFS(run.w, [root])
    st = S16(run, root, fs, cfg)
    with run.w:
        st.setup(ops)
        st.open_session()
        for i, op in enumerate(ops):
            st.opno = i
            st.opkind = op['op'] + (':' + op.get('kind', '') if op.get('kind') else '')
            getattr(st, 'op_' + op['op'])(op)
            if st.stop:
                break
        try:
            st.d.close()
        except EngineCrash as e:
            st.crash(e)
        # LPT1 capture and tape image are flushed by close
        st.opkind = 'close'
        st.scan_files()


###############################################################################
# machine interface

def gen(rng, tier, prop):
    if prop == 'C15':
        return _gen15(rng, tier)
    return _gen16(rng, tier)


_quiet = []


def run(case):
    if not _quiet:
        # the engine reports host I/O errors through logging.warning; keep worker stderr clean
        logging.getLogger().addHandler(logging.NullHandler())
        _quiet.append(1)

    def body(run):
        if case['prop'] == 'C15':
            _run15(run, case)
        else:
            _run16(run, case)
    return execute(case, body, world_cfg={})


def simplify(cfg, ops):
    for i, op in enumerate(ops):
        if op.get('via') in ('type', 'keys'):
            yield cfg, ops[:i] + [dict(op, via='exec')] + ops[i + 1:]
        if op.get('brk'):
            yield cfg, ops[:i] + [dict(op, brk=None)] + ops[i + 1:]
        if op['op'] == 'rt' and op.get('dev') != 'Z':
            yield cfg, ops[:i] + [dict(op, dev='Z')] + ops[i + 1:]
        if op['op'] == 'rt' and op.get('how') == 'MERGE' and op.get('resident'):
            yield cfg, ops[:i] + [dict(op, resident=op['resident'][:-1])] + ops[i + 1:]
        if op['op'] in ('torn', 'savefault') and op.get('dev') != 'Z':
            yield cfg, ops[:i] + [dict(op, dev='Z')] + ops[i + 1:]
        if op['op'] == 'settle' and len(op.get('fmts', [])) > 1:
            for f in op['fmts']:
                yield cfg, ops[:i] + [dict(op, fmts=[f])] + ops[i + 1:]
        if op['op'] == 'settle' and len(op.get('targets', [])) > 1:
            for t in op['targets']:
                yield cfg, ops[:i] + [dict(op, targets=[t])] + ops[i + 1:]
        if op['op'] == 'chainload' and len(op.get('vars', [])) > 1:
            for v in op['vars']:
                yield cfg, ops[:i] + [dict(op, vars=[v])] + ops[i + 1:]
        if op['op'] == 'chainload' and op.get('fill'):
            yield cfg, ops[:i] + [dict(op, fill=op['fill'][:-1])] + ops[i + 1:]
    if cfg.get('lines') and len(cfg['lines']) > 1:
        for i in range(len(cfg['lines'])):
            yield dict(cfg, lines=cfg['lines'][:i] + cfg['lines'][i + 1:]), ops
    if cfg.get('tok') and len(cfg['tok']) > 1:
        for i in range(len(cfg['tok'])):
            yield dict(cfg, tok=cfg['tok'][:i] + cfg['tok'][i + 1:]), ops
    if cfg.get('sk', {}).get('syntax', 'advanced') != 'advanced':
        yield dict(cfg, sk=dict(cfg['sk'], syntax='advanced')), ops
