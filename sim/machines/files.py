"""
files machine - C24 (sequential files), C25 (random-access files), C26 (sharing and locks).

One simulated run = one history of file statements typed at a Session (direct mode) whose C:
drive is a per-run scratch directory, with the host file system seam (sim.simfs) injecting
I/O faults at seeded call counts, Session restarts in between, and a small reference model:

  C24  per host file a list of records (WRITE# records with typed items, PRINT# lines) = a
       reference byte string; per file number a read cursor.  Values read = values written,
       EOF exactly at the end, LOF = bytes, APPEND extends, host bytes = model after CLOSE.
       A statement that is refused because the file is open under another number (second OPEN
       for OUTPUT/APPEND, SAVE, LIST ,"file", BSAVE, KILL, NAME) leaves the host file byte for
       byte as it was and the holder reads on (C26's open histories check the same).
  C25  per host file a bytearray; per file number record length, position, FIELD buffer, ACCESS
       mode; the acknowledged record locks.  PUT/GET that are refused (record locked through
       another number on the same file, ACCESS mode) or fail in a host seek/read leave file,
       buffer and - with an implicit record number - the record pointer where they were, and the
       history goes on with the file open (retries).  Statements that reset the FIELD buffers
       while files stay open (CHAIN, RUN/LOAD ,R of a program on the disk, CLEAR, NEW, DELETE,
       MERGE, entering a program line) and suspend/resume come in between.  Stretches of a
       history run as lines of a stored program instead of being typed: the program holding the
       statements of the stretch is entered as a whole first (typed, or LOAD ,R/RUN ,R/CHAIN of a
       file - a buffer reset itself), each statement is run with GOTO <line> up to the STOP
       behind it, and CHAIN/RUN/LOAD inside the stretch go to a program on the disk that holds
       the rest of the stretch (P1 does OPEN/FIELD/LSET/PUT and CHAINs; P2 FIELDs again, PUTs, GETs).
  C26  the set of *acknowledged* locks (LOCK returned without error, not yet UNLOCKed/CLOSEd)
       and the open table; implementation-independent invariants over them.

Faults are ops ({'op':'fault',...}) that arm the seam; whatever statement the fault lands in is
then judged with the narrow relaxations of DESIGN.md 2.6, the touched file is re-synchronised
from BASIC-visible state/host bytes (verify first, then normalise) and the history goes on.
"""

import os
import errno
import logging

from .. import kernel as K
from ..basicdrv import Driver, EngineCrash
from .. import simfs
from .common import execute, b, u

NAME = 'files'
PROPS = ('C24', 'C25', 'C26')
RULE = ('one evaluation = one simulated history of file statements (OPEN/WRITE#/PRINT#/INPUT#/LINE INPUT#/'
        'INPUT$/FIELD/LSET/RSET/PUT/GET/LOCK/UNLOCK/CLOSE, CHAIN/RUN,R/LOAD,R/CLEAR/NEW with files open, typed or run '
        'as stored-program lines, Session restarts, suspend/resume, injected host I/O faults) checked '
        'statement by statement against the reference model; distinct = distinct (op kind, file mode, '
        'model-state buckets [records/cursor-at-end | record-position relation to file end | open handles, '
        'held locks, range relation], outcome, fault fired) tuples; non-trivial = the op reached the engine '
        'and its result was compared with the model')
REAL = ['pcbasic.basic (whole package: parser, devices.files/disk/diskfiles/devicebase, memory.Field)',
        'host tmpfs for every file operation that is not faulted']
STUB = ['host I/O errors (injected by sim.simfs at seeded call counts)', 'wall clock (simulated)',
        'interface queues (simulated)']
ASSUMPTIONS = [
    'WRITE# writes numbers as STR$ without the leading blank (GW-BASIC manual); read-back numbers are compared '
    'with VAL(written text) in the same Session, decimal conversion itself is not re-verified',
    'GET beyond the end of a random file is modelled as zero bytes (DESIGN.md C25)',
    'C26 judges only what the property states: LOCK/OPEN refusals that the property does not demand are not judged',
    'C25: a PUT/GET that reports an error because of a lock, the ACCESS mode or a failed host seek/read has not '
    'accessed the record: with an implicit record number LOC and the next implicit record are unchanged; after such '
    'a failure with an explicit record number the record pointer is read from LOC and not judged',
    'C25: what the record buffer holds right after CHAIN/RUN,R/LOAD,R/CLEAR/NEW/DELETE/a typed program line is not '
    'judged (the buffer is FIELDed again and read), nor which file numbers those statements leave open (asked with '
    'LOC); PUT/GET/LOC/LOF on the numbers that stay open are judged as before',
]
BATCH = 40

CAP_BYTES = 1 << 18      # no PUT that would make a file larger than this is sent to the engine
MODEWORD = {'I': b'INPUT', 'O': b'OUTPUT', 'A': b'APPEND', 'R': b'RANDOM'}
SENT_S = b'\x7f~unset~\x7f'
SENT_N = -9999


def quick_runs(prop):
    return {'C24': 14000, 'C25': 18000, 'C26': 20000}[prop]


def build_program(stmts):
    """
    Text of a stored program (plain text, as SAVE ,A writes it) that holds the given statements, and
    the table statement -> line number.  Lines 10-30 are a header that ends in STOP (where CHAIN,
    RUN ,R and LOAD ,R end up); every statement has a line of its own followed by a STOP line, so
    that the harness can run it inside the program with GOTO <line> and look at the result at the
    STOP (files stay open at STOP, variables and FIELD buffers are kept).
    """
    lines = [b'10 REM', b'20 REM', b'30 STOP']
    table = {}
    n = 100
    for st in stmts:
        if st in table or len(st) > 230:
            continue
        table[st] = n
        lines.append(b'%d %s' % (n, st))
        lines.append(b'%d STOP' % (n + 5))
        n += 10
    return b'\r\n'.join(lines) + b'\r\n\x1a', table


class FaultCrash(Exception):
    """A host-language exception escaped from a statement that an injected fault touched."""

    def __init__(self, label, crash, fired):
        Exception.__init__(self, label)
        self.label = label
        self.crash = crash
        self.fired = fired


class Ctx(object):
    """Session + scratch mount + fault seam for one run."""

    def __init__(self, run, cfg):
        self.run = run
        self.w = run.w
        self.root = os.path.join(run.make_scratch(), 'c')
        os.makedirs(self.root)
        self.fs = simfs.SimFS(self.w, [self.root])
        self.skw = dict(cfg['session'])
        self.d = None
        self.trace = []
        self.lastfired = []
        self.tainted = None     # label of an earlier faulted statement whose aftermath we are in
        # program mode: the statements of the coming stretch of the history are lines of the stored
        # program (entered/loaded as a whole *before* they run: adding a line clears the variables); a
        # statement is run with GOTO <its line> and the program stops at the STOP behind it, or with the
        # statement's error "... in <line>".  table = what the program in memory holds; a statement that
        # is not in it is typed.
        self.prog = False
        self.table = {}

    def start(self):
        self.d = Driver(self.w, devices={'C:': self.root}, current_device='C:', **self.skw)

    def restart(self):
        self.fs.disarm()
        self.d.close()
        self.start()
        self.table = {}
        self.run.fault('restart')
        self.trace.append('<Session closed; new Session on the same mount>')

    def resume(self):
        """Suspend the session with its files open, close it, resume from the state file."""
        from ..basicdrv import suspend_resume
        self.fs.disarm()
        self.d = suspend_resume(self.d, os.path.join(os.path.dirname(self.root), 'files.state'))
        self.run.fault('suspend-resume')
        self.trace.append('<Session suspended, closed and resumed with its files open>')

    def x(self, line, label=None):
        """Execute a statement; remember which injected faults fired in it."""
        n0 = len(self.fs.fired)
        lineno = self.table.get(bytes(line)) if self.prog else None
        self.trace.append((u'[program line %d] ' % lineno if lineno else u'') + u(line)[:120])
        try:
            if lineno:
                self.run.probe('statement-run-as-program-line')
                r = self.d.exec(b'GOTO %d' % lineno)
            else:
                if self.prog:
                    self.run.probe('statement-typed-in-program-mode(not in the stored program)')
                r = self.d.exec(line)
        except EngineCrash as e:
            fired = self.fs.fired[n0:]
            if fired or self.tainted:
                raise FaultCrash(label or u(line[:12]), e, fired or self.tainted)
            raise
        self.lastfired = self.fs.fired[n0:]
        for f in self.lastfired:
            self.trace.append('<fault %s %s fired>' % (f[0], errno.errorcode.get(f[1], f[1])))
        if r.errs:
            self.trace.append('<error %d>' % r.errs[0][0])
        return r

    def fn(self, expr, label=None):
        """Value of a numeric function through a statement (so that errors are reported): (err, value)."""
        r = self.x(b'Q#=' + expr, label)
        if r.err is not None:
            return r.err, None
        return None, self.d.get(b'Q#')

    def path(self, name):
        return os.path.join(self.root, name)

    def host(self, name):
        """Host file bytes (None if absent), read behind the fault seam."""
        try:
            with simfs.real_open(self.path(name), 'rb') as f:
                return f.read()
        except FileNotFoundError:
            return None

    def put_host(self, name, data):
        with simfs.real_open(self.path(name), 'wb') as f:
            f.write(data)

    def witness(self):
        return ' | '.join(self.trace[-14:])


class Base(object):
    """Shared bits of the three executors."""

    prop = None

    def __init__(self, cx, cfg):
        self.cx = cx
        self.run = cx.run
        self.cfg = cfg
        self.maxf = cfg['session'].get('max_files', 3)
        self.h = {}
        self.ops = []       # the whole history and the index of the op being executed (program mode
        self.ip = 0         # looks ahead to know which statements the stored program must hold)

    def bad(self, sig, detail):
        self.run.violate(self.prop, sig, '%s\n  statements: %s' % (detail, self.cx.witness()))
        self.run.stop = True

    def soft(self, sig, detail):
        """A violation after which the model is still in step with the engine: report, go on."""
        self.run.violate(self.prop, sig, '%s\n  statements: %s' % (detail, self.cx.witness()))

    def step(self, op):
        fn = getattr(self, 'op_' + op['op'], None)
        if fn is None:
            raise K.HarnessError('unknown op %r' % (op,))
        fn(op)

    def op_fault(self, op):
        # at most one pending fault, so that a statement is hit by at most one (clean signatures)
        self.cx.fs.disarm()
        self.cx.fs.arm(op['kind'], op['nth'], getattr(errno, op['err']), torn=op.get('torn'))
        self.run.probe('fault-armed')

    def fired_kind(self):
        f = self.cx.lastfired
        return f[0][0] if f else None

    def close_retry(self, n, label):
        """CLOSE #n until it reports success (max 3). Returns number of failed attempts, or None."""
        self.cx.fs.disarm()
        for i in range(3):
            r = self.cx.x(b'CLOSE #%d' % n, label)
            if r.err is None:
                return i
        self.bad('close-keeps-failing-after-fault', 'CLOSE #%d failed three times with no fault armed' % n)
        return None


###############################################################################
# C24: sequential files

class Seq(Base):
    """Executor + reference model for C24."""

    prop = 'C24'

    def __init__(self, cx, cfg):
        Base.__init__(self, cx, cfg)
        self.files = {}      # name -> {'recs': [rec], 'exists': bool}
        self.numtext = {}

    # model helpers -----------------------------------------------------------

    def fm(self, name):
        return self.files.setdefault(name, {'recs': [], 'exists': False})

    @staticmethod
    def content(recs):
        return b''.join(r['raw'] + b'\r\n' for r in recs)

    def recs(self, h):
        return self.fm(h['name'])['recs']

    def at_end(self, h):
        return h['ri'] >= len(self.recs(h))

    def suffix(self, h):
        s = ''
        if h.get('after255'):
            s += ':after-255-char-item'
        if h.get('open_fault'):
            s += ':after-%s-fault-in-OPEN-%s' % (h['open_fault'], h['mode'])
        return s

    def note(self, kind, h, fired=False, extra=None):
        if h is None:
            self.run.state('C24', kind, None, fired, extra)
        else:
            self.run.state('C24', kind, h['mode'], min(len(self.recs(h)), 4), self.at_end(h),
                           h['off'] > 0, fired or None, extra)

    @staticmethod
    def shape(items):
        """Abstract shape of an item list: kinds present, longest string bucket, blanks/commas/breaks inside."""
        kinds = ''.join(sorted(set(it['t'] if it['t'] == 's' else it['typ'] for it in items)))
        strs = [it['v'] for it in items if it['t'] == 's']
        ln = max([len(x) for x in strs] or [-1])
        bucket = -1 if ln < 0 else 0 if ln == 0 else 1 if ln <= 8 else 2 if ln <= 60 else 3 if ln < 254 else ln
        feat = ''.join(c for c, t in (('b', any(x[:1] == b' ' or x[-1:] == b' ' for x in strs)),
                                      ('c', any(b',' in x for x in strs)),
                                      ('r', any(b'\r' in x or b'\n' in x for x in strs)),
                                      ('h', any(max(x or b'\0') > 127 for x in strs))) if t)
        return (min(len(items), 4), kinds, bucket, feat)

    def verify_host(self, name, h=None, acked=True):
        """After an acknowledged CLOSE: host bytes = reference bytes (+ optional EOF mark)."""
        f = self.fm(name)
        host = self.cx.host(name)
        want = self.content(f['recs'])
        if not f['exists']:
            return
        if host is None or host not in (want, want + b'\x1a'):
            sig = 'file-bytes' + (self.suffix(h) if h else '')
            self.bad(sig, 'host file %s after CLOSE holds %r, reference content is %r (+ optional ^Z)' % (
                name, None if host is None else host[-80:], want[-80:]))

    # ops ---------------------------------------------------------------------

    def op_open(self, op):
        n, name, mode = op['n'], op['name'], op['mode']
        f = self.fm(name)
        others = [k for k, hh in self.h.items() if hh['name'] == name and k != n]
        if op.get('syn'):
            stmt = b'OPEN "%s",#%d,"%s"' % (b(mode), n, b(name))
        else:
            stmt = b'OPEN "%s" FOR %s AS #%d' % (b(name), MODEWORD[mode], n)
        if others and not (mode == 'I' and all(self.h[k]['mode'] == 'I' for k in others)):
            if mode in 'OA':
                # OUTPUT/APPEND on a name that is open under another number: the engine refuses it (File
                # already open). Whether it must is C26's business; what C24 demands is that a *refused*
                # OPEN leaves the file as it is - the data written stay, the other number reads on.
                return self.refused_leaves_file(stmt, 'OPEN-' + mode, name, others)
            return   # (INPUT beside OUTPUT/APPEND) sharing a file between numbers is C26's business
        before = self.cx.host(name)
        r = self.cx.x(stmt, 'OPEN-' + mode)
        fk = self.fired_kind()
        self.note('open-' + mode, self.h.get(n), fk)
        why = None
        if n in self.h:
            why = 'number-in-use'
        elif n > self.maxf:
            why = 'number>max_files'
        elif mode == 'I' and not f['exists']:
            why = 'input-file-missing'
        if why:
            if r.err is None:
                return self.bad('open-accepted:' + why, '%r succeeded' % stmt)
            if self.cx.host(name) != before:
                return self.bad('failed-open-changed-file:' + why, '%r failed with %d but changed %s: %r -> %r' % (
                    stmt, r.err, name, before and before[-60:], (self.cx.host(name) or b'')[-60:]))
            return
        if r.err is not None:
            if not fk:
                return self.bad('open-refused:' + mode, '%r gave error %d; the model has file %s closed and number '
                                '%d free' % (stmt, r.err, name, n))
            # faulted OPEN reported an error: the file must not be damaged
            after = self.cx.host(name)
            def strip(x):
                return None if x is None else (x[:-1] if x.endswith(b'\x1a') else x)
            ok = strip(after) == strip(before) or (before is None and after == b'')
            if mode == 'O' and after == b'':
                ok = True
                f['recs'] = []
                f['exists'] = True
            if not ok:
                return self.bad('failed-open-damaged-file:%s:%s-fault' % (mode, fk),
                                '%r reported error %d, host file went from %r to %r' % (
                                    stmt, r.err, before and before[-60:], after and after[-60:]))
            if after is not None:
                f['exists'] = True
            self.cx.fs.disarm()
            return
        if mode == 'O':
            f['recs'] = []
        f['exists'] = True
        self.h[n] = {'name': name, 'mode': mode, 'ri': 0, 'off': 0, 'base': len(f['recs']),
                     'open_fault': fk if mode == 'A' else None, 'after255': False}
        if fk:
            self.run.probe('open-succeeded-despite-fault')
            self.cx.fs.disarm()
            after = self.cx.host(name) or b''
            if mode != 'O' and (after[:-1] if after.endswith(b'\x1a') else after) != self.content(f['recs']):
                del self.h[n]
                return self.bad('open-damaged-file:%s:%s-fault' % (mode, fk), '%r reported success; host file was %r, '
                                'is now %r' % (stmt, before and before[-60:], after[-60:]))

    def refused_leaves_file(self, stmt, label, name, holders, also=None):
        """
        A statement that would open (create, truncate, delete, rename) the host file `name`, which is
        open under the numbers in holders. If it reports an error, the host file is byte for byte what
        it was (and a file named `also` has not appeared); the holders' reads and writes go on being
        judged against the unchanged reference. If it is accepted, the reference cannot follow (two
        writers on one file are outside C24): the history ends there, unjudged.
        """
        before = self.cx.host(name)
        before_also = self.cx.host(also) if also else None
        r = self.cx.x(stmt, label)
        k = holders[0]
        held = {'I': 'INPUT', 'O': 'OUTPUT', 'A': 'APPEND'}[self.h[k]['mode']]
        self.run.state('C24', 'on-open-file', label, held, r.err, self.fired_kind())
        self.run.probe('statement-on-a-file-open-under-another-number:' + label)
        self.cx.fs.disarm()
        if r.err is None:
            self.run.probe('statement-on-open-file-accepted(history ends unjudged)')
            self.run.stop = True
            return
        after = self.cx.host(name)
        if after != before or (also and self.cx.host(also) != before_also):
            return self.bad('refused-statement-changed-file:%s:held-for-%s' % (label, held),
                            '%r reported error %d (#%d has %s open for %s) but the host file went from %d bytes %r to '
                            '%s' % (stmt, r.err, k, name, held, len(before or b''), (before or b'')[-40:],
                                    'nothing' if after is None else '%d bytes %r' % (len(after), after[-40:])))

    def op_sysop(self, op):
        """SAVE, SAVE ,A, LIST ,"file", BSAVE, KILL, NAME aimed at a file that is open under a number."""
        name, kind = op['name'], op['kind']
        holders = sorted(k for k, hh in self.h.items() if hh['name'] == name)
        if not holders:
            return    # on a closed file these statements replace or remove it: not part of this model
        if kind in ('save', 'savea', 'list', 'bsave') and '.' not in name:
            return    # the default extension .BAS would make it another file
        stmt = {
            'save': b'SAVE "%s"', 'savea': b'SAVE "%s",A', 'list': b'LIST ,"%s"', 'bsave': b'BSAVE "%s",0,16',
            'kill': b'KILL "%s"', 'name': b'NAME "%s" AS "RENAMED.DAT"', 'nameto': b'NAME "OTHER.DAT" AS "%s"',
        }[kind] % b(name)
        if kind == 'nameto':
            self.cx.put_host('OTHER.DAT', b'other\r\n\x1a')
        self.refused_leaves_file(stmt, kind.upper(), name, holders,
                                 also={'name': 'RENAMED.DAT', 'nameto': 'OTHER.DAT'}.get(kind))

    def op_close(self, op):
        n = op['n']
        h = self.h.get(n)
        if h is None:
            self.cx.x(b'CLOSE #%d' % n, 'CLOSE')
            return
        r = self.cx.x(b'CLOSE #%d' % n, 'CLOSE')
        fk = self.fired_kind()
        self.note('close', h, fk)
        if r.err is not None:
            if not fk:
                return self.bad('close-error', 'CLOSE #%d gave error %d' % (n, r.err))
            self.cx.tainted = [('close-failed', 0, h['name'])]
            try:
                return self.resync(n, b'', 'CLOSE-after-failed-CLOSE', close_failed=True)
            finally:
                self.cx.tainted = None
        del self.h[n]
        if fk:
            self.cx.fs.disarm()
        if h['mode'] in 'OA':
            self.verify_host(h['name'], h)

    def op_closeall(self, op):
        for n in sorted(self.h):
            if self.run.stop:
                return
            self.op_close({'n': n})

    def op_resume(self, op):
        # open files stay open across suspend/resume; the model is unchanged
        self.cx.resume()
        self.run.state('C24', 'resume', len(self.h))

    def op_restart(self, op):
        self.cx.restart()
        hs, self.h = self.h, {}
        self.run.state('C24', 'restart', len(hs))
        for n in sorted(hs):
            if hs[n]['mode'] in 'OA':
                self.verify_host(hs[n]['name'], hs[n])

    def finish(self):
        self.cx.fs.disarm()
        self.op_closeall({})
        if not self.run.stop:
            for name in sorted(self.files):
                self.verify_host(name)

    def resync(self, n, attempted, label, close_failed=False):
        """
        A fault touched file number n (a write statement or CLOSE reported an error).
        Close it, verify the host bytes against what was acknowledged, then normalise the
        host file to whole records so that the history can go on with an exact model.
        """
        h = self.h.pop(n)
        failed = self.close_retry(n, label)
        if failed is None:
            return
        if h['mode'] == 'I':
            return
        lost_ok = close_failed or failed > 0
        f = self.fm(h['name'])
        host = self.cx.host(h['name']) or b''
        if host.endswith(b'\x1a'):
            host = host[:-1]
        base = self.content(f['recs'][:h['base']])
        succ = self.content(f['recs'][h['base']:])
        must = base if lost_ok else base + succ
        full = base + succ + attempted
        if not (host.startswith(must) and full.startswith(host)):
            return self.bad('acknowledged-data-lost-after-fault:' + label + self.suffix(h),
                            'after the faulted statement and a successful CLOSE the host file holds %r; it must '
                            'start with %r and be a prefix of %r' % (host[-100:], must[-100:], full[-100:]))
        keep, size = h['base'], len(base)
        for rec in f['recs'][h['base']:]:
            if size + len(rec['raw']) + 2 <= len(host):
                keep += 1
                size += len(rec['raw']) + 2
            else:
                break
        f['recs'] = f['recs'][:keep]
        self.cx.put_host(h['name'], self.content(f['recs']) + b'\x1a')
        self.run.probe('resynced-after-fault')

    # writing -----------------------------------------------------------------

    def _write_stmt(self, n, stmt, raw, rec, label):
        h = self.h.get(n)
        r = self.cx.x(stmt, label)
        fk = self.fired_kind()
        self.note(label, h, fk, self.shape(rec['items']) if rec['items'] else min(len(raw), 9) + (len(raw) > 253) * len(raw))
        if h is None or h['mode'] == 'I':
            if r.err is None:
                self.bad('write-accepted:number-not-open-for-output', '%r succeeded' % stmt)
            return
        if r.err is None:
            self.recs(h).append(rec)
            if fk:
                self.run.probe('write-succeeded-despite-fault')
            return
        if not fk:
            return self.bad('write-error', '%r gave error %d' % (stmt, r.err))
        self.run.probe('write-fault->BASIC-error')
        self.resync(n, raw + b'\r\n', label)

    def op_write(self, op):
        n = op['n']
        d = self.cx.d
        names, parts, items, pre = [], [], [], []
        for j, it in enumerate(op['items'][:6]):
            if it[0] == 's':
                v = b(it[1])
                var = b'W%d$' % j
                d.set(var, v)
                parts.append(b'"' + v + b'"')
                items.append({'t': 's', 'v': v})
            else:
                var = b'N%d%s' % (j, b(it[2]))
                pre.append(var + b'=' + b(it[1]))
                parts.append(None)
                items.append({'t': 'n', 'typ': it[2], 'var': var})
            names.append(var)
        if pre:
            r0 = self.cx.x(b':'.join(pre))
            if r0.err is not None:
                raise K.HarnessError('bad numeric literal in %r' % (pre,))
        raw = b''
        for j, it in enumerate(items):
            if it['t'] == 'n':
                text = bytes(d.eval(b'STR$(' + it.pop('var') + b')')).lstrip(b' ')
                it['v'] = text
                parts[j] = text
            it['start'] = len(raw)
            raw += parts[j]
            if j < len(items) - 1:
                raw += b','
            it['end'] = len(raw)
        stmt = b'WRITE#%d,' % n + b','.join(names)
        self._write_stmt(n, stmt, raw, {'k': 'w', 'raw': raw, 'items': items}, 'WRITE#')

    def op_print(self, op):
        n = op['n']
        line = b(op['line'])
        self.cx.d.set(b'L$', line)
        self._write_stmt(n, b'PRINT#%d,L$' % n, line, {'k': 'p', 'raw': line, 'items': []}, 'PRINT#')

    # reading -----------------------------------------------------------------

    def _read_failed(self, n, h, r, stmt, what):
        """Common handling of an error in a read statement. Returns True if handled."""
        fk = self.fired_kind()
        if r.err is None:
            return False
        if fk:
            self.run.probe('read-fault->BASIC-error')
            self.resync(n, b'', what)
            return True
        self.bad(what + '-error' + self.suffix(h), '%r gave error %d; reference cursor is at record %d/%d offset %d'
                 % (stmt, r.err, h['ri'], len(self.recs(h)), h['off']))
        return True

    def _check_eof(self, n, h):
        if self.run.stop or n not in self.h:
            return
        err, v = self.cx.fn(b'EOF(%d)' % n, 'EOF')
        fk = self.fired_kind()
        if err is not None:
            if fk:
                return self.resync(n, b'', 'EOF')
            return self.bad('eof-error', 'EOF(%d) gave error %d' % (n, err))
        if bool(v) != self.at_end(h):
            self.bad('eof-mismatch' + self.suffix(h), 'EOF(%d)=%r but the reference cursor is at record %d of %d '
                     '(offset %d)' % (n, v, h['ri'], len(self.recs(h)), h['off']))
        if fk:
            self.cx.fs.disarm()

    def _past_end(self, n, h, stmt, what):
        """Reading at the end of the data must be refused (Input past end)."""
        r = self.cx.x(stmt, what)
        self.note(what + '@end', h, self.fired_kind())
        if r.err is None:
            return self.bad(what + '-past-end-accepted' + self.suffix(h), '%r succeeded with the cursor at the end '
                            'of the data' % stmt)
        if self.fired_kind():
            self.resync(n, b'', what)

    def op_rditems(self, op):
        n = op['n']
        h = self.h.get(n)
        if h is None or h['mode'] != 'I':
            r = self.cx.x(b'INPUT#%d,S0$' % n, 'INPUT#')
            if r.err is None:
                self.bad('input-accepted:number-not-open-for-input', 'INPUT#%d succeeded' % n)
            return
        recs = self.recs(h)
        if self.at_end(h):
            return self._past_end(n, h, b'INPUT#%d,S0$' % n, 'INPUT#')
        # collect the items the statement will read
        ri, off = h['ri'], h['off']
        got = []
        while len(got) < min(op['k'], 6) and ri < len(recs) and recs[ri]['k'] == 'w':
            its = [it for it in recs[ri]['items'] if it['start'] == off]
            if not its:
                break
            it = its[0]
            got.append(it)
            if it is recs[ri]['items'][-1]:
                ri, off = ri + 1, 0
            else:
                off = it['end']
        if not got:
            return self.op_rdline(op)
        d = self.cx.d
        names, pre = [], []
        for j, it in enumerate(got):
            if it['t'] == 's':
                var = b'S%d$' % j
                d.set(var, SENT_S)
            else:
                var = b'%s%d%s' % ({'%': b'I', '!': b'E', '#': b'D'}[it['typ']], j, b(it['typ']))
                pre.append(var + b'=%d' % SENT_N)
            names.append(var)
        if pre:
            self.cx.x(b':'.join(pre))
        stmt = b'INPUT#%d,' % n + b','.join(names)
        r = self.cx.x(stmt, 'INPUT#')
        fk = self.fired_kind()
        self.note('input#', h, fk, (self.shape(got), r.err))
        # values: every variable holds the written value or (after a reported error) is untouched
        unset = False
        for j, it in enumerate(got):
            if it['t'] == 's':
                v = bytes(d.get(names[j]))
                same = (v == it['v'])
                untouched = (v == SENT_S)
            else:
                same = bool(d.eval(names[j] + b'=VAL("' + it['v'] + b'")'))
                untouched = bool(d.eval(names[j] + b'=%d' % SENT_N))
                v = d.get(names[j])
            if r.err is not None and (untouched or unset):
                if not untouched and not same:
                    return self.bad('input#-assigned-after-error', '%r failed with %d yet %s=%r' % (
                        stmt, r.err, u(names[j]), v))
                unset = True
                continue
            if not same:
                if any(g['t'] == 's' and len(g['v']) == 255 for g in got[:j]):
                    h['after255'] = True
                shape = ''
                if it['t'] == 's' and it['v'].startswith(b'\r\n'):
                    # input shape of a confirmed defect: the first character after the opening quote is read
                    # with CR LF folding, the rest of a quoted string is not
                    shape = ':quoted-string-starting-with-CR-LF'
                return self.bad('input#-mismatch' + shape + self.suffix(h), '%r: item %d read back as %r, written as %r '
                                '(record %r)' % (stmt, j, v if it['t'] == 'n' else v[:60], it['v'][:60],
                                                 recs[h['ri']]['raw'][:80]))
        if self._read_failed(n, h, r, stmt, 'INPUT#'):
            return
        if fk:
            self.cx.fs.disarm()
        h['ri'], h['off'] = ri, off
        # (the marker stays on the file number once a 255-character item has been read through it: the
        # engine is a separator behind from then on, and values that still equal the reference - a number 0
        # read from the leftover quote, a quote read by INPUT$ - do so by coincidence)
        h['after255'] = h['after255'] or any(g['t'] == 's' and len(g['v']) == 255 for g in got)
        self._check_eof(n, h)

    def op_rdline(self, op):
        n = op['n']
        h = self.h.get(n)
        if h is None or h['mode'] != 'I':
            r = self.cx.x(b'LINE INPUT#%d,L1$' % n, 'LINE INPUT#')
            if r.err is None:
                self.bad('input-accepted:number-not-open-for-input', 'LINE INPUT#%d succeeded' % n)
            return
        recs = self.recs(h)
        if self.at_end(h):
            return self._past_end(n, h, b'LINE INPUT#%d,L1$' % n, 'LINE INPUT#')
        rec = recs[h['ri']]
        rem = rec['raw'][h['off']:]
        if b'\r' in rem or b'\n' in rem:
            # line breaks inside quoted strings: only INPUT# is specified to read those back
            return self.op_rditems({'n': n, 'k': 1})
        if len(rem) >= 255 and not (rec['k'] == 'p' and len(rem) == 255 and self.cfg.get('len255')):
            # LINE INPUT# of 255+ characters is outside the property (PRINT# lines, 0..254 here)
            return self.op_rdchars({'n': n, 'k': 200})
        d = self.cx.d
        d.set(b'L1$', SENT_S)
        stmt = b'LINE INPUT#%d,L1$' % n
        r = self.cx.x(stmt, 'LINE INPUT#')
        fk = self.fired_kind()
        self.note('line-input#', h, fk, (rec['k'], min(len(rem), 9) + (len(rem) > 253) * len(rem), r.err))
        v = bytes(d.get(b'L1$'))
        if r.err is not None and v != SENT_S:
            return self.bad('line-input#-assigned-after-error', '%r failed with %d yet L1$=%r' % (stmt, r.err, v[:60]))
        if self._read_failed(n, h, r, stmt, 'LINE INPUT#'):
            return
        if v != rem:
            return self.bad('line-input#-mismatch' + self.suffix(h), '%r read %r, the line written is %r' % (
                stmt, v[:80], rem[:80]))
        if fk:
            self.cx.fs.disarm()
        h['ri'], h['off'] = h['ri'] + 1, 0
        h['after255'] = h['after255'] or (len(rem) == 255)
        self._check_eof(n, h)

    def op_rdchars(self, op):
        n = op['n']
        h = self.h.get(n)
        if h is None or h['mode'] != 'I':
            r = self.cx.x(b'C$=INPUT$(1,#%d)' % n, 'INPUT$')
            if r.err is None:
                self.bad('input-accepted:number-not-open-for-input', 'INPUT$(1,#%d) succeeded' % n)
            return
        recs = self.recs(h)
        if self.at_end(h):
            return self._past_end(n, h, b'C$=INPUT$(1,#%d)' % n, 'INPUT$')
        rec = recs[h['ri']]
        rem = rec['raw'][h['off']:]
        if b'\r' in rec['raw'] or b'\n' in rec['raw']:
            return self.op_rditems({'n': n, 'k': 1})
        k = min(op['k'], len(rem), 255)
        if k == 0:
            return self.op_rdline(op)
        d = self.cx.d
        d.set(b'C$', SENT_S)
        stmt = b'C$=INPUT$(%d,#%d)' % (k, n)
        r = self.cx.x(stmt, 'INPUT$')
        fk = self.fired_kind()
        self.note('input$', h, fk, (rec['k'], min(k, 9), k == len(rem), r.err))
        v = bytes(d.get(b'C$'))
        if r.err is not None and v != SENT_S:
            return self.bad('input$-assigned-after-error', '%r failed with %d yet C$=%r' % (stmt, r.err, v[:60]))
        if self._read_failed(n, h, r, stmt, 'INPUT$'):
            return
        if v != rem[:k]:
            return self.bad('input$-mismatch' + self.suffix(h), '%r read %r, the bytes written are %r' % (
                stmt, v[:80], rem[:k][:80]))
        if fk:
            self.cx.fs.disarm()
        h['off'] += k
        # (the after-255 marker stays: while the terminator of a 255-character item is still unread, a
        # character or two from INPUT$ can equal the reference by coincidence - the closing quote read as
        # the next item's opening quote - and the engine is still one separator behind)
        self._check_eof(n, h)

    def op_eof(self, op):
        h = self.h.get(op['n'])
        if h is not None and h['mode'] == 'I':
            self._check_eof(op['n'], h)

    def op_lof(self, op):
        n = op['n']
        h = self.h.get(n)
        if h is None:
            return
        err, v = self.cx.fn(b'LOF(%d)' % n, 'LOF')
        fk = self.fired_kind()
        self.note('lof', h, fk)
        if err is not None:
            if fk:
                return self.resync(n, b'', 'LOF')
            return self.bad('lof-error', 'LOF(%d) gave error %d' % (n, err))
        if h['mode'] == 'I':
            host = self.cx.host(h['name'])
            want = len(host or b'')
        else:
            want = len(self.content(self.recs(h)))
        if v != want:
            self.bad('lof-mismatch:' + h['mode'] + self.suffix(h), 'LOF(%d)=%r, bytes in the file: %d' % (n, v, want))
        if fk:
            self.cx.fs.disarm()


###############################################################################
# C25: random-access files

def _recno(lit):
    """Record number a literal denotes (rounded like any BASIC integer argument)."""
    return int(round(float(lit.replace('D', 'E'))))


class Rand(Base):
    """Executor + reference model for C25."""

    prop = 'C25'

    def __init__(self, cx, cfg):
        Base.__init__(self, cx, cfg)
        self.files = {}      # name -> bytearray | None
        self.flags = {}      # name -> set of history markers that go into signatures
        self.max_reclen = cfg['session'].get('max_reclen', 128)
        self.locks = []      # acknowledged record locks: (number, first, last) | (number, None, None)
        self.writers = {}    # name -> numbers that have PUT to the file since it was last proven equal

    def suffix(self, name):
        """One history marker (the most specific cause candidate) for the signature."""
        fl = self.flags.get(name, ())
        if 'two-numbers-on-file' in fl:
            # stale data through another number's buffer is possible (see touch()): nothing more specific can be said
            return ':two-numbers-on-file'
        for k in reversed(fl):
            if k.startswith('after-'):
                return ':' + k
        for k in ('put-beyond-eof(recno-1>LOF>0)', 'implicit-put-after-get-at-or-beyond-eof'):
            if k in fl:
                return ':' + k
        return ''

    def flag(self, name, what):
        fl = self.flags.setdefault(name, [])
        if what in fl:
            fl.remove(what)
        fl.append(what)

    def note(self, kind, h, extra=None, fired=None):
        if h is None:
            self.run.state('C25', kind, None)
            return
        size = len(self.files.get(h['name']) or b'')
        end = h['pos'] * h['reclen']
        rel = 'inside' if end < size else ('at-end' if end == size else 'beyond')
        self.run.state('C25', kind, min(h['reclen'], 9), rel, min(size // max(1, h['reclen']), 4), extra, bool(fired))

    def sharers(self, name, n=None):
        return [k for k, hh in self.h.items() if hh['name'] == name and k != n]

    def touch(self, n, name):
        """
        #n is about to read or write file data. Each file number has its own host handle and buffer
        (known finding `two-numbers-on-file`): what #n sees can be stale only if some *other* number
        has PUT to the file since the file was last proven equal to the reference - from then on
        (and only then) the file carries the history marker. A second number that merely holds the
        file open, or only LOCKs/UNLOCKs, does not make anything stale.
        """
        if self.writers.get(name, set()) - {n}:
            if 'two-numbers-on-file' not in self.flags.get(name, ()):
                self.run.probe('stale-data-possible(two-numbers-on-file)')
            self.flag(name, 'two-numbers-on-file')

    def wrote(self, n, name):
        self.writers.setdefault(name, set()).add(n)

    def denied(self, n, h, recno, write):
        """
        Must an access to record recno through #n be refused?  True: the number was opened with an
        ACCESS clause that excludes it, or another number holds an acknowledged LOCK on the record;
        None: another number holds a lock with that record number but has a different record length
        (what range of *this* number's records that covers is not stated anywhere: either outcome is
        taken); False: nothing stands in the way, an error would be a violation.
        C25 does not judge whether the refusal happens (C26 does), only what a refused access leaves behind.
        """
        acc = h.get('access') or ''
        if acc and ('W' if write else 'R') not in acc:
            return True
        res = False
        for (k, a, bb) in self.locks:
            hk = self.h.get(k)
            if k == n or hk is None or hk['name'] != h['name']:
                continue
            if a is None:
                return True
            if a <= recno <= bb:
                if hk['reclen'] == h['reclen']:
                    return True
                res = None
        return res

    def drop_locks(self, n):
        self.locks = [l for l in self.locks if l[0] != n]

    def soft_fail(self, n, h, op, word, why):
        """
        PUT/GET reported an error before anything was transferred (refused by a lock or the ACCESS
        mode, or an injected host error in a seek/read): the file and the record buffer are unchanged
        and the file stays open. The record was not accessed, so with an implicit record number the
        same record is still the next one and LOC has not moved. After a failed access with an
        *explicit* number the property does not say where the record pointer is: LOC is read
        (not judged) and taken as the position.
        """
        self.run.probe('%s-failed-file-stays-open:%s:%s' % (word, why, 'explicit' if op.get('rec') is not None else 'implicit'))
        self.run.state('C25', 'soft-fail', word, why, op.get('rec') is None, min(h['pos'], 3))
        if not self.check_buffer(n, h, 'buffer-changed-by-failed-' + word):
            return
        if op.get('rec') is not None:
            err, v = self.cx.fn(b'LOC(%d)' % n, 'LOC')
            if err is not None:
                return self.bad('loc-error', 'LOC(%d) gave error %d' % (n, err))
            h['pos'] = int(v)

    def check_buffer(self, n, h, what):
        """FIELD variables show the reference buffer."""
        d = self.cx.d
        v = bytes(d.get(b'Z%d$' % n))
        if v != bytes(h['buf']):
            self.bad(what + self.suffix(h['name']), 'record buffer of #%d is %r, reference %r (record length %d, '
                     'position %d, file size %d)' % (n, v[:80], bytes(h['buf'][:80]), h['reclen'], h['pos'],
                                                     len(self.files.get(h['name']) or b'')))
            return False
        for var, off, wd in h['fields']:
            fv = bytes(d.get(var))
            if fv != bytes(h['buf'][off:off + wd]):
                self.bad('field-variable-mismatch' + self.suffix(h['name']), '%s=%r, buffer[%d:%d]=%r' % (
                    u(var), fv[:60], off, off + wd, bytes(h['buf'][off:off + wd])[:60]))
                return False
        return True

    def verify_host(self, name):
        want = self.files.get(name)
        if want is None:
            return
        host = self.cx.host(name)
        if host is None or host != bytes(want):
            host = host or b''
            i = 0
            while i < min(len(host), len(want)) and host[i] == want[i]:
                i += 1
            self.bad('file-bytes-mismatch' + self.suffix(name), 'host file %s (%d bytes) differs from the reference '
                     '(%d bytes) at offset %d: host %r, reference %r' % (name, len(host), len(want), i,
                                                                         host[i:i + 24], bytes(want[i:i + 24])))
        else:
            # proven equal: whatever happened to this file before left no trace
            self.flags.pop(name, None)
            if not self.sharers(name):
                self.writers.pop(name, None)
            elif self.writers.get(name):
                self.flag(name, 'two-numbers-on-file')

    # ops ---------------------------------------------------------------------

    @staticmethod
    def _field_stmt(n, widths):
        """(FIELD statement, [(variable, offset, width)])"""
        names, off, fields = [], 0, []
        for i, wd in enumerate(widths):
            var = b'%s%d$' % (b'ABCDEFGH'[i:i + 1], n)
            names.append(b'%d AS %s' % (wd, var))
            fields.append((var, off, wd))
            off += wd
        return b'FIELD #%d,' % n + b','.join(names), fields

    @staticmethod
    def _widths(op, reclen):
        total = max(1, int(round(op.get('cover', 1.0) * reclen)))
        cuts = sorted(set(int(round(c * total)) for c in op['cuts'][:7]))
        bounds = [0] + [c for c in cuts if 0 < c < total] + [total]
        return [bounds[i + 1] - bounds[i] for i in range(len(bounds) - 1)]

    @staticmethod
    def _open_stmt(op):
        n, name, reclen = op['n'], op['name'], op['reclen']
        syn = op.get('syn', 0)
        access = op.get('access', '')
        if access:
            # ACCESS only restricts what this number may do (no LOCK clause: sharing is as without it)
            return b'OPEN "%s" %sACCESS %s AS #%d LEN=%d' % (
                b(name), b'FOR RANDOM ' if syn else b'', {'R': b'READ', 'W': b'WRITE', 'RW': b'READ WRITE'}[access],
                n, reclen)
        if syn == 1:
            return b'OPEN "R",#%d,"%s",%d' % (n, b(name), reclen)
        if syn == 2:
            return b'OPEN "%s" FOR RANDOM AS #%d LEN=%d' % (b(name), n, reclen)
        return b'OPEN "%s" AS #%d LEN=%d' % (b(name), n, reclen)

    @staticmethod
    def _zfield_stmt(n, reclen, blank):
        return b'FIELD #%d,%d AS Z%d$' % (n, reclen, n) + (b':LSET Z%d$=""' % n if blank else b'')

    @staticmethod
    def _lock_stmt(op):
        """(statement, first, last) of a LOCK/UNLOCK op; first None = whole file, False = not sent."""
        n, a, bb = op['n'], op.get('a'), op.get('b')
        word = b'UNLOCK' if op['op'] == 'unlock' else b'LOCK'
        if a is None:
            return b'%s #%d' % (word, n), None, None
        if bb is None:
            stmt, bb = b'%s #%d,%d' % (word, n, a), a
        else:
            stmt = b'%s #%d,%d TO %d' % (word, n, a, bb)
        if not 1 <= a <= bb <= 2 ** 24:
            return stmt, False, False
        return stmt, a, bb

    def _field(self, n, h, widths):
        stmt, fields = self._field_stmt(n, widths)
        r = self.cx.x(stmt, 'FIELD')
        if r.err is not None:
            return self.bad('field-error', 'FIELD with widths %r on record length %d gave error %d' % (
                widths, h['reclen'], r.err))
        h['fields'] = fields

    def op_ropen(self, op):
        n, name, reclen = op['n'], op['name'], op['reclen']
        others = self.sharers(name, n)
        if others and not self.cfg.get('share'):
            return
        access = op.get('access', '')
        stmt = self._open_stmt(op)
        before = self.cx.host(name)
        r = self.cx.x(stmt, 'OPEN-R')
        fk = self.fired_kind()
        self.note('open', self.h.get(n), fired=fk)
        why = None
        if n in self.h:
            why = 'number-in-use'
        elif n > self.maxf:
            why = 'number>max_files'
        elif reclen > self.max_reclen:
            why = 'reclen>max_reclen'
        if why:
            if r.err is None:
                return self.bad('open-accepted:' + why, '%r succeeded' % stmt)
            if self.cx.host(name) != before:
                return self.bad('failed-open-changed-file:' + why, '%r failed but changed the file' % stmt)
            return
        if r.err is not None:
            if not fk:
                return self.bad('open-refused', '%r gave error %d' % (stmt, r.err))
            after = self.cx.host(name)
            if after != before and not (before is None and after == b''):
                return self.bad('failed-open-damaged-file:R:%s-fault' % fk, '%r reported %d; host file %r -> %r' % (
                    stmt, r.err, before and before[:40], after and after[:40]))
            if after is not None and self.files.get(name) is None:
                self.files[name] = bytearray()
            self.cx.fs.disarm()
            return
        if self.files.get(name) is None:
            self.files[name] = bytearray()
        if fk:
            # OPEN reported success although a fault fired in it: the file must be intact
            self.cx.fs.disarm()
            self.run.probe('open-succeeded-despite-fault')
            after = self.cx.host(name)
            if not others and after != bytes(self.files[name]):
                return self.bad('open-damaged-file:R:%s-fault' % fk, '%r reported success; host file (%d bytes) '
                                'is now %r..., %d bytes' % (stmt, len(self.files[name]), (after or b'')[:24],
                                                            len(after or b'')))
        if others:
            self.run.probe('file-open-under-two-numbers')
        h = {'name': name, 'reclen': reclen, 'pos': 0, 'buf': bytearray(b' ' * reclen), 'fields': [],
             'access': access}
        self.h[n] = h
        # make the buffer known: one variable over the whole record, blanked
        r = self.cx.x(self._zfield_stmt(n, reclen, True), 'FIELD')
        if r.err is not None:
            return self.bad('field-error', 'FIELD/LSET over the whole record gave error %d' % r.err)
        self._field(n, h, [reclen])

    def op_field(self, op):
        n = op['n']
        h = self.h.get(n)
        if h is None:
            return
        self._field(n, h, self._widths(op, h['reclen']))
        self.note('field', h, len(h['fields']))
        if not self.run.stop:
            self.check_buffer(n, h, 'buffer-mismatch-after-FIELD')

    def op_lset(self, op):
        n = op['n']
        h = self.h.get(n)
        if h is None or op['f'] >= len(h['fields']):
            return
        var, off, wd = h['fields'][op['f']]
        val = b(op['val'])
        self.cx.d.set(b'V$', val)
        r = self.cx.x((b'RSET ' if op.get('right') else b'LSET ') + var + b'=V$', 'LSET')
        if r.err is not None:
            return self.bad('lset-error', 'LSET/RSET gave error %d' % r.err)
        v = val[:wd]
        h['buf'][off:off + wd] = v.rjust(wd) if op.get('right') else v.ljust(wd)
        self.note('rset' if op.get('right') else 'lset', h, (len(val) > wd) - (len(val) < wd))
        self.check_buffer(n, h, 'buffer-mismatch-after-LSET')

    def _target(self, n, h, rec, word):
        """(statement, position index | None, valid?)"""
        stmt = b'%s #%d' % (word, n)
        if rec is None:
            return stmt, (h['pos'] if h else None), True
        stmt += b',' + b(rec)
        no = _recno(rec)
        return stmt, no - 1, 1 <= no <= 2 ** 25

    def _range_error(self, stmt, r):
        if r.err is None:
            self.bad('bad-record-number-accepted', '%r succeeded' % stmt)
        elif r.err != 63:
            self.bad('bad-record-number-wrong-error', '%r gave error %d, expected 63' % (stmt, r.err))

    def op_put(self, op):
        n = op['n']
        h = self.h.get(n)
        stmt, pos, valid = self._target(n, h, op.get('rec'), b'PUT')
        if h is None:
            r = self.cx.x(stmt, 'PUT')
            if r.err is None:
                self.bad('put-accepted:number-not-open', '%r succeeded' % stmt)
            return
        if valid and (pos >= 2 ** 25 or (pos + 1) * h['reclen'] > CAP_BYTES):
            return    # would create a huge file; not sent
        name = h['name']
        data = self.files[name]
        deny = self.denied(n, h, pos + 1, True) if valid else False
        if valid:
            self.touch(n, name)
        r = self.cx.x(stmt, 'PUT')
        fk = self.fired_kind()
        if not valid:
            self.note('put-out-of-range', h, fired=fk)
            return self._range_error(stmt, r)
        gap = pos * h['reclen'] - len(data)
        self.note('put', h, ((gap > 0) - (gap < 0), deny), fk)
        new = bytes(h['buf'])
        if r.err is not None and fk != 'write' and (deny is not False or (fk == 'seek' and gap <= 0)):
            # refused, or a host seek failed in a PUT that does not extend the file (nothing can have
            # been written yet: the record itself is written last)
            return self.soft_fail(n, h, op, 'PUT', 'seek-fault' if fk else ('lock' if not h['access'] else 'lock-or-access'))
        if deny is not False:
            self.run.probe('put-to-locked-or-excluded-record-accepted(not judged here)')
        if op.get('rec') is None and h.get('get_at_eof'):
            self.flag(name, 'implicit-put-after-get-at-or-beyond-eof')
            self.run.probe('implicit-put-after-get-at-or-beyond-eof')
        h['get_at_eof'] = False
        if gap > 0 and pos > len(data) > 0:
            self.flag(name, 'put-beyond-eof(recno-1>LOF>0)')
        if r.err is not None:
            if not fk:
                return self.bad('put-error' + self.suffix(name), '%r gave error %d' % (stmt, r.err))
            self.run.probe('put-fault->BASIC-error')
            return self.resync(n, (pos, new), 'PUT')
        self.wrote(n, name)
        if gap > 0:
            self.run.probe('record-gap-filled')
            data.extend(b'\0' * gap)
        start = pos * h['reclen']
        data[start:start + h['reclen']] = new
        h['pos'] = pos + 1
        if fk:
            self.cx.fs.disarm()

    def op_get(self, op):
        n = op['n']
        h = self.h.get(n)
        stmt, pos, valid = self._target(n, h, op.get('rec'), b'GET')
        if h is None:
            r = self.cx.x(stmt, 'GET')
            if r.err is None:
                self.bad('get-accepted:number-not-open', '%r succeeded' % stmt)
            return
        if valid and pos >= 2 ** 25:
            return
        name = h['name']
        data = self.files[name]
        deny = self.denied(n, h, pos + 1, False) if valid else False
        if valid and deny is not False and pos >= 2 ** 24:
            return    # LOC could not tell where a refused access to such a record leaves the pointer
        if valid:
            self.touch(n, name)
        r = self.cx.x(stmt, 'GET')
        fk = self.fired_kind()
        if not valid:
            self.note('get-out-of-range', h, fired=fk)
            return self._range_error(stmt, r)
        start = pos * h['reclen']
        self.note('get', h, ('in' if start + h['reclen'] <= len(data) else ('partial' if start < len(data) else 'out'), deny), fk)
        if r.err is not None and (deny is not False or (fk in ('seek', 'read') and pos < 2 ** 24)):
            # refused, or a host seek/read failed before anything was delivered
            return self.soft_fail(n, h, op, 'GET', '%s-fault' % fk if fk else ('lock' if not h['access'] else 'lock-or-access'))
        if deny is not False:
            self.run.probe('get-of-locked-or-excluded-record-accepted(not judged here)')
        if r.err is not None:
            if not fk:
                return self.bad('get-error' + self.suffix(name), '%r gave error %d' % (stmt, r.err))
            self.run.probe('get-fault->BASIC-error')
            # no value assigned: the buffer still shows what it showed
            if self.check_buffer(n, h, 'buffer-changed-by-failed-GET'):
                self.resync(n, None, 'GET')
            return
        got = bytes(data[start:start + h['reclen']])
        h['buf'] = bytearray(got.ljust(h['reclen'], b'\0'))
        h['pos'] = pos + 1
        h['get_at_eof'] = start + h['reclen'] > len(data)
        if start >= len(data):
            self.run.probe('get-beyond-eof')
        self.check_buffer(n, h, 'get-mismatch')
        if fk:
            self.cx.fs.disarm()

    def op_lof(self, op):
        n = op['n']
        h = self.h.get(n)
        if h is None:
            return
        self.touch(n, h['name'])
        err, v = self.cx.fn(b'LOF(%d)' % n, 'LOF')
        fk = self.fired_kind()
        self.note('lof', h, fired=fk)
        if err is not None:
            if fk:
                return self.resync(n, None, 'LOF')
            return self.bad('lof-error', 'LOF(%d) gave error %d' % (n, err))
        if v != len(self.files[h['name']]):
            self.bad('lof-mismatch' + self.suffix(h['name']), 'LOF(%d)=%r, reference file has %d bytes (record '
                     'length %d)' % (n, v, len(self.files[h['name']]), h['reclen']))
        if fk:
            self.cx.fs.disarm()

    def op_loc(self, op):
        n = op['n']
        h = self.h.get(n)
        if h is None:
            return
        err, v = self.cx.fn(b'LOC(%d)' % n, 'LOC')
        self.note('loc', h)
        if err is not None:
            return self.bad('loc-error', 'LOC(%d) gave error %d' % (n, err))
        if h['pos'] > 2 ** 24:
            return   # LOC is a single-precision value: not every record number above 2^24 is representable
        if v != h['pos']:
            self.bad('loc-mismatch' + self.suffix(h['name']), 'LOC(%d)=%r, last record accessed is %d' % (n, v, h['pos']))

    def op_rclose(self, op):
        n = op['n']
        h = self.h.get(n)
        r = self.cx.x(b'CLOSE #%d' % n, 'CLOSE')
        if h is None:
            return
        fk = self.fired_kind()
        self.note('close', h, fired=fk)
        if r.err is not None:
            if not fk:
                return self.bad('close-error', 'CLOSE #%d gave error %d' % (n, r.err))
            self.cx.tainted = [('close-failed', 0, h['name'])]
            try:
                return self.resync(n, None, 'CLOSE-after-failed-CLOSE', close_failed=True)
            finally:
                self.cx.tainted = None
        del self.h[n]
        self.drop_locks(n)
        if fk:
            self.cx.fs.disarm()
        if not self.sharers(h['name']):
            self.verify_host(h['name'])

    def op_lock(self, op):
        """LOCK/UNLOCK through a number on a random file; the model keeps the acknowledged locks."""
        n = op['n']
        unlock = op['op'] == 'unlock'
        stmt, a, bb = self._lock_stmt(op)
        if a is False:
            return
        word = 'UNLOCK' if unlock else 'LOCK'
        r = self.cx.x(stmt, word)
        h = self.h.get(n)
        if h is None:
            return
        self.run.state('C25', word, min(len(self.locks), 3), len(self.sharers(h['name'], n)), r.err)
        # whether the (un)lock had to be granted is C26's business; the model follows the acknowledgement
        if r.err is None:
            if not unlock:
                self.locks.append((n, a, bb))
                self.run.probe('lock-acknowledged')
            elif (n, a, bb) in self.locks:
                self.locks.remove((n, a, bb))

    op_unlock = op_lock

    # program mode --------------------------------------------------------------

    RESETS = {
        'chain': b'CHAIN "P2"', 'chainmerge': b'CHAIN MERGE "P2"', 'chainall': b'CHAIN "P2",,ALL',
        'runr': b'RUN "P2",R', 'loadr': b'LOAD "P2",R', 'run': b'RUN "P2"', 'load': b'LOAD "P2"',
        'clear': b'CLEAR', 'new': b'NEW', 'delete': b'DELETE 10', 'edit': b'15 REM', 'merge': b'MERGE "M1"',
    }
    LOADS = ('chain', 'chainmerge', 'chainall', 'runr', 'loadr', 'run', 'load')    # P2 becomes the program

    def candidates(self, op, recl):
        """
        The statements the op may make the executor issue, whatever the outcomes (a superset: what is
        never asked for just sits in the program). recl: number -> record lengths it may have by then.
        """
        k, n = op['op'], op.get('n')
        if k == 'ropen':
            yield self._open_stmt(op)
            if op['reclen'] <= self.max_reclen and n <= self.maxf:
                recl.setdefault(n, set()).add(op['reclen'])
                yield self._zfield_stmt(n, op['reclen'], True)
                yield self._field_stmt(n, [op['reclen']])[0]
        elif k == 'field':
            for rl in sorted(recl.get(n, ())):
                yield self._field_stmt(n, self._widths(op, rl))[0]
        elif k == 'lset':
            if op['f'] < 8:
                yield (b'RSET ' if op.get('right') else b'LSET ') + b'%s%d$' % (b'ABCDEFGH'[op['f']:op['f'] + 1], n) + b'=V$'
        elif k in ('put', 'get'):
            yield self._target(n, None, op.get('rec'), k.upper().encode())[0]
            yield b'Q#=LOC(%d)' % n
        elif k in ('lof', 'loc'):
            yield b'Q#=%s(%d)' % (k.upper().encode(), n)
        elif k == 'rclose':
            yield b'CLOSE #%d' % n
        elif k in ('lock', 'unlock'):
            stmt, a, _ = self._lock_stmt(op)
            if a is not False:
                yield stmt
        elif k == 'reset':
            if op['kind'] != 'edit':
                yield self.RESETS[op['kind']]
            for m in sorted(recl):
                yield b'Q#=LOC(%d)' % m
                for rl in sorted(recl[m]):
                    yield self._zfield_stmt(m, rl, False)

    def lookahead(self, start):
        """
        Statements of the ops from index `start` to the end of the program-mode stretch, behind those
        that follow the loading of the program itself (LOC and FIELD for every open number).
        """
        recl = {n: {h['reclen']} for n, h in self.h.items()}
        out = []
        for m in sorted(recl):
            out.append(b'Q#=LOC(%d)' % m)
            out.append(self._zfield_stmt(m, self.h[m]['reclen'], False))
        for op in self.ops[start:]:
            if op['op'] == 'mode' and not op.get('prog'):
                break
            out.extend(self.candidates(op, recl))
        return out

    def enter_program(self, how):
        """
        Put the statements of the coming stretch into the program memory as one stored program:
        typed line by line, or written to the disk and brought in with LOAD ,R / RUN ,R / CHAIN (the
        open files stay open). Either way the variables are cleared and the record buffers reset.
        """
        self.cx.fs.disarm()
        text, table = build_program(self.lookahead(self.ip + 1))
        self.cx.prog = False
        lines = text.rstrip(b'\x1a').split(b'\r\n')[:-1]
        if how == 'typed' and len(lines) > 70:
            how = 'loadr'
        if how == 'typed':
            self.cx.trace.append('<%d program lines typed>' % len(lines))
            self.cx.d.exec(b'NEW')
            err = None
            for ln in lines:
                err = err or self.cx.d.exec(ln).err
        else:
            self.cx.put_host('P1.BAS', text)
            err = self.cx.x({'loadr': b'LOAD "P1",R', 'runr': b'RUN "P1",R', 'chain': b'CHAIN "P1"'}[how], 'RESET').err
        self.run.probe('program-entered:' + how)
        self.run.state('C25', 'mode', how, len(self.h), min(len(table), 20) // 4, err)
        self.cx.table = {} if err is not None else table
        self.cx.prog = True
        self.cx.trace.append('<from here on statements are lines of the stored program, run with GOTO>')
        self.after_reset(how)

    def op_mode(self, op):
        """Switch between typing the statements (direct mode) and running them as lines of the stored program."""
        if op.get('prog'):
            return self.enter_program(op.get('how', 'loadr'))
        self.cx.prog = False
        self.cx.trace.append('<from here on statements are typed>')
        self.run.state('C25', 'mode', False, len(self.h))

    def op_resume(self, op):
        # open files, their record buffers and positions survive suspend/resume; the model is unchanged
        self.cx.resume()
        self.run.state('C25', 'resume', len(self.h), self.cx.prog)

    def op_reset(self, op):
        """
        A statement that clears the variables (and with them the FIELD definitions) and resets the
        record buffers: CHAIN to / RUN ,R / LOAD ,R of a program saved on the disk (files stay open),
        CLEAR, NEW, DELETE, MERGE, entering a program line, RUN/LOAD of a file (files are closed).
        Which numbers are still open afterwards is *asked* (LOC), not demanded; for those the file
        position is unchanged and PUT/GET must go on working on the same records. The content of the
        record buffer right after the reset is not judged: the buffer is FIELDed again and read.
        In program mode the statement is a line of the running program, and the program it CHAINs to
        (or RUNs/LOADs) holds the statements of the rest of the stretch.
        """
        kind = op['kind']
        self.cx.fs.disarm()
        text, table = build_program(self.lookahead(self.ip + 1) if self.cx.prog else [])
        self.cx.put_host('P2.BAS', text)
        self.cx.put_host('M1.BAS', b'15 REM\r\n\x1a')
        r = self.cx.x(self.RESETS[kind], 'RESET')
        self.run.state('C25', 'reset', kind, self.cx.prog, len(self.h), r.err)
        self.run.probe('reset:' + kind)
        if kind in self.LOADS:
            # (after a failed load it is not known what the program memory holds: statements are typed)
            self.cx.table = table if r.err is None else {}
        elif kind == 'new':
            self.cx.table = {}
        self.after_reset(kind)

    def after_reset(self, kind):
        closed = []
        for n in sorted(self.h):
            h = self.h[n]
            err, v = self.cx.fn(b'LOC(%d)' % n, 'LOC')
            if err is not None:
                closed.append(n)
                continue
            self.run.probe('random-file-still-open-after:' + kind)
            if h['pos'] <= 2 ** 24 and v != h['pos']:
                return self.bad('loc-mismatch' + self.suffix(h['name']), 'LOC(%d)=%r after the variables were '
                                'cleared (%s), last record accessed is %d' % (n, v, kind, h['pos']))
            h['fields'] = []
            r = self.cx.x(self._zfield_stmt(n, h['reclen'], False), 'FIELD')
            if r.err is not None:
                return self.bad('field-error:after-buffer-reset', 'FIELD over the whole record gave error %d' % r.err)
            v = bytes(self.cx.d.get(b'Z%d$' % n))
            if len(v) != h['reclen']:
                return self.bad('field-variable-mismatch:after-buffer-reset', 'FIELD #%d,%d AS Z%d$ gives a variable of '
                                'length %d' % (n, h['reclen'], n, len(v)))
            h['buf'] = bytearray(v)
            self.flag(h['name'], 'after-buffer-reset')
        names = set()
        for n in closed:
            names.add(self.h.pop(n)['name'])
            self.drop_locks(n)
            self.run.probe('random-file-closed-by:' + kind)
        for name in sorted(names):
            if not self.run.stop and not self.sharers(name):
                self.verify_host(name)

    def op_restart(self, op):
        self.cx.restart()
        hs, self.h = self.h, {}
        self.locks = []
        self.run.state('C25', 'restart', len(hs))
        for name in sorted(set(hh['name'] for hh in hs.values())):
            self.verify_host(name)

    def finish(self):
        self.cx.fs.disarm()
        self.cx.prog = False
        for n in sorted(self.h):
            if self.run.stop:
                return
            self.op_rclose({'n': n})
        if not self.run.stop:
            for name in sorted(self.files):
                self.verify_host(name)

    def resync(self, n, failed_put, label, close_failed=False):
        """
        A fault touched number n. Close every number on that file, compare the host file with
        the set of contents the relaxation allows, and continue from the host bytes.
        failed_put = (pos, new record) if a PUT reported the error.
        """
        h = self.h[n]
        name = h['name']
        lost_ok = close_failed
        for k in sorted([n] + self.sharers(name, n)):
            failed = self.close_retry(k, label)
            if failed is None:
                return
            lost_ok = lost_ok or failed > 0
            del self.h[k]
            self.drop_locks(k)
        old = bytes(self.files[name])
        host = self.cx.host(name)
        if host is None:
            return self.bad('file-vanished-after-fault:' + label, '%s no longer exists' % name)
        self.run.probe('resynced-after-fault')
        if lost_ok:
            # a CLOSE failed: PUTs that were never acknowledged by a CLOSE may be lost; no judgement
            self.files[name] = bytearray(host)
            self.run.probe('resync-unjudged(close-failed)')
            return
        ok = True
        if failed_put is None:
            ok = (host == old)
        else:
            pos, new = failed_put
            rl = len(new)
            lo, hi = pos * rl, (pos + 1) * rl
            ok = len(old) <= len(host) <= max(len(old), hi)
            mixed = False
            for i in range(len(host)):
                o = old[i] if i < len(old) else 0
                if lo <= i < hi:
                    if host[i] == new[i - lo] and not mixed:
                        continue
                    mixed = True
                    ok = ok and host[i] == o
                else:
                    ok = ok and host[i] == o
        if not ok:
            return self.bad('file-damaged-by-failed-statement:' + label + self.suffix(name),
                            'after the faulted %s and a successful CLOSE the host file (%d bytes) is neither the old '
                            'content (%d bytes) nor old content with (a prefix of) the new record' % (
                                label, len(host), len(old)))
        self.files[name] = bytearray(host)


###############################################################################
# C26: sharing and locks

def relation(a, b, c, d):
    """Relation of a new range (a,b) to a held range (c,d); None bounds = whole file."""
    if a is None and c is None:
        return 'whole-vs-whole'
    if a is None:
        return 'whole-vs-range'
    if c is None:
        return 'range-vs-whole'
    if (a, b) == (c, d):
        return 'equal'
    if b < c or d < a:
        return 'adjacent' if (b + 1 == c or d + 1 == a) else 'disjoint'
    if c <= a and b <= d:
        return 'new-inside-held'
    if a < c and d < b:
        return 'new-strictly-contains-held'
    if a <= c and d <= b:
        return 'new-contains-held-sharing-a-bound'
    return 'partial-overlap'


def overlapping(rel):
    return rel not in ('adjacent', 'disjoint')


class Share(Base):
    """Executor + reference model for C26 (no I/O faults: the lock table is in memory)."""

    prop = 'C26'

    def __init__(self, cx, cfg):
        Base.__init__(self, cx, cfg)
        self.exists = set()
        self.locks = []      # acknowledged: (number, a, b)

    def note(self, kind, *extra):
        self.run.state('C26', kind, len(self.h), min(len(self.locks), 4), *extra)

    def holders(self, name, n=None):
        return [k for k, hh in self.h.items() if hh['name'] == name and k != n]

    def op_open(self, op):
        n, name, mode = op['n'], op['name'], op['mode']
        access, lock = op.get('access', ''), op.get('lock', '')
        if access or lock or op.get('syn', 0) == 0:
            stmt = b'OPEN "%s"' % b(name)
            if mode != 'R' or op.get('forword'):
                stmt += b' FOR ' + MODEWORD[mode]
            if access:
                stmt += b' ACCESS ' + {'R': b'READ', 'W': b'WRITE', 'RW': b'READ WRITE'}[access]
            if lock:
                stmt += {'SHARED': b' SHARED', 'R': b' LOCK READ', 'W': b' LOCK WRITE', 'RW': b' LOCK READ WRITE'}[lock]
            stmt += b' AS #%d' % n
            if mode == 'R':
                stmt += b' LEN=%d' % op['reclen']
        else:
            stmt = b'OPEN "%s",#%d,"%s"' % (b(mode), n, b(name))
            if mode == 'R':
                stmt += b',%d' % op['reclen']
        before = self.cx.host(name)
        r = self.cx.x(stmt, 'OPEN')
        held = self.holders(name, n)
        exclusive = [k for k in held if self.h[k]['mode'] in 'OA']
        self.note('open-' + mode, bool(held), bool(exclusive), bool(access), lock, r.err)
        if held and r.err is not None and self.cx.host(name) != before:
            # a refused OPEN has not opened the file: it cannot have truncated or cut it either
            return self.bad('refused-open-changed-file:new-mode-%s' % MODEWORD[mode].decode(),
                            '%r gave error %d (#%d has %s open) but the host file went from %r to %r' % (
                                stmt, r.err, held[0], name, before and before[-40:], self.cx.host(name)))
        if n in self.h or n > self.maxf:
            if r.err is None:
                self.bad('open-accepted:number-in-use-or>max_files', '%r succeeded' % stmt)
            return
        if exclusive:
            self.run.probe('second-open-while-open-for-output')
            if r.err is None:
                k = exclusive[0]
                self.h[n] = {'name': name, 'mode': mode, 'access': access, 'lock': lock}
                return self.soft('second-open-accepted:held-for-%s:new-mode-%s' % (
                    {'O': 'OUTPUT', 'A': 'APPEND'}[self.h[k]['mode']], MODEWORD[mode].decode()),
                    '%r succeeded although #%d has %s open for %s' % (stmt, k, name, MODEWORD[self.h[k]['mode']].decode()))
            return
        if r.err is None:
            self.h[n] = {'name': name, 'mode': mode, 'access': access, 'lock': lock}
            self.exists.add(name)
            return
        if not held and (mode != 'I' or name in self.exists):
            self.bad('open-refused:file-not-open-anywhere:mode-%s' % mode, '%r gave error %d; no file number has %s '
                     'open (every earlier holder was closed)' % (stmt, r.err, name))

    def op_sysopen(self, op):
        """Statements that open a file without a file number: SAVE, SAVE ,A, LIST ,"file", BSAVE."""
        name, kind = op['name'], op['kind']
        stmt = {
            'save': b'SAVE "%s"', 'savea': b'SAVE "%s",A', 'list': b'LIST ,"%s"', 'bsave': b'BSAVE "%s",0,16',
        }[kind] % b(name)
        exclusive = [k for k in self.holders(name) if self.h[k]['mode'] in 'OA']
        before = self.cx.host(name)
        r = self.cx.x(stmt, kind.upper())
        self.note('sysopen-' + kind, bool(exclusive), r.err)
        if self.holders(name) and r.err is not None and self.cx.host(name) != before:
            return self.bad('refused-open-changed-file:' + kind, '%r gave error %d (the file is open under #%d) but the '
                            'host file went from %r to %r' % (stmt, r.err, self.holders(name)[0],
                                                              before and before[-40:], self.cx.host(name)))
        if exclusive:
            self.run.probe('unnumbered-open-while-open-for-output')
            if r.err is None:
                k = exclusive[0]
                self.bad('unnumbered-open-accepted:held-for-%s:%s' % (
                    {'O': 'OUTPUT', 'A': 'APPEND'}[self.h[k]['mode']], kind),
                    '%r succeeded although #%d has %s open for %s' % (stmt, k, name, MODEWORD[self.h[k]['mode']].decode()))
        elif r.err is None:
            self.exists.add(name)

    def op_close(self, op):
        n = op['n']
        r = self.cx.x(b'CLOSE #%d' % n, 'CLOSE')
        self.note('close', n in self.h)
        if r.err is not None:
            return self.bad('close-error', 'CLOSE #%d gave error %d' % (n, r.err))
        if n in self.h:
            del self.h[n]
            self.locks = [l for l in self.locks if l[0] != n]

    def _range_stmt(self, word, op):
        n = op['n']
        if op.get('a') is None:
            return b'%s #%d' % (word, n), None, None
        a, bb = op['a'], op.get('b')
        if bb is None:
            return b'%s #%d,%d' % (word, n, a), a, a
        return b'%s #%d,%d TO %d' % (word, n, a, bb), a, bb

    def op_lock(self, op):
        n = op['n']
        stmt, a, bb = self._range_stmt(b'LOCK', op)
        h = self.h.get(n)
        if h is not None and h['mode'] != 'R' and a is not None:
            return    # record ranges on sequential files are documented to mean the whole file: left out
        if a is not None and not (1 <= a <= bb <= 2 ** 24):
            # inverted or out-of-range bounds are outside the property; above 2^24 record numbers go
            # through single precision (documented GW-BASIC limitation) and are not individually addressable
            return
        r = self.cx.x(stmt, 'LOCK')
        if h is None:
            self.note('lock-closed')
            if r.err is None:
                self.bad('lock-acknowledged:number-not-open', '%r succeeded' % stmt)
            return
        worst = None
        for (k, c, d) in self.locks:
            if self.h[k]['name'] != h['name']:
                continue
            rel = relation(a, bb, c, d)
            self.run.probe('lock-attempt:' + rel)
            if overlapping(rel):
                worst = (rel, k, c, d)
        self.note('lock', worst[0] if worst else None, (worst[1] == n) if worst else None, r.err)
        if worst:
            rel, k, c, d = worst
            if r.err is None:
                self.locks.append((n, a, bb))
                return self.soft('lock-overlap-accepted:%s:%s-number' % (rel, 'same' if k == n else 'other'),
                                '%r acknowledged while #%d holds %s on the same file: two overlapping locks are held'
                                % (stmt, k, 'the whole file' if c is None else 'records %d TO %d' % (c, d)))
            if r.err != 70:
                return self.bad('lock-overlap-wrong-error', '%r gave error %d, expected 70 (Permission denied)' % (
                    stmt, r.err))
            return
        if r.err is None:
            self.locks.append((n, a, bb))

    def op_unlock(self, op):
        n = op['n']
        stmt, a, bb = self._range_stmt(b'UNLOCK', op)
        h = self.h.get(n)
        if h is not None and h['mode'] != 'R' and a is not None:
            return
        if a is not None and not (1 <= a <= bb <= 2 ** 24):
            return
        r = self.cx.x(stmt, 'UNLOCK')
        if h is None:
            self.note('unlock-closed')
            if r.err is None:
                self.bad('unlock-accepted:number-not-open', '%r succeeded' % stmt)
            return
        if (n, a, bb) in self.locks:
            self.note('unlock', 'held', r.err)
            if r.err is not None:
                return self.bad('unlock-refused:identical-range-held', '%r gave error %d although #%d holds exactly '
                                'that range' % (stmt, r.err, n))
            self.locks.remove((n, a, bb))
            return
        same_file = [l for l in self.locks if self.h[l[0]]['name'] == h['name']]
        if any(l[1:] == (a, bb) for l in same_file):
            why = 'identical-range-held-through-other-number'
        elif any(l[0] == n and overlapping(relation(a, bb, l[1], l[2])) for l in same_file):
            why = 'different-bounds-than-held'
        else:
            why = 'nothing-held'
        self.note('unlock', why, r.err)
        self.run.probe('unlock-attempt:' + why)
        if r.err is None:
            self.bad('unlock-accepted:' + why, '%r succeeded; locks held on the file: %r' % (stmt, same_file))

    def _access(self, op, word):
        n, rec = op['n'], op['rec']
        h = self.h.get(n)
        if h is None or h['mode'] != 'R':
            return
        if rec is None:
            # no record number: the record after the last one accessed through this file number.
            # Only judged while the model knows that position (after a successful access).
            stmt = b'%s #%d' % (word, n)
            rec = h.get('next_rec')
            if rec is None or not 1 <= rec <= 2 ** 24:
                r = self.cx.x(stmt, word.decode())
                h['next_rec'] = None
                return
            self.run.probe('implicit-record-access-judged')
        else:
            if not 1 <= rec <= 2 ** 24:
                return
            stmt = b'%s #%d,%d' % (word, n, rec)
        r = self.cx.x(stmt, word.decode())
        # where the next access without a record number goes; unknown after a refused access
        h['next_rec'] = rec + 1 if r.err is None else None
        # (a lock holder open for OUTPUT/APPEND beside a RANDOM number can only exist after a
        # second-open-accepted violation has been reported; that state is not judged further)
        blockers = [l for l in self.locks if l[0] != n and self.h[l[0]]['name'] == h['name']
                    and self.h[l[0]]['mode'] not in 'OA' and (l[1] is None or l[1] <= rec <= l[2])]
        own = any(l[0] == n and (l[1] is None or l[1] <= rec <= l[2]) for l in self.locks)
        self.note(word.decode().lower(), bool(blockers), own, r.err)
        if blockers:
            self.run.probe('access-to-record-locked-through-other-number')
            if r.err is None:
                k, c, d = blockers[0]
                self.bad('locked-record-access-accepted:' + word.decode(), '%r succeeded although #%d holds %s' % (
                    stmt, k, 'the whole file' if c is None else 'records %d TO %d' % (c, d)))

    def op_get(self, op):
        self._access(op, b'GET')

    def op_put(self, op):
        self._access(op, b'PUT')

    def finish(self):
        for n in sorted(self.h):
            if self.run.stop:
                return
            self.op_close({'n': n})


###############################################################################
# generators (pure functions of rng)

def _wchoice(rng, table):
    t = sum(w for _, w in table)
    x = rng.random() * t
    for v, w in table:
        x -= w
        if x < 0:
            return v
    return table[-1][0]


def _gen_bytes(rng, n, alpha, forbid):
    out = []
    while len(out) < n:
        r = rng.random()
        if alpha == 'plain':
            c = rng.choice(b'ABCDEFGHIJKLMNOPQRSTUVWXYZabcdefghij0123456789    ,,')
        elif alpha == 'punct':
            c = rng.choice(b'AZaz09  ,,;:\'#$%&()*+-./<=>?@[\\]^_`{|}~!"')
        else:
            c = rng.randrange(256) if r < 0.6 else rng.choice(b' ,\t\r\n\x00\x07\x08\x0b\x0c\x1b\x7f\x80\xff"A')
        if c not in forbid:
            out.append(c)
    return bytes(out)


def _gen_len(rng, scfg, limit):
    r = rng.random()
    if scfg.get('len255') and r < 0.25:
        return min(255, limit)
    if r < 0.12:
        return 0
    if r < 0.60:
        return rng.randint(1, 8)
    if r < 0.85:
        return rng.randint(9, 60)
    if r < 0.96:
        return rng.randint(61, min(253, limit))
    return min(254, limit)


def _gen_string(rng, scfg):
    """A WRITE# string: no quote, NUL or EOF byte; line breaks only where the configuration reads them back."""
    forbid = b'"\x00\x1a'
    if scfg['crlf'] == 'none':
        forbid += b'\r\n'
    elif scfg['crlf'] == 'cr':
        forbid += b'\n'
    s = _gen_bytes(rng, _gen_len(rng, scfg, 255), scfg['alpha'], forbid)
    if scfg['crlf'] == 'crlf' and rng.random() < 0.3:
        # a CR LF pair at the edges of the string and inside it (random bytes rarely put one at the start)
        where = rng.choice(['start', 'start', 'end', 'middle', 'only'])
        if where == 'start':
            s = (b'\r\n' + s)[:254]
        elif where == 'end':
            s = s[:252] + b'\r\n'
        elif where == 'middle':
            k = len(s) // 2
            s = (s[:k] + b'\r\n' + s[k:])[:254]
        else:
            s = b'\r\n'
    r = rng.random()
    if r < 0.15:
        s = (b'  ' + s)[:254]
    elif r < 0.30:
        s = s[:252] + b'  '
    return s


def _gen_line(rng, scfg):
    return _gen_bytes(rng, _gen_len(rng, scfg, 254 if not scfg.get('len255') else 255), scfg['alpha'], b'\r\n\x1a')


def _gen_number(rng):
    t = rng.choice('%!#')
    if t == '%':
        v = rng.choice([0, 1, -1, 32767, -32768, rng.randint(-32768, 32767), rng.randint(-99, 99)])
        if v == SENT_N:
            v = 7
        return str(v), t
    sign = rng.choice(['', '-'])
    if t == '!':
        m = rng.choice(['1', '1.5', '.001', '3.141593', '9.999999', '1234567', '16777216', '%.6f' % rng.random()])
        e = rng.choice(['', '', 'E+10', 'E-10', 'E+30', 'E-30', 'E%+d' % rng.randint(-20, 20)])
        return sign + m + e, t
    m = rng.choice(['1', '.1', '3.141592653589793', '1.234567890123456', '123456789', '%.15f' % rng.random()])
    e = rng.choice(['#', 'D+0', 'D+10', 'D-10', 'D+30', 'D-30', 'D%+d' % rng.randint(-20, 20)])
    return sign + m + e, t


FAULT_TABLE_SEQ = [
    (('write', 60, ['ENOSPC', 'ENOSPC', 'EIO', 'EDQUOT']), 34), (('read', 40, ['EIO']), 24),
    (('close', 1, ['EIO', 'ENOSPC']), 12), (('open', 3, ['EACCES', 'EIO', 'ENOSPC', 'EMFILE', 'EROFS']), 10),
    (('stat', 3, ['EIO', 'EACCES']), 6), (('seek', 3, ['EIO']), 7), (('truncate', 1, ['EIO', 'ENOSPC']), 4),
    (('listdir', 2, ['EIO']), 3),
]
FAULT_TABLE_RND = [
    (('write', 3, ['ENOSPC', 'EIO']), 34), (('read', 3, ['EIO']), 22), (('seek', 6, ['EIO']), 14),
    (('close', 1, ['EIO', 'ENOSPC']), 12), (('open', 3, ['EACCES', 'EIO', 'ENOSPC']), 9),
    (('stat', 3, ['EIO']), 6), (('listdir', 2, ['EIO']), 3),
]


def _gen_fault(rng, table):
    kind, maxn, errs = _wchoice(rng, table)
    nth = 1 if rng.random() < 0.4 else rng.randint(1, maxn)
    return {'op': 'fault', 'kind': kind, 'nth': nth, 'err': rng.choice(errs)}


def gen24(rng, tier):
    slf = rng.random() < 0.45
    scfg = {
        'alpha': _wchoice(rng, [('plain', 3), ('punct', 3), ('bytes', 4)]),
        'crlf': _wchoice(rng, [('none', 6), ('cr', 2), ('crlf', 2)]) if slf else _wchoice(rng, [('none', 7), ('cr', 3)]),
        'len255': rng.random() < 0.05,
    }
    cfg = {
        'session': {'max_files': rng.randint(1, 6), 'soft_linefeed': slf},
        'faults': rng.random() < 0.55, 'strings': scfg, 'len255': scfg['len255'],
    }
    maxf = cfg['session']['max_files']
    names = ['F0.DAT', 'F1.DAT', 'F2', 'LONGNAME.TXT'][:rng.randint(1, 4)]
    nops = rng.randint(6, 45) if tier == 'quick' else rng.randint(30, 180)
    ops = []
    opened = {}     # number -> (name, mode)   (generation-time guess)
    written = {}    # name -> approximate record count
    while len(ops) < nops:
        r = rng.random()
        if cfg['faults'] and r < 0.07:
            ops.append(_gen_fault(rng, FAULT_TABLE_SEQ))
            continue
        if r < 0.025:
            ops.append({'op': 'restart'})
            opened = {}
            continue
        if opened and rng.random() < 0.04:
            ops.append({'op': 'resume'})
            continue
        if opened and rng.random() < 0.05:
            # a statement that the engine refuses because the file is open under a number: a second OPEN for
            # OUTPUT/APPEND, SAVE, LIST to the file, BSAVE, KILL, NAME - the data must survive the refusal
            k = rng.choice(sorted(opened))
            name = opened[k][0] if rng.random() < 0.9 else rng.choice(names)
            if rng.random() < 0.55:
                free = [x for x in range(1, maxf + 1) if x not in opened] or [rng.randint(1, maxf + 1)]
                ops.append({'op': 'open', 'n': rng.choice(free), 'name': name, 'mode': rng.choice('OOA'),
                            'syn': int(rng.random() < 0.25)})
            else:
                ops.append({'op': 'sysop', 'name': name, 'kind': _wchoice(rng, [
                    ('save', 2), ('savea', 3), ('list', 2), ('bsave', 1), ('kill', 2), ('name', 1.5), ('nameto', 1)])})
            if rng.random() < 0.5:
                # look at the file right away through the number that has it open
                ops.append({'op': 'lof', 'n': k})
                if opened[k][1] == 'I':
                    ops.append({'op': rng.choice(['rditems', 'rdline', 'eof']), 'n': k, 'k': rng.randint(1, 4)})
            continue
        if not opened or r < 0.16:
            n = rng.randint(1, maxf) if rng.random() < 0.93 else maxf + 1
            name = rng.choice(names)
            if written.get(name) and rng.random() < 0.6:
                mode = _wchoice(rng, [('I', 6), ('A', 3), ('O', 1)])
            else:
                mode = _wchoice(rng, [('O', 6), ('A', 3), ('I', 1)])
            ops.append({'op': 'open', 'n': n, 'name': name, 'mode': mode, 'syn': int(rng.random() < 0.25)})
            if n not in opened and n <= maxf and not any(v[0] == name for v in opened.values()):
                if mode != 'I' or written.get(name) is not None:
                    opened[n] = (name, mode)
                    if mode == 'O':
                        written[name] = 0
                    written.setdefault(name, 0)
            continue
        n = rng.choice(sorted(opened))
        name, mode = opened[n]
        if rng.random() < 0.04:
            n = rng.randint(1, maxf + 1)      # some other number, whatever its state
        if r < 0.28:
            ops.append({'op': 'close', 'n': n} if rng.random() < 0.9 else {'op': 'closeall'})
            opened.pop(n, None)
            if ops[-1]['op'] == 'closeall':
                opened = {}
            continue
        if r < 0.36:
            ops.append({'op': rng.choice(['lof', 'lof', 'eof']), 'n': n})
            continue
        if mode == 'I':
            k = _wchoice(rng, [('rditems', 6), ('rdline', 3), ('rdchars', 1.5)])
            ops.append({'op': k, 'n': n, 'k': rng.randint(1, 6) if k == 'rditems' else rng.choice([1, 2, 3, 5, 17, 80, 255])})
        else:
            if rng.random() < 0.6:
                items = []
                for _ in range(_wchoice(rng, [(1, 4), (2, 3), (3, 2), (5, 1), (6, 1)])):
                    if rng.random() < 0.6:
                        items.append(['s', u(_gen_string(rng, scfg))])
                    else:
                        lit, t = _gen_number(rng)
                        items.append(['n', lit, t])
                ops.append({'op': 'write', 'n': n, 'items': items})
            else:
                ops.append({'op': 'print', 'n': n, 'line': u(_gen_line(rng, scfg))})
            written[name] = written.get(name, 0) + 1
    return cfg, ops


def gen25(rng, tier):
    max_reclen = rng.choice([1, 2, 7, 16, 32, 64, 128, 128, 128, 255])
    # '' = every file under one number at a time; 'locker' = a second number on the same file that only
    # LOCKs/UNLOCKs (nothing can be stale); 'both' = two numbers that both transfer data (known finding)
    share = _wchoice(rng, [('', 66), ('locker', 22), ('both', 12)])
    cfg = {
        'session': {'max_files': rng.randint(2 if share else 1, 6), 'max_reclen': max_reclen},
        'faults': rng.random() < 0.45, 'share': share,
    }
    maxf = cfg['session']['max_files']
    resets = rng.random() < 0.22          # histories with CHAIN / RUN ,R / CLEAR / NEW ... while files are open
    progruns = rng.random() < 0.14        # histories (partly) run as lines of a stored program
    p_access = 0.12 if rng.random() < 0.35 else 0.0
    names = ['R0.DAT', 'R1.DAT', 'R2'][:rng.randint(1, 2 if share else 3)]
    lens = [min(max_reclen, x) for x in (1, 2, 3, 4, 5, 8, 13, 16, 32, 64, 100, 128, max_reclen)]
    reclen_of = {nm: rng.choice(lens) for nm in names}
    nops = rng.randint(8, 50) if tier == 'quick' else rng.randint(40, 220)
    ops = []
    opened = {}      # number -> [name, reclen, lock-only?, guessed record position]   (generation-time guess)
    glocks = []      # guessed held locks (number, a, b)
    inprog = 0       # ops left in the current program-mode stretch

    def enter():
        return {'op': 'mode', 'prog': True, 'how': _wchoice(rng, [('loadr', 4), ('chain', 2), ('runr', 2), ('typed', 2)])}

    def access_op(n, implicit=None):
        x = rng.random()
        if implicit is None:
            implicit = x < (0.45 if share or p_access else 0.30)
        if implicit:
            rec = None
            opened[n][3] += 1
        elif x < 0.72:
            rec = str(rng.randint(1, 12))
            if rng.random() < 0.15:
                # a record number with a fraction is rounded like any integer argument (never exactly .5 here)
                k = rng.randint(0, 12)
                rec = '%d.%s' % (k, rng.choice(['3', '7', '51', '49', '9']))
        elif x < 0.89:
            rec = str(rng.choice([rng.randint(13, 60), rng.randint(61, 400), rng.randint(100, 2000)]))
        else:
            rec = rng.choice(['0', '-1', '-32768', '33554432', '33554440', '4E+7', '1E+10', '-1E+10', '16777215'])
        if rec is not None and 1 <= _recno(rec) <= 2000:
            opened[n][3] = _recno(rec)
        return {'op': 'put' if rng.random() < 0.5 else 'get', 'n': n, 'rec': rec}

    while len(ops) < nops:
        r = rng.random()
        if progruns:
            # stretches of 4-18 ops run as lines of a stored program (the program is entered as a whole
            # at the start of the stretch; CHAIN/RUN ,R/LOAD ,R inside it go to a program on the disk
            # that holds the rest of the stretch)
            if inprog > 0:
                inprog -= 1
                if inprog == 0:
                    ops.append({'op': 'mode', 'prog': False})
            elif rng.random() < (0.5 if not ops else 0.06):
                ops.append(enter())
                inprog = rng.randint(4, 18)
        if cfg['faults'] and r < 0.06:
            f = _gen_fault(rng, FAULT_TABLE_RND)
            if f['kind'] == 'write' and rng.random() < 0.3:
                f['torn'] = rng.randint(0, 8)
            ops.append(f)
            continue
        if r < 0.02:
            ops.append({'op': 'restart'})
            if inprog:
                ops.append(enter())      # the new session has no program: enter it again
            opened = {}
            glocks = []
            continue
        if opened and (resets or inprog) and rng.random() < (0.09 if inprog else 0.06):
            ops.append({'op': 'reset', 'kind': _wchoice(rng, [
                ('chain', 5), ('chainmerge', 1), ('chainall', 1), ('runr', 2), ('loadr', 2), ('clear', 2), ('new', 0.7),
                ('delete', 1), ('edit', 1), ('merge', 1.3), ('run', 0.5), ('load', 0.5)])})
            if ops[-1]['kind'] in ('run', 'load'):
                opened = {}
                glocks = []
            continue
        if opened and rng.random() < 0.012:
            ops.append({'op': 'resume'})
            continue
        second = share and len(opened) == 1 and rng.random() < 0.35
        if not opened or r < 0.12 or second:
            n = rng.randint(1, maxf) if rng.random() < 0.93 else maxf + 1
            name = rng.choice(names)
            if second:
                name = opened[sorted(opened)[0]][0]
                n = rng.choice([k for k in range(1, maxf + 1) if k not in opened])
            reclen = reclen_of[name] if rng.random() < (0.92 if share else 0.8) else rng.choice(lens + [max_reclen + 1])
            op = {'op': 'ropen', 'n': n, 'name': name, 'reclen': reclen, 'syn': rng.randint(0, 2)}
            if rng.random() < p_access:
                op['access'] = _wchoice(rng, [('R', 4), ('W', 3), ('RW', 2)])
            ops.append(op)
            if n not in opened and n <= maxf and reclen <= max_reclen:
                shared = any(v[0] == name for v in opened.values())
                if not shared or share:
                    opened[n] = [name, reclen, share == 'locker' and shared, 0]
            continue
        n = rng.choice(sorted(opened))
        if rng.random() < 0.04:
            n = rng.randint(1, maxf + 1)
        me = opened.get(n)
        partners = [k for k in sorted(opened) if me and k != n and opened[k][0] == me[0]]
        if r < 0.19:
            if me and me[2] and rng.random() < 0.6:
                continue      # the lock-only number is closed less often
            ops.append({'op': 'rclose', 'n': n})
            opened.pop(n, None)
            glocks = [l for l in glocks if l[0] != n]
            continue
        if partners and (me[2] or rng.random() < 0.22):
            # LOCK/UNLOCK through this number, aimed at the record the other number will access next
            mine = [l for l in glocks if l[0] == n]
            if mine and rng.random() < 0.45:
                l = rng.choice(mine)
                glocks.remove(l)
                ops.append({'op': 'unlock', 'n': n, 'a': l[1], 'b': l[2]})
                if rng.random() < 0.15:
                    ops[-1]['a'] = (l[1] or 0) + 1       # not the bounds that were locked
                continue
            m = rng.choice(partners)
            x = rng.random()
            if x < 0.08:
                a = bb = None
            else:
                a = opened[m][3] + 1 if x < 0.7 else rng.randint(1, 8)
                bb = _wchoice(rng, [(None, 4), (a, 1), (a + 1, 2), (a + rng.randint(2, 5), 1)])
            ops.append({'op': 'lock', 'n': n, 'a': a, 'b': bb})
            held = (n, a, a if (bb is None and a is not None) else bb)
            glocks.append(held)
            if rng.random() < 0.65:
                # the other number runs into the lock, the lock is released, the access is repeated
                word = rng.choice(['put', 'get'])
                implicit = rng.random() < 0.75
                blocked = {'op': word, 'n': m, 'rec': None if implicit or a is None else str(a)}
                ops.append(dict(blocked))
                if rng.random() < 0.3:
                    ops.append({'op': rng.choice(['loc', 'lof']), 'n': m})
                if rng.random() < 0.85:
                    ops.append({'op': 'unlock', 'n': n, 'a': held[1], 'b': held[2]})
                    glocks.remove(held)
                if rng.random() < 0.8:
                    ops.append(dict(blocked))
                    opened[m][3] = (opened[m][3] + 1) if blocked['rec'] is None else a
                ops.append({'op': rng.choice(['loc', 'lof', 'get']), 'n': m})
                if ops[-1]['op'] == 'get':
                    ops[-1]['rec'] = str(rng.randint(1, max(1, opened[m][3] + 1)))
                    opened[m][3] = _recno(ops[-1]['rec'])
            continue
        if me and me[2]:
            continue
        if r < 0.25:
            ops.append({'op': 'field', 'n': n, 'cuts': [round(rng.random(), 3) for _ in range(rng.randint(0, 4))],
                        'cover': rng.choice([1.0, 1.0, 1.0, 0.5, 0.75])})
        elif r < 0.45:
            rl = me[1] if me else 8
            ln = min(255, _wchoice(rng, [(0, 1), (rng.randint(1, max(1, rl)), 6), (rl + rng.randint(1, 5), 2)]))
            ops.append({'op': 'lset', 'n': n, 'f': _wchoice(rng, [(0, 5), (1, 3), (2, 2), (3, 1)]),
                        'val': u(_gen_bytes(rng, ln, rng.choice(['plain', 'bytes']), b'')),
                        'right': rng.random() < 0.4})
        elif r < 0.55:
            ops.append({'op': rng.choice(['lof', 'loc']), 'n': n})
        else:
            if me is None:
                opened[n] = ['', 8, False, 0]
                ops.append(access_op(n))
                del opened[n]
            else:
                ops.append(access_op(n))
    return cfg, ops


def gen26(rng, tier):
    cfg = {'session': {'max_files': rng.randint(2, 6), 'max_reclen': 128}, 'faults': False}
    maxf = cfg['session']['max_files']
    names = ['S0.DAT'] if rng.random() < 0.7 else ['S0.DAT', 'S1.DAT']
    seq_share = rng.choice([0.0, 0.0, 0.15, 0.4, 0.7])      # how often sequential modes mix in
    nops = rng.randint(8, 45) if tier == 'quick' else rng.randint(40, 200)
    ops = []
    opened = {}      # n -> (name, mode)
    locks = []       # generation-time guess of held locks (n, a, b)
    big = tier != 'quick' or rng.random() < 0.2
    while len(ops) < nops:
        r = rng.random()
        nums = sorted(opened)
        if len(opened) < 2 or r < 0.14:
            n = rng.randint(1, maxf) if rng.random() < 0.95 else maxf + 1
            name = rng.choice(names)
            if rng.random() < seq_share:
                mode = rng.choice('IOA')
            else:
                mode = 'R'
            access = ''
            lock = ''
            if rng.random() < 0.25:
                access = {'I': 'R', 'O': 'W', 'A': 'RW', 'R': rng.choice(['R', 'W', 'RW'])}[mode]
            if rng.random() < 0.3:
                lock = rng.choice(['SHARED', 'SHARED', 'R', 'W', 'RW'])
            ops.append({'op': 'open', 'n': n, 'name': name, 'mode': mode, 'access': access, 'lock': lock,
                        'reclen': rng.choice([1, 4, 16, 128]), 'syn': rng.randint(0, 1), 'forword': rng.random() < 0.3})
            if n not in opened and n <= maxf:
                opened[n] = (name, mode)
            continue
        if rng.random() < 0.04:
            ops.append({'op': 'sysopen', 'kind': rng.choice(['save', 'savea', 'list', 'bsave']), 'name': rng.choice(names)})
            continue
        n = rng.choice(nums)
        if rng.random() < 0.03:
            n = rng.randint(1, maxf + 1)
        if r < 0.22:
            ops.append({'op': 'close', 'n': n})
            opened.pop(n, None)
            locks = [l for l in locks if l[0] != n]
        elif r < 0.58:
            # LOCK, aimed at a chosen relation to a held range
            if opened.get(n, ('', 'R'))[1] != 'R' or rng.random() < 0.12:
                a = bb = None
            elif locks and rng.random() < 0.75:
                _, c, d = rng.choice(locks)
                if c is None:
                    c, d = 1, 5
                w = d - c
                rel = rng.choice(['equal', 'inside', 'contains', 'left', 'right', 'adj-low', 'adj-high', 'touch-low',
                                  'touch-high', 'contains-far'])
                a, bb = {
                    'equal': (c, d), 'inside': (c + (w > 1), d - (w > 0)), 'contains': (max(1, c - 1), d + 1),
                    'left': (max(1, c - 2), c + w // 2), 'right': (d - w // 2, d + 2),
                    'adj-low': (max(1, c - 3), max(1, c - 1)), 'adj-high': (d + 1, d + 3),
                    'touch-low': (max(1, c - 2), c), 'touch-high': (d, d + 2),
                    'contains-far': (1, d + rng.choice([1, 10, 1000])),
                }[rel]
                if a > bb:
                    a, bb = bb, a
                bb = min(bb, 16777216)
                a = min(a, bb)
            else:
                a = rng.randint(1, 12) if not big or rng.random() < 0.8 else rng.choice([16777210, 16777000, 100000])
                bb = a + _wchoice(rng, [(0, 3), (1, 2), (rng.randint(2, 6), 3)])
                bb = min(bb, 16777216)
            op = {'op': 'lock', 'n': n, 'a': a, 'b': bb}
            if a is not None and a == bb and rng.random() < 0.5:
                op['b'] = None       # single-record form
            ops.append(op)
            if all(not overlapping(relation(a, bb, l[1], l[2])) for l in locks):
                locks.append((n, a, bb))
        elif r < 0.78:
            if locks and rng.random() < 0.7:
                k, a, bb = rng.choice(locks)
                x = rng.random()
                if x < 0.6:
                    pass
                elif x < 0.75:
                    k = rng.choice(nums)
                elif a is not None:
                    a, bb = rng.choice([(a, bb + 1), (max(1, a - 1), bb), (a, max(a, bb - 1)), (a + 1, max(a + 1, bb))])
                op = {'op': 'unlock', 'n': k, 'a': a, 'b': bb}
                if (k, a, bb) in locks:
                    locks.remove((k, a, bb))
            else:
                a = rng.randint(1, 12)
                op = {'op': 'unlock', 'n': n, 'a': a, 'b': a + rng.randint(0, 3)}
            ops.append(op)
        else:
            if locks and rng.random() < 0.7:
                _, c, d = rng.choice(locks)
                if c is None:
                    rec = rng.randint(1, 9)
                else:
                    rec = rng.choice([c, d, (c + d) // 2, max(1, c - 1), d + 1])
            else:
                rec = rng.randint(1, 12)
            word = 'get' if rng.random() < 0.55 else 'put'
            if word == 'put' and rec > 60:
                word = 'get'
            if rng.random() < 0.3 and rec > 1:
                # approach the record sequentially: an explicit access just before it, then one without number
                ops.append({'op': 'get', 'n': n, 'rec': rec - 1})
                ops.append({'op': word, 'n': n, 'rec': None})
            else:
                ops.append({'op': word, 'n': n, 'rec': rec})
    return cfg, ops


def gen(rng, tier, prop):
    cfg, ops = {'C24': gen24, 'C25': gen25, 'C26': gen26}[prop](rng, tier)
    return {'machine': NAME, 'prop': prop, 'cfg': cfg, 'ops': ops}


###############################################################################
# run / shrink

def run(case):
    simfs.install_fs_seams()
    # the engine logs every translated I/O error; thousands of injected faults would flood stderr
    logging.disable(logging.ERROR)
    prop = case['prop']

    def body(run):
        cx = Ctx(run, case['cfg'])
        with run.w:
            cx.start()
            m = {'C24': Seq, 'C25': Rand, 'C26': Share}[prop](cx, case['cfg'])
            m.ops = case['ops']
            try:
                for i, op in enumerate(case['ops']):
                    if run.stop:
                        break
                    m.ip = i
                    m.step(op)
                if not run.stop:
                    m.finish()
            except FaultCrash as e:
                kinds = e.fired[-1][0]
                run.violate(prop, 'fault-escapes:%s:%s:%s' % (e.label, kinds, e.crash.signature),
                            'a host exception escaped instead of a BASIC error: %s: %s\n  statements: %s\n%s' % (
                                e.crash.exc_type, e.crash.exc_msg, cx.witness(), e.crash.tb[-1200:]))
                run.res['status'] = 'crash'
            finally:
                cx.fs.disarm()
            if run.res['violations']:
                try:
                    cx.d.close()
                except EngineCrash:
                    pass
            else:
                cx.d.close()
    return execute(case, body)


def simplify(cfg, ops):
    """Strictly simpler candidates: shorter strings, fewer items, plainer configuration."""
    for i, op in enumerate(ops):
        k = op['op']
        if k == 'write':
            if len(op['items']) > 1:
                for j in range(len(op['items'])):
                    yield cfg, ops[:i] + [dict(op, items=op['items'][:j] + op['items'][j + 1:])] + ops[i + 1:]
            for j, it in enumerate(op['items']):
                if it[0] == 's' and len(it[1]) > 1 and len(it[1]) != 255:
                    for cand in (it[1][:1], it[1][:len(it[1]) // 2]):
                        yield cfg, ops[:i] + [dict(op, items=op['items'][:j] + [['s', cand]] + op['items'][j + 1:])] + ops[i + 1:]
                if it[0] == 'n' and it[1] != '1':
                    yield cfg, ops[:i] + [dict(op, items=op['items'][:j] + [['n', '1', it[2]]] + op['items'][j + 1:])] + ops[i + 1:]
        elif k == 'print' and len(op['line']) > 1 and len(op['line']) != 255:
            for cand in (op['line'][:1], op['line'][:len(op['line']) // 2]):
                yield cfg, ops[:i] + [dict(op, line=cand)] + ops[i + 1:]
        elif k == 'lset' and len(op['val']) > 1:
            yield cfg, ops[:i] + [dict(op, val=op['val'][:1])] + ops[i + 1:]
        elif k == 'fault' and op['nth'] > 1:
            yield cfg, ops[:i] + [dict(op, nth=1)] + ops[i + 1:]
        elif k == 'field' and (op['cuts'] or op.get('cover', 1.0) != 1.0):
            yield cfg, ops[:i] + [dict(op, cuts=[], cover=1.0)] + ops[i + 1:]
        elif k == 'open' and (op.get('access') or op.get('lock')):
            yield cfg, ops[:i] + [dict(op, access='', lock='')] + ops[i + 1:]
        elif k == 'ropen' and op.get('access'):
            yield cfg, ops[:i] + [dict(op, access='')] + ops[i + 1:]
        elif k == 'reset' and op['kind'] != 'clear':
            yield cfg, ops[:i] + [dict(op, kind='clear')] + ops[i + 1:]
    ses = cfg['session']
    if ses.get('max_files', 3) != 3 and all(op.get('n', 1) <= 3 for op in ops):
        yield dict(cfg, session=dict(ses, max_files=3)), ops
    if ses.get('soft_linefeed') and cfg.get('strings', {}).get('crlf') != 'crlf':
        # (strings with CR LF inside are only read back with soft_linefeed: not a simpler equivalent there)
        yield dict(cfg, session=dict(ses, soft_linefeed=False)), ops
