"""
events machine - C38: event traps fire only when enabled and never re-enter.

Programs in a small DSL (one statement per line) are compiled to BASIC and RUN. Event
occurrences (KEY(1..3) key-downs, TIMER via a step of the simulated clock, PEN down, STRIG(0)
down) are keyed by program position: "before line L executes for the c-th time", observed
through the public step hook (Session.set_hook) and the statement-loop poll. A nondeterministic
reference interpreter of the DSL with the trap state machine of the property is fed the same
position-keyed occurrences; the engine's marker trace must be one of the model's traces
(branching only where the property is silent: dispatch order of simultaneously pending traps,
and whether OFF discards an occurrence that was already remembered).
"""

import os
import struct
import itertools

from .. import kernel as K
from ..basicdrv import Driver, suspend_resume
from .common import Run, execute, b, u

NAME = 'events'
PROPS = ('C38',)
RULE = ('one evaluation = one DSL program run under one position-keyed occurrence schedule and trap-order; '
        'distinct = distinct (event, its ON/OFF/STOP state, pending?, handler depth, in-error-handler, running?) '
        'tuples at which an occurrence was delivered; non-trivial = at least one occurrence was delivered while '
        'the program was running')
REAL = ['pcbasic.basic (whole package): eventcycle, basicevents, interpreter trap dispatch, clock']
STUB = ['user input devices (signals scheduled by the simulator)', 'wall clock (simulated; TIMER occurrences are clock steps)',
        'COM ports (absent: no serial back end installed, COM traps out of reach)', 'PLAY traps (not exercised by this machine)']
ASSUMPTIONS = [
    'model follows the GW-BASIC manual where the property is silent: RETURN from a trap routine re-enables the event '
    'unless it was turned OFF inside; both outcomes are accepted for an occurrence remembered before OFF',
    'dispatch order of traps pending at the same boundary is unspecified: any order is accepted',
]
BATCH = 25

EVENTS = ['K1', 'K2', 'K3', 'TM', 'PN', 'ST']
EV_EXPR = {'K1': 'KEY(1)', 'K2': 'KEY(2)', 'K3': 'KEY(3)', 'TM': 'TIMER', 'PN': 'PEN', 'ST': 'STRIG(0)'}
EV_ONGOSUB = {'K1': 'ON KEY(1) GOSUB', 'K2': 'ON KEY(2) GOSUB', 'K3': 'ON KEY(3) GOSUB',
              'TM': 'ON TIMER(60) GOSUB', 'PN': 'ON PEN GOSUB', 'ST': 'ON STRIG(0) GOSUB'}
FKEY = {'K1': ('\x00\x3b', 0x3b), 'K2': ('\x00\x3c', 0x3c), 'K3': ('\x00\x3d', 0x3d)}


def quick_runs(prop):
    return 3000


###############################################################################
# DSL: a program is {'events': [...], 'main': [...], 'subs': [[...]], 'handlers': {ev: [...]}, 'eh': [...]}
# statements: ['P'] marker | ['C', ev, 'ON'|'OFF'|'STOP'] | ['E'] ERROR 5 | ['G', sub] GOSUB | ['F', n] FOR | ['N'] NEXT

def _body(rng, evs, n, allow, own=None, nsubs=0):
    out = []
    for _ in range(n):
        r = rng.random()
        if r < 0.45:
            out.append(['P'])
        elif r < 0.78:
            ev = rng.choice(evs)
            if own is not None and ev == own:
                cmd = rng.choice(['ON', 'OFF', 'OFF'])
            else:
                cmd = rng.choice(['ON', 'ON', 'OFF', 'STOP'])
            out.append(['C', ev, cmd])
        elif r < 0.86 and 'E' in allow:
            out.append(['E'])
        elif r < 0.90 and 'S' in allow:
            # STOP: the harness answers with CONT
            out.append(['S'])
        elif r < 0.96 and 'G' in allow and nsubs:
            out.append(['G', rng.randrange(nsubs)])
        else:
            out.append(['P'])
    return out


def gen(rng, tier, prop):
    big = tier != 'quick'
    evs = rng.sample(EVENTS, rng.randint(1, 4))
    nsubs = rng.randint(0, 2)
    prog = {'events': evs}
    main = [['C', ev, 'ON'] for ev in evs if rng.random() < 0.75]
    main += _body(rng, evs, rng.randint(3, 14 if not big else 30), 'EGS', nsubs=nsubs)
    if rng.random() < 0.5:
        # a FOR loop around a few statements
        i = rng.randint(0, len(main))
        inner = _body(rng, evs, rng.randint(1, 4), 'EGS', nsubs=nsubs)
        main = main[:i] + [['F', rng.randint(2, 4)]] + inner + [['N']] + main[i:]
    prog['main'] = main
    prog['subs'] = [_body(rng, evs, rng.randint(1, 4), 'ES') for _ in range(nsubs)]
    prog['handlers'] = {ev: _body(rng, evs, rng.randint(1, 5), 'ES', own=ev) for ev in evs}
    # the first statement of a trap routine runs in the loop iteration that dispatched the trap:
    # sometimes make it an error (trapped by ON ERROR, then RESUME NEXT)
    prog['head_err'] = [ev for ev in evs if rng.random() < 0.15]
    prog['eh'] = _body(rng, evs, rng.randint(1, 3), 'S')
    has_for = any(st[0] == 'F' for st in prog['main'])
    if not has_for and rng.random() < 0.3:
        # trap routines that leave with RETURN <line>: the event must be re-enabled all the same
        prog['ret_line'] = {ev: rng.randrange(len(prog['main']) + 1) for ev in evs if rng.random() < 0.6}
    if 'TM' not in evs and rng.random() < 0.15:
        # the error handler is abandoned with RUN <line> (no RESUME): RUN resets the trap machinery,
        # the second stage sets its traps up again and they must fire
        prog['eh_run'] = True
        prog['stage2'] = [['C', ev, 'ON'] for ev in evs] + _body(rng, evs, rng.randint(2, 6), '')
    if rng.random() < 0.12:
        # an error inside the error handler stops the program
        prog['eh'].insert(rng.randint(0, len(prog['eh'])), ['E'])
    lines, ids0 = compile_prog(prog)
    nums = sorted(lines)
    # no occurrence is keyed on the first line of a trap routine: the engine executes it in the same
    # loop iteration that dispatched the trap, so there is no boundary in front of it
    runnable = [n for n in nums if lines[n][0] not in ('SETUP',) and not _is_trap_head(ids0[n])]
    ops = []
    for _ in range(rng.randint(1, 10 if not big else 25)):
        ev = rng.choice(evs) if rng.random() < 0.9 else rng.choice(EVENTS)
        ops.append({'op': 'occ', 'ev': ev, 'line': rng.choice(runnable), 'count': rng.choice([1, 1, 1, 2, 3])})
    if rng.random() < 0.3:
        # burst: several events at the same boundary
        ln = rng.choice(runnable)
        for ev in rng.sample(evs, min(len(evs), rng.randint(2, 3))):
            ops.append({'op': 'occ', 'ev': ev, 'line': ln, 'count': 1})
    if rng.random() < 0.3:
        ops.append({'op': 'after', 'ev': rng.choice(evs)})
    if rng.random() < 0.25:
        # crash/restart while the program is stopped at a STOP statement: suspend, drop the session, resume
        ops.append({'op': 'restart', 'cont': rng.randint(1, 3)})
    cfg = {
        'prog': prog,
        'session': {'syntax': rng.choice(['advanced', 'advanced', 'pcjr', 'tandy'])},
        'world': {'sleep0_us': rng.choice([0, 50, 300]), 'trap_order': rng.randint(0, 3)},
    }
    return {'machine': NAME, 'prop': prop, 'cfg': cfg, 'ops': ops}


def _is_trap_head(sid):
    return sid[0].startswith('h') and sid[1] == 'head'


def simplify(cfg, ops):
    prog = cfg['prog']
    # drop statements from bodies
    for key in ('main', 'eh'):
        body = prog[key]
        for i in range(len(body) - 1, -1, -1):
            if body[i][0] in ('F', 'N'):
                continue
            p2 = dict(prog)
            p2[key] = body[:i] + body[i + 1:]
            yield _renumbered(cfg, p2, ops)
    for ev, body in prog['handlers'].items():
        for i in range(len(body) - 1, -1, -1):
            p2 = dict(prog)
            p2['handlers'] = dict(prog['handlers'])
            p2['handlers'][ev] = body[:i] + body[i + 1:]
            yield _renumbered(cfg, p2, ops)
    for si, body in enumerate(prog['subs']):
        for i in range(len(body) - 1, -1, -1):
            p2 = dict(prog)
            p2['subs'] = list(prog['subs'])
            p2['subs'][si] = body[:i] + body[i + 1:]
            yield _renumbered(cfg, p2, ops)


def _renumbered(cfg, prog2, ops):
    """Occurrences are keyed by line number; removing a statement shifts later lines: remap by identity of position."""
    old_lines, old_ids = compile_prog(cfg['prog'])
    new_lines, new_ids = compile_prog(prog2)
    # statement identity = (section, index) before removal; approximate remap: keep ops whose line still exists
    # with the same statement kind, else drop the op
    new_ops = []
    for op in ops:
        if op['op'] != 'occ':
            new_ops.append(op)
            continue
        sid = old_ids.get(op['line'])
        # find same section; index shifts if a statement before it in the same section was removed
        cand = [ln for ln, s in new_ids.items() if s == sid]
        if cand:
            new_ops.append(dict(op, line=cand[0]))
    return dict(cfg, prog=prog2), new_ops


def compile_prog(prog):
    """-> (lines: {num: stmt tuple}, ids: {num: (section, index)}). stmt tuples are model statements."""
    evs = prog['events']
    seq = []   # (section, index, stmt)
    # layout: setup, main, END, subs (each + RETURN), handlers (each + RETURN), eh (+ RESUME NEXT)
    seq.append(('setup', 0, ['SETUP', 'ON ERROR GOTO @EH']))
    for i, ev in enumerate(evs):
        seq.append(('setup', i + 1, ['SETUP', '%s @H%s' % (EV_ONGOSUB[ev], ev)]))
    for i, st in enumerate(prog['main']):
        seq.append(('main', i, st))
    seq.append(('main', 'end', ['END']))
    if prog.get('eh_run'):
        seq.append(('st2', 'head', ['SETUP', 'ON ERROR GOTO @EH']))
        for i, ev in enumerate(evs):
            seq.append(('st2', 's%d' % i, ['SETUP', '%s @H%s' % (EV_ONGOSUB[ev], ev)]))
        for i, st in enumerate(prog.get('stage2', [])):
            seq.append(('st2', i, st))
        seq.append(('st2', 'end', ['END']))
    for si, body in enumerate(prog['subs']):
        seq.append(('sub%d' % si, 'head', ['P']))
        for i, st in enumerate(body):
            seq.append(('sub%d' % si, i, st))
        seq.append(('sub%d' % si, 'ret', ['RET']))
    for ev in evs:
        seq.append(('h' + ev, 'head', ['E'] if ev in prog.get('head_err', ()) else ['P']))
        for i, st in enumerate(prog['handlers'].get(ev, [])):
            seq.append(('h' + ev, i, st))
        if ev in prog.get('ret_line', {}):
            seq.append(('h' + ev, 'ret', ['RETL', prog['ret_line'][ev]]))
        else:
            seq.append(('h' + ev, 'ret', ['RET']))
    seq.append(('eh', 'head', ['P']))
    for i, st in enumerate(prog['eh']):
        seq.append(('eh', i, st))
    seq.append(('eh', 'ret', ['RUNTO', None] if prog.get('eh_run') else ['RESNEXT']))
    lines = {}
    ids = {}
    starts = {}
    for n, (sec, idx, st) in enumerate(seq):
        num = 10 * (n + 1)
        lines[num] = list(st)
        ids[num] = (sec, idx)
        if sec not in starts:
            starts[sec] = num
    # resolve gosub targets / labels
    for num, st in lines.items():
        if st[0] == 'G':
            sec = 'sub%d' % st[1]
            st.append(starts.get(sec))
        if st[0] == 'RETL':
            # target: the st[1]-th main statement (or the END behind main)
            mains = sorted(n2 for n2, sid in ids.items() if sid[0] == 'main')
            st.append(mains[min(st[1], len(mains) - 1)])
        if st[0] == 'RUNTO':
            st.append(starts['st2'])
        if st[0] == 'SETUP':
            t = st[1]
            t = t.replace('@EH', str(starts['eh']))
            for ev in evs:
                t = t.replace('@H' + ev, str(starts['h' + ev]))
            st[1] = t
    return lines, ids


def to_basic(lines):
    out = []
    for num in sorted(lines):
        st = lines[num]
        k = st[0]
        if k == 'SETUP':
            t = st[1]
        elif k == 'P':
            t = 'PRINT "#%d"' % num
        elif k == 'C':
            t = '%s %s' % (EV_EXPR[st[1]], st[2])
        elif k == 'E':
            t = 'ERROR 5'
        elif k == 'G':
            t = 'GOSUB %d' % st[2] if st[2] else 'PRINT "#%d"' % num
        elif k == 'F':
            t = 'FOR I%%=1 TO %d' % st[1]
        elif k == 'N':
            t = 'NEXT'
        elif k == 'END':
            t = 'END'
        elif k == 'S':
            t = 'STOP'
        elif k == 'RET':
            t = 'RETURN'
        elif k == 'RESNEXT':
            t = 'RESUME NEXT'
        elif k == 'RETL':
            t = 'RETURN %d' % st[2]
        elif k == 'RUNTO':
            t = 'RUN %d' % st[2]
        out.append('%d %s' % (num, t))
    return out


###############################################################################
# reference model: nondeterministic interpreter

class Budget(Exception):
    pass


class ModelState(object):
    __slots__ = ('pc', 'stack', 'ev', 'pending', 'active', 'in_error', 'err_resume', 'trace', 'count',
                 'fired', 'forstack', 'steps', 'running', 'stopped_msg', 'tm_late')

    def copy(self):
        m = ModelState()
        m.pc = self.pc
        m.stack = list(self.stack)
        m.ev = dict(self.ev)
        m.pending = dict(self.pending)
        m.active = dict(self.active)
        m.in_error = self.in_error
        m.err_resume = self.err_resume
        m.trace = list(self.trace)
        m.count = dict(self.count)
        m.fired = set(self.fired)
        m.forstack = [list(f) for f in self.forstack]
        m.tm_late = self.tm_late
        m.steps = self.steps
        m.running = self.running
        m.stopped_msg = self.stopped_msg
        return m


def model_traces(lines, starts, evs, occ, limit=400, on_deliver=None, timer_lenient=False):
    """
    All marker traces the property allows. occ: {(line, count): [ev, ...]}.
    pending values: False | True | 'maybe' (remembered before an OFF: either outcome accepted).
    Returns (set of trace tuples, exhausted?).
    """
    order = sorted(lines)
    nxt = {order[i]: (order[i + 1] if i + 1 < len(order) else None) for i in range(len(order))}
    init = ModelState()
    init.pc = order[0]
    init.stack = []
    init.ev = {e: 'OFF' for e in evs}
    init.pending = {e: False for e in evs}
    init.active = {e: 0 for e in evs}    # implicit stop depth marker: 1 while its handler runs and not re-ONed
    init.in_error = False
    init.err_resume = None
    init.trace = []
    init.count = {}
    init.fired = set()
    init.forstack = []
    init.steps = 0
    init.running = True
    init.stopped_msg = None
    init.tm_late = False
    results = set()
    work = [init]
    explored = 0
    while work:
        m = work.pop()
        explored += 1
        if explored > limit:
            return results, False
        # run m until it ends or branches
        while True:
            if m.pc is None or not m.running:
                results.add(tuple(m.trace))
                break
            m.steps += 1
            if m.steps > 3000:
                results.add(tuple(m.trace))
                break
            L = m.pc
            key = (L, m.count.get(L, 0) + 1)
            if key not in m.fired:
                m.fired.add(key)
                for e in occ.get(key, ()):
                    if on_deliver is not None:
                        on_deliver(e, m)
                    if e in m.ev and m.ev[e] in ('ON', 'STOP'):
                        m.pending[e] = True
                    elif e == 'TM' and e in m.ev and timer_lenient:
                        # lenient arm only (isolates a known finding): the interval elapsing while
                        # TIMER is OFF is acted upon as soon as TIMER is turned ON again
                        m.tm_late = True
                    # OFF (or not a program event): lost
            # dispatch
            if not m.in_error:
                ready = [e for e in evs if m.pending[e] and m.ev[e] == 'ON' and not m.active[e]]
                maybe = [e for e in ready if m.pending[e] == 'maybe']
                if maybe:
                    # branch: the remembered-before-OFF occurrence was discarded
                    e = maybe[0]
                    alt = m.copy()
                    alt.pending[e] = False
                    work.append(alt)
                    m.pending[e] = True
                    continue
                if len(ready) > 1:
                    # the property does not say in which order traps pending at the same boundary are
                    # handled, nor whether all are entered at once (nested) or one at a time:
                    # accept every order under both disciplines
                    perms = list(itertools.permutations(ready))
                    alts = []
                    for perm in perms:
                        alts.append(('all', perm))
                    for e in ready:
                        alts.append(('one', (e,)))
                    for mode, perm in alts[1:]:
                        alt = m.copy()
                        _enter(alt, perm, starts)
                        work.append(alt)
                    _enter(m, alts[0][1], starts)
                    continue
                if ready:
                    _enter(m, (ready[0],), starts)
                    continue
            # execute statement at pc
            st = lines[L]
            m.count[L] = m.count.get(L, 0) + 1
            k = st[0]
            if k == 'P':
                m.trace.append(L)
                m.pc = nxt[L]
            elif k == 'SETUP':
                m.pc = nxt[L]
            elif k == 'C':
                e, cmd = st[1], st[2]
                if cmd == 'ON':
                    if e == 'TM' and m.tm_late and m.ev[e] == 'OFF':
                        m.pending[e] = True
                    if e == 'TM':
                        m.tm_late = False
                    m.ev[e] = 'ON'
                    m.active[e] = 0      # ON inside its own handler lifts the implicit stop
                elif cmd == 'OFF':
                    m.ev[e] = 'OFF'
                    if m.pending[e]:
                        m.pending[e] = 'maybe'
                elif cmd == 'STOP':
                    if m.ev[e] == 'ON':
                        m.ev[e] = 'STOP'
                m.pc = nxt[L]
            elif k == 'E':
                if m.in_error:
                    # error inside the error handler: program stops with the message
                    m.running = False
                    continue
                m.in_error = True
                m.err_resume = nxt[L]
                m.pc = starts['eh']
            elif k == 'G':
                if st[2]:
                    m.stack.append(('sub', nxt[L], None))
                    m.pc = st[2]
                else:
                    m.trace.append(L)
                    m.pc = nxt[L]
            elif k == 'F':
                m.forstack.append([nxt[L], 1, st[1]])
                m.pc = nxt[L]
            elif k == 'N':
                if not m.forstack:
                    m.running = False   # NEXT without FOR: error 1 -> trapped by ON ERROR... keep simple: stop
                    continue
                fr = m.forstack[-1]
                fr[1] += 1
                if fr[1] > fr[2]:
                    m.forstack.pop()
                    m.pc = nxt[L]
                else:
                    m.pc = fr[0]
            elif k == 'END':
                m.running = False
            elif k == 'S':
                # STOP, then CONT typed in direct mode: execution continues after the STOP statement;
                # trap states, pending occurrences, the handler stack and the error-handler state are kept
                m.trace.append(-L)
                m.pc = nxt[L]
            elif k == 'RET':
                if not m.stack:
                    m.running = False    # RETURN without GOSUB
                    continue
                kind, ret, e = m.stack.pop()
                if kind == 'trap':
                    m.active[e] = 0
                    if m.ev[e] != 'OFF':
                        m.ev[e] = 'ON'
                m.pc = ret
            elif k == 'RETL':
                if not m.stack:
                    m.running = False    # RETURN without GOSUB
                    continue
                kind, ret, e = m.stack.pop()
                if kind == 'trap':
                    m.active[e] = 0
                    if m.ev[e] != 'OFF':
                        m.ev[e] = 'ON'
                m.pc = st[2]
            elif k == 'RUNTO':
                # RUN <line>: everything is reset (traps OFF and forgotten, stacks, the error-handler state)
                for e in evs:
                    m.ev[e] = 'OFF'
                    m.pending[e] = False
                    m.active[e] = 0
                m.in_error = False
                m.err_resume = None
                m.stack = []
                m.forstack = []
                m.tm_late = False
                m.pc = st[2]
            elif k == 'RESNEXT':
                if not m.in_error:
                    m.running = False    # RESUME without error
                    continue
                m.in_error = False
                m.pc = m.err_resume
    return results, True


def _enter(m, seq, starts):
    """Enter the handlers in seq at this boundary; the last one entered runs first."""
    for e in seq:
        m.pending[e] = False
        m.active[e] = 1
        m.stack.append(('trap', m.pc, e))
        m.pc = starts['h' + e]


###############################################################################
# engine side

def run(case):
    def body(run):
        cfg = case['cfg']
        prog = cfg['prog']
        evs = prog['events']
        lines, ids = compile_prog(prog)
        starts = {}
        for num in sorted(ids):
            starts.setdefault(ids[num][0], num)
        text = to_basic(lines)
        occ = {}
        after = []
        for op in case['ops']:
            if op['op'] == 'occ':
                if op['line'] in ids and not _is_trap_head(ids[op['line']]):
                    occ.setdefault((op['line'], op['count']), []).append(op['ev'])
            elif op['op'] == 'after':
                after.append(op['ev'])
        restarts = set(op['cont'] for op in case['ops'] if op['op'] == 'restart')
        w = run.w
        with w:
            d = Driver(w, **cfg['session'])
            for i in range(1, 11):
                d.exec(b'KEY %d,""' % i)
            for ln in text:
                d.exec(b(ln))
            counts = {}
            fired = set()
            delivered = []
            cell = {'impl': d.s._impl}

            def step(token):
                num = struct.unpack_from('<H', token, 2)[0]
                counts[num] = counts.get(num, 0) + 1

            d.s.set_hook(step)

            def deliver(ev):
                if ev in FKEY:
                    c, sc = FKEY[ev]
                    w.inputs.pending.append(K.sig_key(c, sc, ()))
                elif ev == 'TM':
                    w.jump_clock(60)
                elif ev == 'PN':
                    w.inputs.pending.append(K.sig_pen_down(10, 10))
                    w.inputs.pending.append(K.sig_pen_up())
                elif ev == 'ST':
                    w.inputs.pending.append(K.sig_stick_down(0, 0))
                    w.inputs.pending.append(K.sig_stick_up(0, 0))

            def hook(wd):
                impl = cell['impl']
                it = impl.interpreter
                if not (it.parse_mode and it.run_mode):
                    wd.tick_sleeps = 0
                    return
                if wd.tick_sleeps:
                    wd.tick_sleeps = 0
                    return
                code = impl.program.bytecode
                pos = code.tell()
                buf = code.getvalue()
                if buf[pos:pos + 1] != b'\0' or buf[pos + 1:pos + 3] == b'\0\0' or pos + 5 > len(buf):
                    return
                num = struct.unpack_from('<H', buf, pos + 3)[0]
                key = (num, counts.get(num, 0) + 1)
                if key in fired:
                    return
                fired.add(key)
                for ev in occ.get(key, ()):
                    deliver(ev)
                    delivered.append((key, ev))
                    wd.stats['occurrences_delivered'] += 1

            w.poll_hook = hook
            w.tick_sleeps = 0
            r = d.exec(b'RUN', poll_cap=20000)
            out = r.out
            conts = 0
            while conts < 40:
                # 'Break in N' from a STOP statement: mark it in the trace and continue
                tail_line = r.out.rstrip(b'\r\n').split(b'\n')[-1]
                if not tail_line.startswith(b'Break in '):
                    break
                conts += 1
                out += b'\n'
                if conts in restarts:
                    # only durable state survives: the session is saved, dropped and rebuilt from the file
                    w.poll_hook = None
                    d = suspend_resume(d, os.path.join(run.make_scratch(), 'state.bin'))
                    cell['impl'] = d.s._impl
                    d.s.set_hook(step)
                    w.poll_hook = hook
                    w.tick_sleeps = 0
                r = d.exec(b'CONT', poll_cap=20000)
                out += r.out
                w.stats['conts'] += 1
            if conts >= 40 and r.out.rstrip(b'\r\n').split(b'\n')[-1].startswith(b'Break in '):
                # more STOPs than the harness is prepared to answer: the trace is not complete, nothing is judged
                run.probe('cont-cap-reached')
                d.close()
                return
            w.poll_hook = None
            # after the program ended: occurrences in direct mode must not start handlers
            tail = b''
            for ev in after:
                deliver(ev)
                tail += d.exec(b'PRINT "direct"').out
                tail += d.exec(b'X=1').out
            d.close()

        trace = []
        for ln in out.replace(b'\r', b'\n').split(b'\n'):
            ln = ln.strip()
            if ln.startswith(b'#') and ln[1:].isdigit():
                trace.append(int(ln[1:]))
            elif ln.startswith(b'Break in ') and ln[9:].rstrip(b'\xff').isdigit():
                trace.append(-int(ln[9:].rstrip(b'\xff')))
        if b'#' in tail:
            run.violate('C38', 'handler-ran-in-direct-mode',
                        'an occurrence after the program ended started a handler during direct statements: %r' % tail)
            return

        def on_deliver(e, m):
            if e in m.ev:
                run.state(e, m.ev[e], bool(m.pending[e]), min(len(m.stack), 3), m.in_error, bool(m.active[e]))

        allowed, complete = model_traces(lines, starts, evs, occ, on_deliver=on_deliver)
        run.res['stats']['model_traces'] += len(allowed)
        if delivered:
            run.probe('runs_with_occurrence_while_running')
        if len(allowed) > 1:
            run.probe('model_branched')
        if not complete:
            run.res['stats']['model_budget_exhausted'] += 1
            return
        if tuple(trace) in allowed:
            return
        if 'TM' in evs:
            lenient, complete2 = model_traces(lines, starts, evs, occ, timer_lenient=True)
            if complete2 and tuple(trace) in lenient:
                run.violate('C38', 'timer-interval-elapsed-while-off-fires-after-on',
                            'the TIMER interval elapsed while TIMER was OFF; the trap ran after TIMER ON although the '
                            'occurrence happened while OFF\nengine markers %r\nprogram:\n%s\noccurrences: %r' % (
                                trace, '\n'.join(text), sorted(occ.items())))
                return
        # classify against the closest allowed trace
        best = None
        for t in allowed:
            n = 0
            while n < min(len(t), len(trace)) and t[n] == trace[n]:
                n += 1
            if best is None or n > best[0]:
                best = (n, t)
        n, t = best
        got = trace[n] if n < len(trace) else None
        exp = t[n] if n < len(t) else None

        def sec(num):
            return ids[num][0] if num in ids else '?'
        if got is not None and sec(got).startswith('h') and (exp is None or not sec(exp).startswith('h')):
            cls = 'handler-ran-when-model-forbids'
        elif exp is not None and sec(exp).startswith('h') and (got is None or not sec(got).startswith('h')):
            cls = 'handler-did-not-run-when-due'
        elif got is not None and exp is not None and sec(got).startswith('h') and sec(exp).startswith('h'):
            cls = 'wrong-handler-or-order'
        else:
            cls = 'trace-mismatch'
        run.violate('C38', cls, 'engine markers %r\nclosest allowed %r (of %d)\nfirst difference at %d: engine %s [%s], model %s [%s]\nprogram:\n%s\noccurrences: %r' % (
            trace, list(t), len(allowed), n, got, sec(got) if got else '-', exp, sec(exp) if exp else '-',
            '\n'.join(text), sorted(occ.items())))
    return execute(case, body)
