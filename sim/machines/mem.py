"""
mem machine - C10 / C11 / C12: the emulated data segment under memory histories.

One workload serves three properties; case['prop'] selects the op mix and which oracles dominate.

  C10  string variables keep their values through any memory history; FRE consistency
  C11  PEEK/VARPTR/VARPTR$ expose variable storage faithfully; storage is never aliased
  C12  array subscripts address distinct elements within declared bounds

Seam S7 (DESIGN.md section 1): `max_memory` per run, `CLEAR ,n,m`, and *forced garbage collection*:
DataSegment.check_free is wrapped from here; cfg['gc'] = {'every': k, 'phase': p, 'skip': s} makes
the (s + p + i*k)-th call of check_free run _collect_garbage() first. The subset is part of the case,
nothing is drawn from a PRNG during a run.

Reference model: a dict of scalars, a dict of arrays (dims + sparse elements), string slots that
remember where their bytes live ('s' string space, 'c' program code, 'f' FIELD buffer, 'u' unknown),
the FIELD buffer, OPTION BASE, and the record sizes of the documented variable layouts. Every op has
a modelled outcome in every state (possibly "skip" where GW-BASIC semantics are unspecified).

What is deliberately not judged (property silent / unspecified corner) is marked `# unspecified:`.

Oracles
  C10  read-back of every variable/element after every op (Session.get_variable; PRINT-path via
       evaluate for samples); a failing statement leaves everything unchanged; FRE("") equals
       F0 - records - live string bytes (F0 calibrated on the empty state of the same session; bounds
       only while some strings live in program text); FRE(0) repeatable and never above that; CLEAR ,n,m
       moves F0 by (dn - dm); Out of memory / Out of string space only when the reference has less than
       the statement's worst-case need free AND the engine's own FRE("") agrees (otherwise the
       disagreement itself is the finding); crashes inside the collector/string space.
  C11  VARPTR inside the scalar/array area given by DS:358h..35Dh; PEEK(VARPTR..) = MKI$/MKS$/MKD$ of the
       same variable, = <len, addr> for strings with PEEK(addr..) the characters; VARPTR$ = size byte +
       address; value ranges and string-space data ranges pairwise disjoint (addresses of one sweep are
       all read before anything is evaluated that could start a collection); areas packed and record
       header (size byte, first letter) where the documented layout puts them; no other variable changes
       on assignment (the read-back).
  C12  DIM/auto-DIM shapes for both bases, Duplicate definition, ERASE+DIM, OPTION BASE conflicts, failed
       DIM leaves no array, subscript errors 9/5 without changing anything, unique value in every element
       (all tuples up to 600 elements, boundary + scattered tuples above) read back through the API and
       through BASIC, all element addresses of small arrays distinct.
  Statements that fail after part of their work (ops 'merase', 'mdim', 'line'): ERASE lists of 1..4 names
       mixing existing arrays, missing arrays, repeated names, names of scalars and text that cannot be parsed
       (trailing comma, subscript, double comma); DIM lists where a later item fails (Duplicate definition,
       negative / below-base bound, an array larger than any data segment); direct lines of several
       statements where a later one fails (Overflow, Illegal function call, Subscript out of range, SWAP
       Type mismatch, ERASE of a missing array, DIM of an existing one). The units are modelled one after the
       other (class Comp): the units before the failing one have taken effect, the failing one and the rest
       have not - GW-BASIC and PC-BASIC both run such lists while they parse them. Where that is not settled
       the engine's choice is followed, but it must be a prefix of the units: a Syntax error behind the last
       unit (the list could have been checked first), and Out of memory / Out of string space, whose failing
       unit depends on memory; `partial-effect:*:state-is-no-prefix-of-the-units` otherwise. After a statement
       that did part of its work every surviving variable gets the complete audit (read-back of everything,
       VARPTR/PEEK/VARPTR$ of every scalar and of every element of the small arrays, disjointness, packing,
       record headers), and the generator appends DIM of a new array + unique values in all its elements,
       each followed by the same audit (op flag 'audit').
  Console input (op 'input'): INPUT of 1..4 variables / LINE INPUT typed through the simulated input queue,
       mostly into scalars and string-array elements that do not exist yet, mostly right after op 'squeeze'
       has turned free memory into garbage down to what the typed strings need plus a few bytes, so that
       creating the first variable or dimensioning the array collects while the typed values wait. Modelled
       as a row of LETs of constants (values assigned from the left; Out of memory part-way -> prefix).
       unspecified: PC-BASIC answers ?Redo from start when a typed string does not fit in string space
       (the harness then sends Ctrl+Break and demands that nothing was assigned); with enough memory in the
       reference a refused line is `input:valid-line-refused`.
  Restart (op 'restart'): Session.suspend -> close -> Session.resume (basicdrv.suspend_resume); every value
       must read back unchanged and the history goes on in the resumed session (same collection plan).
       Count arguments of LEFT$/RIGHT$/MID$ are sometimes LEN(<string expression>): an allocating argument
       behind a first argument that may be a temporary.
  Failing LET into an undeclared array (generator kind 'faillet'): the target of LET is the array's first
       use - it precedes the right-hand side in the statement and is looked up before the right-hand side
       is evaluated in GW-BASIC and PC-BASIC - so when the right-hand side fails (not with Out of memory)
       and the target's subscripts are within 0/1..10, the array must exist afterwards with the target's
       number of dimensions (`autodim:*`, C12); a DIM or a reference with another number of subscripts
       follows. Out-of-range target subscripts and arrays first mentioned inside a failing expression stay
       with the engine's choice.
  Program changes (ops 'pline', 'pdelete', 'prenum', 'pmerge', 'prun'; about 30 % of the C10/C11 histories):
       the prelude program then assigns string literals (variables pointing into program text), numeric scalars
       and array elements; after RUN the history has typed program lines (new ones before/between/behind the
       stored lines, or replacing an assignment line), DELETE n, RENUM n,,i, MERGE of a small ASCII file
       written to the scratch disk (lines before, between and behind the stored ones), and RUN again (the
       model runs the assignment lines that are still there). unspecified: whether such a statement clears
       the variables. Afterwards EITHER every variable is gone (no VARPTR, reads empty/0, arrays not
       dimensioned; the model is cleared as for CLEAR) OR every variable exists with its model value and
       passes the complete VARPTR/PEEK/disjointness audit; `program-change:<op>:variables-neither-cleared-nor-
       intact` otherwise. The empty-state free space is calibrated again (the program has another size).
       Out of memory while the program is being changed ends the run (partly changed program: not modelled);
       the ops are not run with a FIELD file open.
A violation that leaves the reference model uncertain ends the run.
"""

import os
import struct

from .. import kernel as K
from ..basicdrv import Driver, EngineCrash, suspend_resume
from .common import execute, b

NAME = 'mem'
PROPS = ('C10', 'C11', 'C12')
RULE = ('one evaluation = one simulated direct-mode history (12-55 ops quick, 40-400 thorough) of '
        'assignments, string functions, MID$/LSET/RSET, SWAP, DIM/ERASE/OPTION BASE, FIELD, DEF FN calls, '
        'ERASE/DIM lists and multi-statement lines that fail after part of their work, console INPUT/LINE INPUT '
        'typed through the simulated input queue at squeezed free memory, suspend/resume restarts, typed program '
        'lines / DELETE / RENUM / MERGE of a scratch-disk file / RUN with variables pointing into program text, '
        'CLEAR ,n,m and FRE under a per-run memory limit and a per-run forced-collection plan, with read-back '
        'of every variable after every op and VARPTR/PEEK sweeps; distinct = distinct (op kind, outcome, '
        'live-string bucket, model-free bucket, collections bucket, arrays bucket) tuples; non-trivial = at '
        'least one statement executed and all variables read back')
REAL = ['pcbasic.basic (whole package)', 'pcbasic.basic.memory.{memory,scalars,arrays}',
        'pcbasic.basic.values.strings (string space, collector)', 'pcbasic.basic.machine (PEEK)',
        'pcbasic.basic.implementation (console INPUT / LINE INPUT)', 'Session.suspend/resume (pickled state file)',
        'host tmpfs for the FIELD file, the MERGE file and the state file']
STUB = ['wall clock (simulated)', 'interface queues (simulated, recording; typed input arrives as stream signals)',
        'collector trigger: DataSegment.check_free wrapped to force collections at a case-recorded subset of calls']
ASSUMPTIONS = [
    'record sizes follow the documented GW-BASIC layouts (name header 4+max(0,len-2) bytes; arrays +3+2*rank)',
    'free-space equation is calibrated on the empty state of the same session (F0 = FRE("") with no variables)',
    'MID$ statement with identical source and target copies byte by byte left to right (GW-BASIC behaviour)',
]
BATCH = 20

SIZES = {'%': 2, '!': 4, '#': 8, '$': 3}
MK = {'%': b'MKI$', '!': b'MKS$', '#': b'MKD$'}

KEYWORDS = set('''ABS AND ASC ATN AUTO BEEP BLOAD BSAVE CALL CALLS CDBL CHAIN CHDIR CHR CINT CIRCLE CLEAR CLOSE
CLS COLOR COM COMMON CONT COS CSNG CSRLIN CVD CVI CVS DATA DATE DEF DEFDBL DEFINT DEFSNG DEFSTR DELETE DIM
DRAW EDIT ELSE END ENVIRON EOF EQV ERASE ERDEV ERL ERR ERROR EXP EXTERR FIELD FILES FIX FN FOR FRE GET GOSUB
GOTO HEX IF IMP INKEY INP INPUT INSTR INT IOCTL KEY KILL LCOPY LEFT LEN LET LINE LIST LLIST LOAD LOC LOCATE
LOCK LOF LOG LPOS LPRINT LSET MERGE MID MKD MKDIR MKI MKS MOD MOTOR NAME NEW NEXT NOT OCT OFF ON OPEN OPTION
OR OUT PAINT PALETTE PCOPY PEEK PEN PLAY PMAP POINT POKE POS PRESET PRINT PSET PUT RANDOMIZE READ REM RENUM
RESET RESTORE RESUME RETURN RIGHT RMDIR RND RSET RUN SAVE SCREEN SGN SHELL SIN SOUND SPACE SPC SQR STEP STICK
STOP STR STRIG STRING SWAP SYSTEM TAB TAN THEN TIME TIMER TO TROFF TRON UNLOCK USING USR VAL VARPTR VIEW WAIT
WEND WHILE WIDTH WINDOW WRITE XOR NOISE TERM'''.split())
BAD_PREFIX = ('FN', 'USR', 'SPC', 'TAB', 'GO', 'REM', 'DATA', 'ELSE')

MAXLINE = 250


def quick_runs(prop):
    return {'C10': 2000, 'C11': 1000, 'C12': 1500}.get(prop, 1000)


###############################################################################
# record sizes (documented layouts)

def rec_scalar(name):
    """[type][c1][c2][n more][more chars...][value]"""
    return 4 + max(0, len(name) - 3) + SIZES[name[-1]]


def n_elems(dims, base):
    n = 1
    for d in dims:
        n *= (d + 1 - base)
    return n


def rec_array(name, dims, base):
    """name header + [2 bytes size][1 byte rank][2 bytes per dimension] + data"""
    return 4 + max(0, len(name) - 3) + 3 + 2 * len(dims) + n_elems(dims, base) * SIZES[name[-1]]


###############################################################################
# rendering of refs and expressions as BASIC text

def ref_txt(r):
    if r['i'] is None:
        return r['n']
    return '%s(%s)' % (r['n'], ','.join(str(x) for x in r['i']))


def num_txt(x, fn=None):
    if isinstance(x, dict):
        return expr_txt(x, fn)
    return str(x)


def expr_txt(e, fn=None):
    """fn: the DEF FN definition being rendered (for 'par' nodes)."""
    k = e['k']
    if k == 'lit':
        return '"%s"' % e['v']
    if k == 'int':
        return str(e['v'])
    if k == 'par':
        return fn['p'][e['i']]
    if k == 'var':
        return ref_txt(e['r'])
    if k == 'cat':
        return '%s+%s' % (expr_txt(e['a'], fn), expr_txt(e['b'], fn))
    if k == 'left':
        return 'LEFT$(%s,%s)' % (expr_txt(e['s'], fn), num_txt(e['n'], fn))
    if k == 'right':
        return 'RIGHT$(%s,%s)' % (expr_txt(e['s'], fn), num_txt(e['n'], fn))
    if k == 'mid':
        if e.get('n') is None:
            return 'MID$(%s,%s)' % (expr_txt(e['s'], fn), num_txt(e['p'], fn))
        return 'MID$(%s,%s,%s)' % (expr_txt(e['s'], fn), num_txt(e['p'], fn), num_txt(e['n'], fn))
    if k == 'string':
        return 'STRING$(%s,%s)' % (num_txt(e['n'], fn), num_txt(e['c'], fn))
    if k == 'strings':
        return 'STRING$(%s,%s)' % (num_txt(e['n'], fn), expr_txt(e['s'], fn))
    if k == 'space':
        return 'SPACE$(%s)' % num_txt(e['n'], fn)
    if k == 'chr':
        return 'CHR$(%s)' % num_txt(e['c'], fn)
    if k == 'str':
        return 'STR$(%s)' % num_txt(e['v'], fn)
    if k == 'fn':
        return '%s(%s)' % (e['f'], ','.join(expr_txt(a, fn) for a in e['a']))
    if k == 'len':
        return 'LEN(%s)' % expr_txt(e['s'], fn)
    if k == 'asc':
        return 'ASC(%s)' % expr_txt(e['s'], fn)
    if k == 'instr':
        return 'INSTR(%s,%s)' % (expr_txt(e['a'], fn), expr_txt(e['b'], fn))
    raise K.HarnessError('unknown expression node %r' % (k,))


###############################################################################
# the reference model

class Ctx(object):
    """What evaluating one statement would do/need, collected by the model."""

    def __init__(self):
        self.errs = set()      # the statement must fail with one of these (if non-empty)
        self.opt = set()       # the statement may fail with one of these (unspecified corners)
        self.inter = 0         # bytes of all intermediate string results
        self.newrec = 0        # bytes of variable/array records that may have to be allocated
        self.auto = {}         # array name -> rank that would be auto-dimensioned
        self.newsc = []        # scalars created for certain on success
        self.sc_refs = set()   # scalar names referenced


def is_str(name):
    return name[-1] == '$'


class Model(object):

    def __init__(self, cfg):
        self.cfg = cfg
        self.fns = {f['f']: f for f in cfg.get('fns', [])}
        self.reclen = cfg.get('field', 0)
        self.reset(first=True)
        self.base = 0
        self.mem = cfg['max_memory']
        self.stack = None           # unknown until the first CLEAR ,n,m
        self.f0 = None              # FRE("") of the empty state
        self.fns_ok = False
        self.field_ok = False
        self.prog = {}              # stored program: line number -> {'k': 'base'|'def'|'let'|'rem'|'stop', ...}

    def reset(self, first=False):
        self.sc = {}
        self.ar = {}
        self.fbuf = bytearray(self.reclen)

    def snapshot(self):
        """Variables of the model (slots are never modified in place, the FIELD buffer is)."""
        return (dict(self.sc), [(k, v['d'], dict(v['e'])) for k, v in self.ar.items()], bytes(self.fbuf))

    def restore(self, snap):
        self.sc = dict(snap[0])
        self.ar = {k: {'d': d, 'e': dict(e)} for k, d, e in snap[1]}
        self.fbuf = bytearray(snap[2])

    # -- slots ------------------------------------------------------------

    def sval(self, slot):
        """bytes of a string slot."""
        if slot is None:
            return b''
        if slot[0] == 'f':
            return bytes(self.fbuf[slot[1]:slot[1] + slot[2]])
        return slot[1]

    def default(self, name):
        return ['s', b''] if is_str(name) else 0

    def get_slot(self, r):
        if r['i'] is None:
            return self.sc.get(r['n'])
        a = self.ar.get(r['n'])
        if a is None:
            return None
        return a['e'].get(tuple(r['i']))

    def get_value(self, r):
        s = self.get_slot(r)
        if is_str(r['n']):
            return self.sval(s)
        return 0 if s is None else s

    def put(self, r, slot):
        if r['i'] is None:
            self.sc[r['n']] = slot
        else:
            self.ar[r['n']]['e'][tuple(r['i'])] = slot

    def exists(self, r):
        if r['i'] is None:
            return r['n'] in self.sc
        return r['n'] in self.ar

    def in_bounds(self, r):
        """Element ref addresses an element of an existing array."""
        a = self.ar.get(r['n'])
        if a is None or len(r['i']) != len(a['d']):
            return False
        return all(self.base <= s <= d for s, d in zip(r['i'], a['d']))

    def make_array(self, name, dims):
        self.ar[name] = {'d': list(dims), 'e': {}}

    def apply_auto(self, ctx):
        for name, rank in ctx.auto.items():
            if name not in self.ar:
                self.make_array(name, [10] * rank)
        for n in ctx.newsc:
            if n not in self.sc:
                self.sc[n] = self.default(n)

    # -- accounting -------------------------------------------------------

    def records(self):
        t = sum(rec_scalar(n) for n in self.sc)
        t += sum(rec_array(n, a['d'], self.base) for n, a in self.ar.items())
        return t

    def all_slots(self):
        for n, s in self.sc.items():
            if is_str(n):
                yield s
        for n, a in self.ar.items():
            if is_str(n):
                for s in a['e'].values():
                    yield s

    def live(self):
        """(bytes certainly in string space, bytes possibly in string space, exact?)"""
        sure = maybe = 0
        exact = True
        for s in self.all_slots():
            if s[0] == 's':
                sure += len(s[1])
            elif s[0] in ('c', 'u'):
                if len(s[1]):
                    exact = False
                if s[0] == 'u':
                    maybe += len(s[1])
        return sure, sure + maybe, exact

    def n_live(self):
        return sum(1 for s in self.all_slots() if s[0] != 'f' and len(s[1]))

    def free_bounds(self):
        """(lower, upper, exact?) for FRE after a collection; None if not calibrated."""
        if self.f0 is None:
            return None
        sure, maybe, exact = self.live()
        rec = self.records()
        return self.f0 - rec - maybe, self.f0 - rec - sure, exact

    def tight(self, need):
        fb = self.free_bounds()
        return fb is None or fb[0] < need

    # -- expression evaluation -------------------------------------------

    def check_subs(self, name, subs, ctx):
        a = self.ar.get(name)
        if a is None:
            rank = ctx.auto.get(name)
            if rank is None:
                rank = ctx.auto[name] = len(subs)
                ctx.newrec += rec_array(name, [10] * rank, self.base)
            dims = [10] * rank
        else:
            dims = a['d']
        bad = set()
        if len(subs) != len(dims):
            bad.add(9)
        for s in subs:
            if s < 0:
                bad.add(5)
        for s, d in zip(subs, dims):
            if 0 <= s < self.base or s > d:
                bad.add(9)
        ctx.errs |= bad
        return not bad

    def read_ref(self, r, ctx):
        name = r['n']
        if r['i'] is None:
            ctx.sc_refs.add(name)
            return self.get_value(r)
        if not self.check_subs(name, r['i'], ctx):
            return b'' if is_str(name) else 0
        if name not in self.ar:
            return b'' if is_str(name) else 0
        return self.get_value(r)

    def num(self, x, ctx, params):
        if isinstance(x, dict):
            return self.ev(x, ctx, params)
        return x

    def rng(self, v, lo, hi, ctx):
        if not lo <= v <= hi:
            ctx.errs.add(5)
            return False
        return True

    def ev(self, e, ctx, params=None):
        k = e['k']
        if k == 'lit':
            v = b(e['v'])
            ctx.inter += len(v)
            return v
        if k == 'int':
            return e['v']
        if k == 'par':
            return params[e['i']]
        if k == 'var':
            return self.read_ref(e['r'], ctx)
        if k == 'cat':
            x = self.ev(e['a'], ctx, params)
            y = self.ev(e['b'], ctx, params)
            if len(x) + len(y) > 255:
                ctx.errs.add(15)
                # a+b+c is evaluated from the left whatever the shape of this tree: before String too long
                # is raised, partial results of up to 255 bytes each may have been allocated
                ctx.inter += 510
                return b''
            ctx.inter += len(x) + len(y)
            return x + y
        if k in ('left', 'right'):
            s = self.ev(e['s'], ctx, params)
            n = self.num(e['n'], ctx, params)
            if not self.rng(n, 0, 255, ctx):
                return b''
            v = s[:n] if k == 'left' else (s[-n:] if n else b'')
            ctx.inter += len(v)
            return v
        if k == 'mid':
            s = self.ev(e['s'], ctx, params)
            p = self.num(e['p'], ctx, params)
            n = e.get('n')
            ok = self.rng(p, 1, 255, ctx)
            if n is not None:
                n = self.num(n, ctx, params)
                ok = self.rng(n, 0, 255, ctx) and ok
            if not ok:
                return b''
            v = s[p - 1:] if n is None else s[p - 1:p - 1 + n]
            ctx.inter += len(v)
            return v
        if k == 'string':
            n = self.num(e['n'], ctx, params)
            c = self.num(e['c'], ctx, params)
            ok = self.rng(n, 0, 255, ctx)
            ok = self.rng(c, 0, 255, ctx) and ok
            if not ok:
                return b''
            ctx.inter += n + 1
            return bytes([c]) * n
        if k == 'strings':
            n = self.num(e['n'], ctx, params)
            s = self.ev(e['s'], ctx, params)
            if not self.rng(n, 0, 255, ctx):
                return b''
            if not s:
                # unspecified: STRING$(n, "") - GW-BASIC raises Illegal function call
                ctx.opt.add(5)
                return b''
            ctx.inter += n + 1
            return s[:1] * n
        if k == 'space':
            n = self.num(e['n'], ctx, params)
            if not self.rng(n, 0, 255, ctx):
                return b''
            ctx.inter += n
            return b' ' * n
        if k == 'chr':
            c = self.num(e['c'], ctx, params)
            if not self.rng(c, 0, 255, ctx):
                return b''
            ctx.inter += 1
            return bytes([c])
        if k == 'str':
            v = self.num(e['v'], ctx, params)
            r = (b' ' if v >= 0 else b'-') + str(abs(v)).encode('ascii')
            ctx.inter += len(r)
            return r
        if k == 'len':
            return len(self.ev(e['s'], ctx, params))
        if k == 'asc':
            s = self.ev(e['s'], ctx, params)
            if not s:
                ctx.errs.add(5)
                return 0
            return s[0]
        if k == 'instr':
            x = self.ev(e['a'], ctx, params)
            y = self.ev(e['b'], ctx, params)
            if not x:
                return 0
            if not y:
                return 1
            return x.find(y) + 1
        if k == 'fn':
            f = self.fns.get(e['f'])
            args = [self.ev(a, ctx, params) for a in e['a']]
            if f is None or not self.fns_ok or len(args) != len(f['p']):
                ctx.errs.add(18)
                return b''
            for pn in f['p']:
                ctx.sc_refs.add(pn)
                if pn not in self.sc and pn not in ctx.newsc:
                    ctx.newsc.append(pn)
                    ctx.newrec += rec_scalar(pn)
            return self.ev(f['body'], ctx, args)
        raise K.HarnessError('unknown expression node %r' % (k,))


###############################################################################
# per-op plans: what the statement is, what it needs, and what it does to the model

class Plan(object):

    def __init__(self, kind):
        self.kind = kind
        self.skip = None        # reason string if the op is not executed in this state
        self.stmt = None        # BASIC text (latin-1 str)
        self.ctx = Ctx()
        self.commit = None      # callable applying the statement to the model
        self.alts = None        # alternative committed values [(slot), ...] for unspecified corners
        self.target = None      # ref written by the statement
        self.touched = []       # refs whose storage the op is about (PEEK focus)
        self.need = 0
        self.lenient = False    # outcome ok/error both accepted, model follows (unspecified corner)
        self.value = None       # probe: the value the expression must have

    def finish(self):
        c = self.ctx
        self.need = c.newrec + 2 * c.inter + 48
        if self.stmt is not None and len(self.stmt) > MAXLINE:
            self.skip = 'line-too-long'
        return self


def justify(val, length, right):
    val = val[:length]
    return val.rjust(length) if right else val.ljust(length)


class Planner(object):
    """Turns an op into a Plan against the current model state (never raises on any op/state)."""

    def __init__(self, model, in_program=False):
        self.m = model
        self.in_program = in_program

    def plan(self, op):
        fn = getattr(self, 'p_' + op['op'], None)
        if fn is None:
            raise K.HarnessError('unknown op %r' % (op,))
        p = Plan(op['op'])
        fn(op, p)
        return p.finish()

    # the target of an assignment-like statement
    def _target(self, r, p):
        m = self.m
        c = p.ctx
        p.target = r
        p.touched.append(r)
        if r['i'] is None:
            c.sc_refs.add(r['n'])
            if r['n'] not in m.sc:
                c.newsc.append(r['n'])
                c.newrec += rec_scalar(r['n'])
        else:
            m.check_subs(r['n'], r['i'], c)

    def p_let(self, op, p):
        m = self.m
        r = op['t']
        c = p.ctx
        self._target(r, p)
        val = m.ev(op['e'], c)
        p.stmt = '%s=%s' % (ref_txt(r), expr_txt(op['e']))
        if is_str(r['n']):
            if not isinstance(val, bytes):
                p.skip = 'type'
                return
            c.inter += len(val)
            origin = 'c' if (self.in_program and op['e']['k'] == 'lit') else 's'
            if op['e']['k'] == 'var' and val:
                src = m.get_slot(op['e']['r']) if m.exists(op['e']['r']) else None
                if src is not None and src[0] in ('c', 'u'):
                    # unspecified: whether a string that lives in program text is copied on assignment
                    origin = 'u'
            slot = [origin, val]
        else:
            if isinstance(val, bytes):
                p.skip = 'type'
                return
            if r['n'][-1] == '%' and not -32768 <= val <= 32767:
                c.errs.add(6)
            slot = val

        def commit():
            m.apply_auto(c)
            m.put(r, slot)
        p.commit = commit

    def p_probe(self, op, p):
        """Evaluate an expression without storing it (temporaries without an owner)."""
        m = self.m
        val = m.ev(op['e'], p.ctx)
        p.stmt = expr_txt(op['e'])
        p.value = val
        c = p.ctx
        p.commit = lambda: m.apply_auto(c)

    def p_mid(self, op, p):
        m = self.m
        r = op['t']
        c = p.ctx
        if not is_str(r['n']):
            p.skip = 'type'
            return
        self._target(r, p)
        st, n = op['st'], op.get('n')
        e = op['e']
        selfsrc = e['k'] == 'var' and e['r'] == r
        val = m.ev(e, c)
        if not isinstance(val, bytes):
            p.skip = 'type'
            return
        if n is None:
            p.stmt = 'MID$(%s,%d)=%s' % (ref_txt(r), st, expr_txt(e))
            num = 255
        else:
            p.stmt = 'MID$(%s,%d,%d)=%s' % (ref_txt(r), st, n, expr_txt(e))
            num = n
        slot = m.get_slot(r) if not c.errs and m.exists(r) else None
        cur = m.sval(slot)
        if not 0 <= num <= 255:
            c.errs.add(5)
        elif num > 0 and not 1 <= st <= len(cur):
            c.errs.add(5)
        elif num == 0 and not 1 <= st <= len(cur):
            # unspecified: zero-length replacement at an illegal position
            c.opt.add(5)
        if not 0 <= st <= 255:
            (c.errs if num > 0 else c.opt).add(5)
        if c.errs:
            p.commit = lambda: None
            return
        off = st - 1
        num = min(num, len(val))
        if off + num > len(cur):
            num = len(cur) - off
        c.inter += len(cur)
        if num <= 0:
            p.commit = lambda: m.apply_auto(c)
            return
        plain = bytearray(cur)
        plain[off:off + num] = val[:num]
        plain = bytes(plain)
        results = [plain]
        if selfsrc:
            fwd = bytearray(cur)
            for i in range(num):
                fwd[off + i] = fwd[i]
            fwd = bytes(fwd)
            if slot is not None and slot[0] == 's':
                results = [fwd]
            elif fwd != plain:
                # unspecified: overlap semantics when the target is a program literal / FIELD string
                results = [fwd, plain]

        def commit(choice=0):
            m.apply_auto(c)
            new = results[choice]
            if slot is not None and slot[0] == 'f':
                m.fbuf[slot[1]:slot[1] + slot[2]] = new
            else:
                # a program literal is copied to string space before it is modified
                origin = 's' if (slot is None or slot[0] == 's') else 'u'
                m.put(r, [origin, new])
        p.commit = commit
        if len(results) > 1:
            p.alts = len(results)

    def p_lset(self, op, p):
        m = self.m
        r = op['t']
        c = p.ctx
        if not is_str(r['n']):
            p.skip = 'type'
            return
        self._target(r, p)
        val = m.ev(op['e'], c)
        if not isinstance(val, bytes):
            p.skip = 'type'
            return
        p.stmt = '%s %s=%s' % ('RSET' if op.get('r') else 'LSET', ref_txt(r), expr_txt(op['e']))
        slot = m.get_slot(r) if not c.errs and m.exists(r) else None
        cur = m.sval(slot)
        new = justify(val, len(cur), bool(op.get('r')))
        c.inter += len(cur)

        def commit():
            m.apply_auto(c)
            if slot is None:
                # a variable that holds no string keeps length 0: nothing to justify into
                return
            if slot[0] == 'f':
                m.fbuf[slot[1]:slot[1] + slot[2]] = new
            else:
                # a program literal is copied to string space before it is modified
                origin = 's' if slot[0] == 's' else 'u'
                m.put(r, [origin, new])
        p.commit = commit

    def p_swap(self, op, p):
        m = self.m
        x, y = op['a'], op['b']
        for r in (x, y):
            # unspecified: SWAP with a variable that was never assigned
            if r['i'] is None:
                if r['n'] not in m.sc:
                    p.skip = 'swap-unassigned'
                    return
            elif not m.in_bounds(r):
                p.skip = 'swap-unassigned'
                return
        p.stmt = 'SWAP %s,%s' % (ref_txt(x), ref_txt(y))
        if x['n'][-1] != y['n'][-1]:
            # two existing variables of different types: Type mismatch, nothing is swapped
            p.ctx.errs.add(13)
            p.commit = lambda: None
            return
        p.touched = [x, y]

        def commit():
            sx, sy = m.get_slot(x), m.get_slot(y)
            dx = m.default(x['n'])
            m.put(x, sy if sy is not None else dx)
            m.put(y, sx if sx is not None else m.default(y['n']))
        p.commit = commit

    def p_dim(self, op, p):
        m = self.m
        name, dims = op['n'], op['d']
        c = p.ctx
        p.stmt = 'DIM %s(%s)' % (name, ','.join(str(x) for x in dims))
        if name in m.ar:
            c.errs.add(10)
        if any(x < 0 for x in dims):
            c.errs.add(5)
        elif any(x < m.base for x in dims):
            c.errs.add(9)
        if not c.errs:
            c.newrec += rec_array(name, dims, m.base)
            if c.newrec > 65535:
                # no data segment holds it, whatever the memory size of the run
                c.errs.add(7)
        p.touched = []
        p.commit = lambda: m.make_array(name, dims)

    def p_erase(self, op, p):
        m = self.m
        name = op['n']
        p.stmt = 'ERASE %s' % name
        if name not in m.ar:
            p.ctx.errs.add(5)
        p.commit = lambda: m.ar.pop(name, None)

    def p_optbase(self, op, p):
        m = self.m
        n = op['b']
        p.stmt = 'OPTION BASE %d' % n
        if n == m.base:
            # unspecified: repeating the current base
            p.lenient = True
            p.ctx.opt.add(10)
            p.commit = lambda: None
        elif m.ar:
            p.ctx.errs.add(10)
            p.commit = lambda: None
        else:
            # unspecified: a different base after an earlier OPTION BASE / after all arrays were erased
            p.lenient = True
            p.ctx.opt.add(10)

            def commit():
                m.base = n
            p.commit = commit

    def p_clear(self, op, p):
        m = self.m
        mem, stack = op.get('mem'), op.get('stack')
        if mem is None:
            p.stmt = 'CLEAR'
        else:
            # unspecified: growing the data segment again
            if mem > m.mem or stack is None or mem < 1 or stack < 1:
                p.skip = 'clear-size'
                return
            p.stmt = 'CLEAR ,%d,%d' % (mem, stack)
            # (the floor is an estimate made when the case was generated: add what typed and merged lines put on top)
            grown = sum(e.get('len', 0) for e in m.prog.values())
            if mem < op.get('floor', 0) + stack + grown:
                # sizes that may not hold the program and the stack: CLEAR may refuse them (Out of memory);
                # the model does not know the exact limit. What it leaves must be a consistent session.
                p.lenient = True
                p.ctx.opt.add(7)

        def commit():
            if m.fns_ok:
                # the DEF FN entries inside F0 are gone now: calibrate again
                m.f0 = None
            m.reset()
            m.fns_ok = False
            m.field_ok = False
            if mem is not None:
                if m.f0 is not None and m.stack is not None:
                    m.f0 += (mem - m.mem) - (stack - m.stack)
                else:
                    m.f0 = None
                m.mem, m.stack = mem, stack
        p.commit = commit

    def p_field(self, op, p):
        m = self.m
        if not m.field_ok or not m.reclen:
            p.skip = 'no-field'
            return
        total = 0
        parts = []
        for width, r in op['f']:
            if not is_str(r['n']) or width < 0 or width > 255:
                p.skip = 'field-arg'
                return
            if r['i'] is not None and not m.in_bounds(r):
                p.skip = 'field-elem'
                return
            if r['i'] is None and r['n'] not in m.sc:
                p.ctx.newsc.append(r['n'])
                p.ctx.newrec += rec_scalar(r['n'])
            parts.append('%d AS %s' % (width, ref_txt(r)))
            total += width
        if total > m.reclen or not parts:
            p.skip = 'field-overflow'
            return
        p.stmt = 'FIELD #1,' + ','.join(parts)
        p.touched = [r for _, r in op['f']]
        c = p.ctx

        def commit():
            m.apply_auto(c)
            off = 0
            for width, r in op['f']:
                m.put(r, ['f', off, width])
                off += width
        p.commit = commit

    def p_fre(self, op, p):
        p.stmt = 'FRE("")' if op.get('s') else 'FRE(0)'

    def p_squeeze(self, op, p):
        p.stmt = ''

    def p_restart(self, op, p):
        p.stmt = ''

    def p_pline(self, op, p):
        p.stmt = ''

    p_pdelete = p_prenum = p_pmerge = p_prun = p_pline

    def p_fill(self, op, p):
        if op['n'] not in self.m.ar:
            p.skip = 'no-array'
        p.stmt = ''


###############################################################################
# compound statements: several units of work in one direct line, where a later unit may fail after
# earlier ones have done theirs (ERASE a,b,c / DIM a(..),b(..) / stmt:stmt:stmt)

COMPOUND = ('merase', 'mdim', 'line', 'input')
PARTKINDS = ('let', 'mid', 'lset', 'swap', 'dim', 'erase', 'merase', 'mdim')


def expand(part):
    """-> (units, tail): the simple ops a part consists of and text after them that cannot be parsed."""
    k = part['op']
    if k == 'merase':
        return [{'op': 'erase', 'n': n} for n in part['n']], part.get('tail', '')
    if k == 'mdim':
        return [{'op': 'dim', 'n': n, 'd': d} for n, d in part['a']], part.get('tail', '')
    if k == 'input':
        # typed values are assigned from the left, like a row of LETs of constants
        items = part['v'][:1] if part.get('line') else part['v']
        return [{'op': 'let', 't': r, 'e': {'k': 'int' if isinstance(v, int) else 'lit', 'v': v}} for r, v in items], ''
    return [part], ''


def typed_text(part):
    """What the user types for an 'input' op (None: cannot be typed as one unambiguous line)."""
    if part.get('line'):
        r, v = part['v'][0]
        if not isinstance(v, str) or not is_str(r['n']) or any(not 32 <= ord(ch) < 127 for ch in v):
            return None
        if v != v.rstrip():
            # unspecified: blanks at the end of a typed line (the line is taken from the screen)
            return None
        return v
    out = []
    for r, v in part['v']:
        if is_str(r['n']) != isinstance(v, str):
            return None
        if isinstance(v, int):
            out.append(str(v))
            continue
        if not v or '"' in v or any(not 32 <= ord(ch) < 127 for ch in v):
            return None
        out.append('"%s"' % v if (',' in v or v != v.strip() or ':' in v) else v)
    return ','.join(out)


def part_text(part, plans):
    k = part['op']
    if k == 'merase':
        return ('ERASE ' + ','.join(part['n'])).rstrip() + part.get('tail', '')
    if k == 'mdim':
        return ('DIM ' + ','.join('%s(%s)' % (n, ','.join(str(x) for x in d)) for n, d in part['a'])).rstrip() + part.get('tail', '')
    if k == 'input':
        items = part['v'][:1] if part.get('line') else part['v']
        return ('LINE INPUT ' if part.get('line') else 'INPUT ') + ','.join(ref_txt(r) for r, _ in items)
    return plans[0].stmt


class Comp(object):
    """
    The units of a compound statement planned one after the other against the evolving model.
    plans[k] was planned in states[k] (the model after k units); the last plan is the failing one if
    fail is a Plan; fail == 'stx' if the text after the last unit cannot be parsed (Syntax error after
    all units have run). GW-BASIC and PC-BASIC both execute such lists as they parse them, so the
    units before the failing one have taken effect.
    """

    def __init__(self):
        self.text = None
        self.plans = []
        self.states = []
        self.fail = None
        self.names = []      # every array named in the statement
        self.typed = None    # 'input': the line the user types


def plan_compound(m, op):
    """Plans the statement and leaves the model in the state the statement is modelled to leave."""
    comp = Comp()
    comp.states.append(m.snapshot())
    parts = op.get('parts', []) if op['op'] == 'line' else [op]
    texts = []
    for part in parts:
        if not isinstance(part, dict) or part.get('op') not in (PARTKINDS if op['op'] == 'line' else COMPOUND):
            continue
        if part['op'] == 'input':
            # unspecified: a list with a target that cannot be assigned (subscripts, Overflow -> Redo)
            comp.typed = typed_text(part) if part.get('v') else None
            if comp.typed is None or len(comp.typed) > 240:
                continue
        units, tail = expand(part)
        if part['op'] in ('merase', 'mdim') and not units:
            tail = tail or ' '
        plans, states = [], []
        failed = None
        usable = True
        for u in units:
            pl = Planner(m).plan(u)
            if pl.skip or pl.alts or pl.lenient or pl.ctx.opt or pl.commit is None:
                # unspecified corners stay with the single statements
                usable = False
                break
            plans.append(pl)
            if pl.ctx.errs:
                failed = pl
                if part['op'] == 'input':
                    usable = False
                break
            pl.commit()
            states.append(m.snapshot())
        text = part_text(part, plans) if usable else None
        if not usable or len(':'.join(texts + [text])) > MAXLINE:
            m.restore(comp.states[-1])
            if usable:
                break
            continue
        texts.append(text)
        comp.plans.extend(plans)
        comp.states.extend(states)
        for u in units:
            if u['op'] in ('dim', 'erase') and u['n'] not in comp.names:
                comp.names.append(u['n'])
        for pl in plans:
            for n in sorted(pl.ctx.auto):
                if n not in comp.names:
                    comp.names.append(n)
        if failed is not None:
            comp.fail = failed
            break
        if tail:
            comp.fail = 'stx'
            break
    if texts:
        comp.text = ':'.join(texts)
    return comp


###############################################################################
# the stored program and the statements that change it

PROGOPS = ('pline', 'pdelete', 'prenum', 'pmerge', 'prun')
PROTECTED = ('base', 'def', 'stop')


def build_prelude(m, cfg):
    """
    Program lines of the prelude (OPTION BASE, DEF FNs, the assignments cfg['plets'], STOP); commits the
    assignments to the model (the state after RUN) and fills m.prog. -> (lines, number of the STOP line)
    """
    lines = []
    m.prog = {}
    n = 10
    for f in cfg.get('fns', []):
        lines.append('%d DEF %s(%s)=%s' % (n, f['f'], ','.join(f['p']), expr_txt(f['body'], f)))
        m.prog[n] = {'k': 'def', 'f': f}
        n += 10
    pl = Planner(m, in_program=True)
    for op in cfg.get('plets', []):
        p = pl.plan(op)
        if p.skip or p.ctx.errs or p.ctx.opt:
            continue
        lines.append('%d %s' % (n, p.stmt))
        m.prog[n] = {'k': 'let', 'op': op}
        # the model holds the state after RUN (nothing reads it before)
        p.commit()
        n += 10
    if lines and cfg.get('base') is not None:
        # RUN resets variables; whether it resets OPTION BASE is not our business: say it in the program
        lines.insert(0, '5 OPTION BASE %d' % cfg['base'])
        m.prog[5] = {'k': 'base', 'b': cfg['base']}
    if lines:
        lines.append('%d STOP' % n)
        m.prog[n] = {'k': 'stop'}
    else:
        m.prog = {}
    return lines, n


def model_run(m):
    """RUN of the stored program in the model. -> (ok?, number of the STOP line or None)"""
    snap = (m.snapshot(), m.fns_ok)
    m.reset()
    m.fns_ok = False
    stop = None
    for n in sorted(m.prog):
        e = m.prog[n]
        if e['k'] == 'let':
            p = Planner(m, in_program=True).plan(e['op'])
            if p.skip or p.ctx.errs or p.ctx.opt or p.commit is None:
                m.restore(snap[0])
                m.fns_ok = snap[1]
                return False, None
            p.commit()
        elif e['k'] == 'stop':
            stop = n
            break
    return True, stop


def plan_prog(m, op, cfg):
    """-> (skip reason or None, statement text, errors the statement must fail with, program afterwards, file text)"""
    k = op['op']
    prog = m.prog
    if k == 'pline':
        n, text = int(op['n']), 'REM ' + op.get('text', '')
        if not 0 <= n <= 65000 or prog.get(n, {}).get('k') in PROTECTED:
            return 'protected-line', None, None, None, None
        new = dict(prog)
        new[n] = {'k': 'rem', 'len': len(text) + 8}
        return None, '%d %s' % (n, text), set(), new, None
    if k == 'pdelete':
        n = int(op['n'])
        if n not in prog:
            return None, 'DELETE %d' % n, {5}, prog, None
        if prog[n]['k'] in PROTECTED:
            return 'protected-line', None, None, None, None
        new = dict(prog)
        del new[n]
        return None, 'DELETE %d' % n, set(), new, None
    if k == 'prenum':
        a, inc = int(op.get('new', 10)), int(op.get('inc', 10))
        if not prog or a < 0 or inc < 1 or a + inc * len(prog) > 65000:
            return 'no-program', None, None, None, None
        new = {a + i * inc: prog[n] for i, n in enumerate(sorted(prog))}
        return None, 'RENUM %d,,%d' % (a, inc), set(), new, None
    if k == 'pmerge':
        if not cfg.get('disk') or not op.get('lines'):
            return 'no-disk', None, None, None, None
        new = dict(prog)
        out = []
        for n, text in op['lines']:
            n = int(n)
            if not 0 <= n <= 65000 or prog.get(n, {}).get('k') in PROTECTED:
                return 'protected-line', None, None, None, None
            new[n] = {'k': 'rem', 'len': len(text) + 12}
            out.append('%d REM %s\r\n' % (n, text))
        return None, 'MERGE "C:M.BAS"', set(), new, ''.join(out) + '\x1a'
    raise K.HarnessError('unknown program op %r' % (op,))


###############################################################################
# seam S7: forced collections at a case-recorded subset of check_free calls

_SEAM = [False]


def install_gc_seam():
    if _SEAM[0]:
        return
    from pcbasic.basic.memory import memory as M
    DS = M.DataSegment
    if not hasattr(DS, 'check_free') or not hasattr(DS, '_collect_garbage'):
        raise K.HarnessError('DataSegment.check_free/_collect_garbage not found: seam S7 needs updating')
    orig_check = DS.check_free
    orig_collect = DS._collect_garbage

    def check_free(self, size, err):
        plan = self.__dict__.get('_verif_gc')
        if plan is not None:
            n = plan['calls']
            plan['calls'] = n + 1
            k = plan['every']
            if k and n >= plan['skip'] and (n - plan['skip']) % k == plan['phase'] % k:
                plan['forced'] += 1
                self._collect_garbage()
        return orig_check(self, size, err)

    def _collect_garbage(self):
        plan = self.__dict__.get('_verif_gc')
        if plan is not None and getattr(self, '_allow_collect', True):
            plan['gcs'] += 1
            # coverage statistics only
            try:
                if self.temp_values or any(len(s) for s in self._stack):
                    plan['gc_live_temp'] += 1
            except Exception:
                pass
        return orig_collect(self)

    DS.check_free = check_free
    DS._collect_garbage = _collect_garbage
    _SEAM[0] = True


def attach_gc_plan(driver, gc):
    plan = {'every': int(gc.get('every', 0)), 'phase': int(gc.get('phase', 0)), 'skip': int(gc.get('skip', 0)),
            'calls': 0, 'forced': 0, 'gcs': 0, 'gc_live_temp': 0}
    try:
        driver.s.start()
        mem = driver.s._impl.memory
    except AttributeError:
        raise K.HarnessError('Session._impl.memory not found: seam S7 needs updating')
    mem._verif_gc = plan
    return plan


###############################################################################
# executing a case

def bucket(n):
    if n <= 0:
        return 0
    return min(9, n.bit_length())


def nested(model, name):
    """Model array as the nested list Session.get_variable returns."""
    a = model.ar[name]
    dims = a['d']
    base = model.base
    strs = is_str(name)

    def rec(prefix, rest):
        if not rest:
            s = a['e'].get(tuple(prefix))
            if strs:
                return model.sval(s)
            return 0 if s is None else s
        return [rec(prefix + [i], rest[1:]) for i in range(base, rest[0] + 1)]
    return rec([], dims)


def shape(lst):
    dims = []
    while isinstance(lst, list):
        dims.append(len(lst))
        lst = lst[0] if lst else None
    return dims


class Exec(object):

    def __init__(self, run, driver, model, cfg, prop, gcplan):
        self.run = run
        self.d = driver
        self.m = model
        self.cfg = cfg
        self.prop = prop
        self.gc = gcplan
        self.stop = False
        self.opno = 0
        self.rot = 0
        self.last_kind = 'start'
        self.peek_n = cfg.get('peek_n', 2)
        self.sweep_every = cfg.get('sweep_every', 10)
        self.big_every = 8
        self.had_error = False   # a statement ended in a BASIC error since the last CLEAR

    # -- helpers ----------------------------------------------------------

    def violate(self, props, sig, detail):
        if isinstance(props, str):
            props = (props,)
        for p in props:
            self.run.violate(p, sig, detail)

    def ev(self, text):
        return self.d.eval(b(text))

    def peekn(self, addr, n):
        """n bytes from DS:addr through PEEK; None if a PEEK failed."""
        out = bytearray()
        i = 0
        while i < n:
            k = min(3, n - i)
            a = addr + i
            if a + k - 1 > 65535:
                return None
            if k == 3:
                v = self.ev('PEEK(%d)+256!*PEEK(%d)+65536!*PEEK(%d)' % (a, a + 1, a + 2))
            elif k == 2:
                v = self.ev('PEEK(%d)+256!*PEEK(%d)' % (a, a + 1))
            else:
                v = self.ev('PEEK(%d)' % a)
            if v is None:
                return None
            v = int(v)
            for _ in range(k):
                out.append(v & 255)
                v >>= 8
            i += k
        return bytes(out)

    def peek16(self, addr):
        v = self.peekn(addr, 2)
        return None if v is None else v[0] + 256 * v[1]

    def history(self):
        return 'op %d (%s), gc plan %r, forced so far %d, collections %d' % (
            self.opno, self.last_kind, {k: self.gc[k] for k in ('every', 'phase', 'skip')},
            self.gc['forced'], self.gc['gcs'])

    def oom_is_legit(self, need):
        """
        A statement/evaluation ended in Out of memory / Out of string space. Legitimate if the reference
        model has less than `need` bytes free after collection. Otherwise ask the engine what it believes
        to have free after a collection: if that disagrees with the reference accounting, that is the C10
        finding (reported with the FRE signature) and the failure is its consequence; only if the engine
        itself reports enough free space is the failure spurious.
        """
        m = self.m
        if m.tight(need):
            return True
        v = self.ev('FRE("")')
        if v is None:
            return True
        v = int(v)
        fb = m.free_bounds()
        if v < fb[0]:
            self.fre_report(v, fb)
            return True
        return v < need

    def fre_report(self, v, fb):
        m = self.m
        lo, hi, exact = fb
        if exact and v != lo:
            self.violate('C10', 'fre-after-collection:%s-than-reference:%s' % (
                'less' if v < lo else 'more', 'after-failed-statement' if self.had_error else 'no-failed-statement'),
                         'FRE("") = %d, reference %d = empty-state free %d - records %d - live string bytes %d; %s' % (
                             v, lo, m.f0, m.records(), m.live()[0], self.history()))
        elif not lo <= v <= hi:
            self.violate('C10', 'fre-after-collection:outside-bounds:%s' % ('less' if v < lo else 'more'),
                         'FRE("") = %d, reference bounds [%d, %d] (some strings live in program text); %s' % (
                             v, lo, hi, self.history()))

    # -- setup ------------------------------------------------------------

    def setup(self):
        d, m, cfg, run = self.d, self.m, self.cfg, self.run
        if cfg.get('base') is not None:
            m.base = cfg['base']
        lines, n = build_prelude(m, cfg)
        if not lines and cfg.get('base') is not None:
            r = d.exec(b'OPTION BASE %d' % cfg['base'])
            if r.err is not None:
                self.violate('C12', 'setup:option-base-error', 'OPTION BASE %d in a fresh session -> %r' % (cfg['base'], r))
        if lines:
            for ln in lines:
                r = d.exec(b(ln))
                if r.err is not None:
                    if r.err == 7:
                        run.probe('setup-oom')
                        self.stop = True
                        return
                    raise K.HarnessError('prelude line rejected: %r -> %r' % (ln, r))
        if lines:
            r = d.exec(b'RUN')
            want = b'Break in %d' % n
            if want not in r.out or r.errs:
                if r.err in (7, 14):
                    run.probe('setup-oom')
                    self.stop = True
                    return
                self.violate(self.prop, 'setup:prelude-run', 'prelude %r -> %r' % (lines, r))
                self.stop = True
                return
            self.after_run()
        if cfg.get('field'):
            r = d.exec(b'OPEN "R",#1,"C:F.DAT",%d' % cfg['field'])
            if r.err is not None:
                if r.err == 7:
                    run.probe('setup-oom')
                    self.stop = True
                    return
                raise K.HarnessError('cannot open the FIELD file: %r' % (r,))
            m.field_ok = True
        f0 = self.ev('FRE("")')
        if f0 is None:
            run.probe('setup-oom')
            self.stop = True
            return
        # empty-state free space: what FRE("") would be without the variables the prelude made
        m.f0 = int(f0) + m.records() + m.live()[0]
        self.readback(None, full=True)

    # -- one op -----------------------------------------------------------

    def step(self, i, op):
        m, run = self.m, self.run
        self.opno = i
        kind = op['op']
        self.last_kind = kind
        fb = m.free_bounds()
        self._state = (kind, bucket(m.n_live()), bucket(fb[0]) if fb else -1, bucket(self.gc['gcs']), min(3, len(m.ar)))
        if kind in COMPOUND:
            self.do_compound(op)
            return
        if kind == 'squeeze':
            self.do_squeeze(op)
            return
        if kind == 'restart':
            self.do_restart(op)
            return
        if kind in PROGOPS:
            self.do_prog(op)
            return
        plan = Planner(m).plan(op)
        if plan.skip:
            run.probe('skipped:%s:%s' % (kind, plan.skip))
            return
        if kind == 'fre':
            self.do_fre(op)
            return
        if kind == 'fill':
            self.do_fill(op)
            plan.touched = [{'n': op['n'], 'i': None, 'all': True}]
        elif kind == 'probe':
            self.do_probe(op, plan)
        else:
            r = self.d.exec(b(plan.stmt))
            self.judge(op, plan, r)
        if self.stop:
            return
        audit = bool(op.get('audit'))
        self.readback(plan, full=audit)
        if self.stop:
            return
        self.peeks(plan, full=audit, deep=audit)

    # -- memory pressure and restarts ---------------------------------------------

    def do_squeeze(self, op):
        """
        Turn free memory into garbage until FRE(0) (no collection) is at most op['to'], by assigning
        STRING$(k, "g") to the scalar op['t'] again and again: ordinary modelled assignments whose number
        and sizes follow the FRE(0) the engine reports. The next allocation then has to collect.
        """
        m, run = self.m, self.run
        name = op['t']
        if not is_str(name):
            run.probe('skipped:squeeze:type')
            return
        to = max(1, int(op['to']))
        last = None
        for step in range(48):
            f = self.ev('FRE(0)')
            if f is None:
                self.had_error = True
                break
            f = int(f)
            if f <= to:
                run.probe('squeezed')
                break
            if f - to > (48 - step) * 255:
                run.probe('skipped:squeeze:too-much-free')
                break
            let = {'op': 'let', 't': {'n': name, 'i': None}, 'e': {'k': 'string', 'n': min(255, f - to), 'c': 103}}
            last = Planner(m).plan(let)
            r = self.d.exec(b(last.stmt))
            self.judge(let, last, r)
            if self.stop or r.err is not None:
                break
        run.state(*(self._state + (last is not None,)))
        if self.stop or last is None:
            return
        self.readback(last)

    def do_restart(self, op):
        """Suspend the session to a file, close it, resume from the file: nothing BASIC-visible changes."""
        run = self.run
        if self.cfg.get('field'):
            # unspecified here: open files across a restart
            run.probe('skipped:restart:file-open')
            return
        path = os.path.join(run.make_scratch(), 'mem-%d.state' % self.opno)
        self.d = suspend_resume(self.d, path)
        try:
            self.d.s._impl.memory._verif_gc = self.gc
        except AttributeError:
            raise K.HarnessError('Session._impl.memory not found: seam S7 needs updating')
        run.state(*(self._state + ('restarted',)))
        run.probe('restarts')
        plan = Plan('restart')
        plan.stmt = '(suspend, close, resume)'
        self.readback(plan, full=True)
        if self.stop:
            return
        self.peeks(plan, full=bool(op.get('audit')))

    # -- statements that change the stored program ----------------------------------

    def do_prog(self, op):
        """
        A typed program line (new or replacing one), DELETE, RENUM, MERGE of an ASCII file, RUN.
        unspecified: whether a statement that changes the program clears the variables (a typed line,
        DELETE and MERGE do in GW-BASIC and PC-BASIC, RENUM does not). Afterwards EITHER every variable is
        gone (scalars have no address and read empty/0, arrays are not dimensioned) OR every variable is
        there with its value and passes the complete audit.
        """
        m, run, cfg = self.m, self.run, self.cfg
        kind = op['op']
        if cfg.get('field'):
            # unspecified here: open files and FIELD variables across program changes
            run.probe('skipped:%s:file-open' % kind)
            return
        if kind == 'prun':
            self.do_prun(op)
            return
        skip, stmt, errs, newprog, ftext = plan_prog(m, op, cfg)
        if skip:
            run.probe('skipped:%s:%s' % (kind, skip))
            return
        if len(stmt) > MAXLINE:
            run.probe('skipped:%s:line-too-long' % kind)
            return
        plan = Plan(kind)
        plan.stmt = stmt
        if ftext is not None:
            root = os.path.join(run.make_scratch(), 'c')
            os.makedirs(root, exist_ok=True)
            with open(os.path.join(root, 'M.BAS'), 'wb') as f:
                f.write(b(ftext))
        r = self.d.exec(b(stmt))
        err = r.err
        run.state(*(self._state + ('ok' if err is None else 'err', bucket(len(m.prog)))))
        if err is None and errs:
            self.violate(self.prop, 'missing-error:%s:expected-%s' % (kind, '/'.join(str(x) for x in sorted(errs))),
                         '%r succeeded, model expects error %s; %s' % (stmt, sorted(errs), self.history()))
            self.stop = True
            return
        if err is not None:
            self.had_error = True
            if err in errs:
                run.probe('stmt-error-as-modelled')
                self.readback(plan, full=True)
                return
            if err in (7, 14):
                # the program may have been changed in part: not modelled
                run.probe('abandon:program-change-out-of-memory')
            else:
                self.violate(self.prop, 'unexpected-error:%s:err%d' % (kind, err),
                             '%r -> %r, model expects success; %s' % (stmt, r, self.history()))
            self.stop = True
            return
        run.probe('stmt-ok')
        m.prog = newprog
        self.after_program_change(plan)

    def after_program_change(self, plan):
        m, run, d = self.m, self.run, self.d
        scalars, arrays = list(m.sc), list(m.ar)
        gone = 0
        for n in scalars:
            if self.ev('VARPTR(%s)' % n) is None and d.get(b(n)) == (b'' if is_str(n) else 0):
                gone += 1
        for n in arrays:
            if not d.get(b(n + '(')):
                gone += 1
        total = len(scalars) + len(arrays)
        # the program has another size now: the empty-state free space is calibrated again
        m.f0 = None
        if gone == total:
            run.probe('program-change:variables-cleared')
            m.reset()
            m.fns_ok = False
            m.field_ok = False
            self.had_error = False
            if m.base:
                # unspecified: whether OPTION BASE is kept - say it again, either answer is fine
                r2 = d.exec(b'OPTION BASE %d' % m.base)
                if r2.err not in (None, 10):
                    self.violate('C12', 'option-base-after-clear:err%d' % r2.err, 'OPTION BASE %d after %r -> %r' % (m.base, plan.stmt, r2))
            self.after_clear(plan)
            return
        comp = Comp()
        comp.states = [m.snapshot()]
        comp.names = arrays
        intact = gone == 0 and self.matches(comp, 0) and all(self.ev('VARPTR(%s)' % n) is not None for n in scalars)
        if not intact:
            self.violate(('C10', 'C11'), 'program-change:%s:variables-neither-cleared-nor-intact' % plan.kind,
                         'after %r %d of the %d variables are gone (no address, empty/0, not dimensioned) and the other '
                         '%d do not all exist with their values; %s' % (plan.stmt, gone, total, total - gone, self.history()))
            self.stop = True
            return
        run.probe('program-change:variables-intact')
        v = self.ev('FRE("")')
        if v is None or int(v) < 0:
            run.probe('abandon:program-left-no-memory')
            self.stop = True
            return
        sure, _, exact = m.live()
        if v is not None and exact:
            m.f0 = int(v) + m.records() + sure
        self.readback(plan, full=True)
        if self.stop:
            return
        self.peeks(plan, full=True, deep='force')

    def do_prun(self, op):
        """RUN of the stored program up to its STOP: the variables are what the program's lines assign."""
        m, run = self.m, self.run
        if not m.prog:
            run.probe('skipped:prun:no-program')
            return
        bases = [e['b'] for e in m.prog.values() if e['k'] == 'base']
        if m.base != (bases[0] if bases else 0):
            # unspecified: what RUN does to an OPTION BASE that the program does not set itself
            run.probe('skipped:prun:option-base-not-from-program')
            return
        ok, stop = model_run(m)
        if not ok:
            run.probe('skipped:prun:a-line-would-fail')
            return
        plan = Plan('prun')
        plan.stmt = 'RUN'
        r = self.d.exec(b'RUN')
        run.state(*(self._state + ('ok' if r.err is None else 'err', bucket(len(m.prog)))))
        if r.errs or (stop is not None and b'Break in %d' % stop not in r.out):
            if r.err in (7, 14):
                run.probe('abandon:program-run-out-of-memory')
            else:
                self.violate(self.prop, 'program-run', 'RUN (STOP in line %r) -> %r; %s' % (stop, r, self.history()))
            self.stop = True
            return
        self.had_error = False
        self.after_run()
        f0 = self.ev('FRE("")')
        if f0 is None:
            run.probe('abandon:program-run-out-of-memory')
            self.stop = True
            return
        m.f0 = int(f0) + m.records() + m.live()[0]
        self.readback(plan, full=True)
        if self.stop:
            return
        self.peeks(plan, full=True)

    def after_run(self):
        m = self.m
        fns = [e['f'] for _, e in sorted(m.prog.items()) if e['k'] == 'def']
        m.fns_ok = bool(fns)
        # unspecified: DEF FN may allocate its parameters (and an entry for itself, which stays inside F0)
        for f in fns:
            for pn in f['p']:
                if pn not in m.sc and self.ev('VARPTR(%s)' % pn) is not None:
                    m.sc[pn] = m.default(pn)

    # -- statements that may fail after part of their work ----------------------

    def matches(self, comp, k):
        """
        Does the engine show the model state after k units of the statement: all values, the existence of
        the arrays it names and of the scalars that were not there before it (no verdict)? Arrays that
        unit k+1 would dimension by reference may exist or not (resync follows the engine there).
        """
        m, d = self.m, self.d
        m.restore(comp.states[k])
        before = comp.states[0]
        free = set(comp.plans[k].ctx.auto) if k < len(comp.plans) else ()
        names = [n for n in comp.names if n not in free]
        for name in m.sc:
            if d.get(b(name)) != m.get_value({'n': name, 'i': None}):
                return False
            if name not in before[0] and self.ev('VARPTR(%s)' % name) is None:
                return False
        for name in m.ar:
            if d.get(b(name + '(')) != nested(m, name):
                return False
        for name in names:
            if name not in m.ar and d.get(b(name + '(')):
                return False
        for name in sorted(free):
            if name in m.ar:
                continue
            got = d.get(b(name + '('))
            if got:
                # dimensioned by reference: 0/1..10 in every dimension, nothing assigned yet
                sh = shape(got)
                flat = got
                for _ in sh[1:]:
                    flat = [x for sub in flat for x in sub]
                if sh != [11 - m.base] * len(sh) or any(x != (b'' if is_str(name) else 0) for x in flat):
                    return False
        return True

    def do_compound(self, op):
        """
        ERASE/DIM lists and multi-statement lines run unit by unit: the units before a failing one have
        taken effect, the failing one and those behind it have not. When the line runs out of memory the
        failing unit is not known beforehand: the prefix is the one whose modelled state the engine shows.
        Whatever happened, every surviving variable must pass the complete audit afterwards.
        """
        m, run = self.m, self.run
        kind = op['op']
        comp = plan_compound(m, op)
        if comp.text is None:
            m.restore(comp.states[0])
            run.probe('skipped:%s:nothing-to-run' % kind)
            return
        plan = Plan(kind)
        plan.stmt = comp.text
        if kind == 'input':
            plan.stmt = '%s <- %s' % (comp.text, comp.typed)
            # all typed values are in memory before the first one is assigned
            need_all = sum(pl.need for pl in comp.plans) + 2 * len(comp.typed) + 48
            for pl in comp.plans:
                pl.need = need_all
            w = self.run.w
            w.push(K.sig_stream(comp.typed + u'\r'))
            # the statement may ask again (?Redo from start) and wait for ever: Ctrl+Break ends that
            base, sent, old_hook = w.poll_no, [], w.poll_hook

            def hook(world):
                if not sent and world.poll_no - base > 40 and not world.inputs.pending:
                    sent.append(1)
                    world.inputs.pending.append(K.sig_break())
            w.poll_hook = hook
            try:
                r = self.d.exec(b(comp.text))
            finally:
                w.poll_hook = old_hook
            if w.inputs.pending:
                raise K.HarnessError('typed input was not consumed by %r' % (comp.text,))
            if sent or b'Redo from start' in r.out:
                self.input_redo(comp, plan, r, need_all)
                return
        else:
            r = self.d.exec(b(comp.text))
        err = r.err
        done = len(comp.states) - 1
        fail = comp.fail
        fkind = 'syntax' if fail == 'stx' else (fail.kind if fail is not None else 'none')
        want = set() if fail is None else ({2} if fail == 'stx' else set(fail.ctx.errs))
        props = ('C12', self.prop) if fkind in ('dim', 'erase') else (self.prop,)
        outcome = 'ok' if err is None else ('oom' if err in (7, 14) else 'err')
        run.state(*(self._state + (outcome, fkind, min(3, done))))
        if err is None:
            if fail is not None:
                self.violate(props, 'missing-error:%s:%s:expected-%s' % (kind, fkind, '/'.join(str(x) for x in sorted(want))),
                             '%r succeeded, model expects error %s after %d units of work; %s' % (
                                 comp.text, sorted(want), done, self.history()))
                self.stop = True
                return
            run.probe('stmt-ok')
        else:
            self.had_error = True
            if len(r.errs) > 1 or (r.text.strip() and kind != 'input'):
                self.violate(self.prop, 'output-from-silent-statement:%s' % kind, '%r -> %r' % (comp.text, r))
            if err in (7, 14):
                cands = []
                for k in range(done, -1, -1):
                    if self.matches(comp, k):
                        cands.append(k)
                if not cands:
                    m.restore(comp.states[done])
                    self.violate(props, 'partial-effect:%s:state-is-no-prefix-of-the-units' % kind,
                                 '%r -> error %d; the variables agree with the reference after none of the first 0..%d units; %s' % (
                                     comp.text, err, done, self.history()))
                    self.stop = True
                    return
                done = cands[0]
                if done == len(comp.states) - 1 and err in want:
                    run.probe('stmt-error-as-modelled')
                else:
                    legit = False
                    for k in cands:
                        m.restore(comp.states[k])
                        if k < len(comp.plans) and m.tight(comp.plans[k].need):
                            legit = True
                            done = k
                            break
                    if not legit:
                        done = cands[0]
                        m.restore(comp.states[done])
                        legit = self.oom_is_legit(max([pl.need for pl in comp.plans[done:]] or [0]))
                    if legit:
                        run.probe('oom-legit')
                    else:
                        fb = m.free_bounds()
                        self.violate('C10', 'spurious-out-of-memory:%s:err%d' % (kind, err),
                                     '%r -> error %d after %d units although the model has at least %d bytes free after '
                                     'collection; %s' % (comp.text, err, done, fb[0], self.history()))
                m.restore(comp.states[done])
            elif err in want and fail == 'stx':
                # unspecified: whether a list is checked for syntax before its first unit runs; GW-BASIC and
                # PC-BASIC run the units as they parse them. Any prefix of the units is accepted.
                for k in range(done, -1, -1):
                    if self.matches(comp, k):
                        done = k
                        break
                else:
                    m.restore(comp.states[done])
                    self.violate(props, 'partial-effect:%s:state-is-no-prefix-of-the-units' % kind,
                                 '%r -> error %d; the variables agree with the reference after none of the first 0..%d units; %s' % (
                                     comp.text, err, done, self.history()))
                    self.stop = True
                    return
                run.probe('stmt-error-as-modelled')
            elif err in want:
                run.probe('stmt-error-as-modelled')
            else:
                self.violate(props, 'unexpected-error:%s:%s:err%d' % (kind, fkind, err),
                             '%r -> %r, model expects %s after %d units of work; %s' % (
                                 comp.text, r, ('error ' + str(sorted(want))) if want else 'success', done, self.history()))
                self.stop = True
                return
            if done:
                run.probe('partial-effect:%s' % kind)
        for i, pl in enumerate(comp.plans[:done + 1]):
            self.resync(pl, failed=(i == done), err=err)
            if i < done:
                plan.touched.extend(pl.touched)
        if self.stop:
            return
        audit = (err is not None and done > 0) or bool(op.get('audit'))
        self.readback(plan, full=audit)
        if self.stop:
            return
        self.peeks(plan, full=audit, deep=audit)

    def input_redo(self, comp, plan, r, need):
        """
        INPUT did not take a well-formed line. unspecified: how INPUT reports that the typed strings do not
        fit in memory (PC-BASIC asks again, the Break the harness sends ends the statement); nothing has
        been assigned then. With enough memory for the values it is a refusal of valid input.
        """
        m, run = self.m, self.run
        self.had_error = True
        run.state(*(self._state + ('redo',)))
        m.restore(comp.states[0])
        if not self.oom_is_legit(need):
            self.violate(self.prop, 'input:valid-line-refused', '%s -> %r although the model has at least %d bytes free '
                         'after collection and the values need at most %d; %s' % (
                             plan.stmt, r, m.free_bounds()[0], need, self.history()))
            self.stop = True
            return
        run.probe('input-redo-out-of-memory')
        for pl in comp.plans[:1]:
            self.resync(pl, failed=True)
        self.readback(plan, full=True)

    def judge(self, op, plan, r):
        m, run = self.m, self.run
        c = plan.ctx
        kind = plan.kind
        err = r.err
        prop = {'dim': 'C12', 'erase': 'C12', 'optbase': 'C12'}.get(kind, self.prop)
        if plan.target is not None and plan.target['i'] is not None and (c.errs & {5, 9}):
            prop = 'C12'
        outcome = 'ok' if err is None else ('oom' if err in (7, 14) else 'err')
        run.state(*(self._state + (outcome,)))
        if err is None:
            if c.errs:
                self.violate((prop, self.prop), 'missing-error:%s:expected-%s' % (kind, '/'.join(str(x) for x in sorted(c.errs))),
                             '%r succeeded, model expects error %s; %s' % (plan.stmt, sorted(c.errs), self.history()))
                self.stop = True
                return
            if plan.alts:
                self.commit_alts(plan)
            else:
                plan.commit()
            run.probe('stmt-ok')
            self.resync(plan, failed=False)
            if kind == 'clear':
                self.had_error = False
                if m.base:
                    # unspecified: whether CLEAR keeps OPTION BASE - say it again, either answer is fine
                    r2 = self.d.exec(b'OPTION BASE %d' % m.base)
                    if r2.err not in (None, 10):
                        self.violate('C12', 'option-base-after-clear:err%d' % r2.err, 'OPTION BASE %d after %r -> %r' % (m.base, plan.stmt, r2))
                self.after_clear(plan)
            return
        self.had_error = True
        if len(r.errs) > 1 or r.text.strip():
            self.violate(self.prop, 'output-from-silent-statement:%s' % kind, '%r -> %r' % (plan.stmt, r))
        if err in c.errs or err in c.opt:
            run.probe('stmt-error-as-modelled')
            if kind == 'clear':
                self.after_failed_clear(plan, err)
                return
            self.resync(plan, failed=True, err=err)
            return
        if err in (7, 14):
            if self.oom_is_legit(plan.need):
                run.probe('oom-legit')
                if kind == 'field':
                    # a FIELD list that failed part-way: not modelled
                    run.probe('abandon:field-partial')
                    self.stop = True
                    return
            else:
                fb = m.free_bounds()
                self.violate('C10', 'spurious-out-of-memory:%s:err%d' % (kind, err),
                             '%r -> error %d although the model has at least %d bytes free after collection and the '
                             'statement needs at most %d; %s' % (plan.stmt, err, fb[0], plan.need, self.history()))
            self.resync(plan, failed=True)
            return
        self.violate((prop, self.prop), 'unexpected-error:%s:err%d' % (kind, err),
                     '%r -> %r, model expects %s; %s' % (
                         plan.stmt, r, ('error ' + str(sorted(c.errs))) if c.errs else 'success', self.history()))
        self.stop = True

    def commit_alts(self, plan):
        """unspecified corner with several legal results: the engine's read-back picks one."""
        got = self.read_ref(plan.target)
        m = self.m
        for i in range(plan.alts):
            snap = (dict(m.sc), {k: {'d': v['d'], 'e': dict(v['e'])} for k, v in m.ar.items()}, bytearray(m.fbuf))
            plan.commit(i)
            if m.get_value(plan.target) == got or i == plan.alts - 1:
                return
            m.sc, m.ar, m.fbuf = snap

    def read_ref(self, r):
        if r['i'] is None:
            return self.d.get(b(r['n']))
        lst = self.d.get(b(r['n'] + '('))
        try:
            for s in r['i']:
                lst = lst[s - self.m.base]
            return lst
        except (IndexError, TypeError):
            return None

    def resync(self, plan, failed, err=None):
        """
        Existence of variables the statement may or may not have allocated (the property is silent on
        allocation by reference / before a failing evaluation): follow what BASIC shows.
        """
        m, c = self.m, plan.ctx
        for name in sorted(c.sc_refs | set(c.newsc)):
            if name not in m.sc:
                if self.ev('VARPTR(%s)' % name) is not None:
                    m.sc[name] = m.default(name)
                    self.run.probe('resync:scalar-exists')
        if failed:
            for name, rank in sorted(c.auto.items()):
                if name in m.ar:
                    continue
                lst = self.d.get(b(name + '('))
                t = plan.target
                if (plan.kind == 'let' and err is not None and err not in (7, 14) and t is not None and t['i'] is not None
                        and t['n'] == name and all(m.base <= x <= 10 for x in t['i'])):
                    # the target of LET is the first use of the array: it comes before the right-hand side
                    # in the statement and is looked up before the right-hand side is evaluated (GW-BASIC
                    # and PC-BASIC), so the array is there, with the target's number of dimensions,
                    # although the right-hand side failed
                    if not lst:
                        self.violate('C12', 'autodim:target-of-failed-let-not-dimensioned',
                                     '%r -> error %d; %s was not dimensioned before and is still not there; %s' % (
                                         plan.stmt, err, name, self.history()))
                        self.stop = True
                        return
                    if len(shape(lst)) != len(t['i']):
                        self.violate('C12', 'autodim:shape-not-from-first-use',
                                     '%r -> error %d; %s has shape %r, the target (its first use) has %d subscripts; %s' % (
                                         plan.stmt, err, name, shape(lst), len(t['i']), self.history()))
                        self.stop = True
                        return
                if lst:
                    sh = shape(lst)
                    if sh != [11 - m.base] * len(sh):
                        self.violate('C12', 'autodim-shape', '%s auto-dimensioned by %r has shape %r (base %d)' % (
                            name, plan.stmt, sh, m.base))
                        self.stop = True
                    m.make_array(name, [10] * len(sh))
                    self.run.probe('resync:array-exists')

    # -- expression without owner ------------------------------------------

    def do_probe(self, op, plan):
        m, run = self.m, self.run
        c = plan.ctx
        v = self.ev(plan.stmt)
        run.state(*(self._state + ('ok' if v is not None else 'err',)))
        if v is None:
            # evaluate() reports errors on the screen only: the code is not visible here
            self.had_error = True
            if not c.errs and not c.opt and not self.oom_is_legit(plan.need):
                self.violate(self.prop, 'probe:unexpected-error', 'evaluating %r failed, model expects %r; %s' % (
                    plan.stmt, plan.value, self.history()))
                self.stop = True
            self.resync(plan, failed=True)
            return
        if c.errs:
            self.violate(self.prop, 'probe:missing-error', 'evaluating %r gave %r, model expects error %s' % (
                plan.stmt, v, sorted(c.errs)))
            self.stop = True
            return
        plan.commit()
        self.resync(plan, failed=False)
        if v != plan.value:
            self.violate(('C10',) if isinstance(plan.value, bytes) else (self.prop,), 'probe:wrong-value',
                         '%r evaluated to %r, model %r; %s' % (plan.stmt, v, plan.value, self.history()))

    # -- value read-back (C10 values, C11 no-aliasing, C12 no element changed) ---

    def mismatch(self, name, subs, got, want, plan, touched, kind=None):
        kind = kind or (plan.kind if plan is not None else self.last_kind)
        is_target = False
        for r in touched:
            if r['n'] == name and r.get('all'):
                is_target = True
            elif r['n'] == name and (r['i'] is None) == (subs is None):
                if subs is None or tuple(r['i']) == tuple(subs):
                    is_target = True
        props = set()
        if is_str(name):
            props.add('C10')
        if not is_target or not is_str(name):
            props.add('C11')
        if subs is not None:
            props.add('C12')
        sig = 'readback:%s:%s:%s:after-%s' % (
            'string' if is_str(name) else 'number', 'element' if subs is not None else 'scalar',
            'assigned' if is_target else 'other-variable', kind)
        who = name if subs is None else '%s(%s)' % (name, ','.join(str(x) for x in subs))
        self.violate(sorted(props), sig, '%s reads back %r, reference value %r, after %r; %s' % (
            who, got, want, plan.stmt if plan is not None else 'setup', self.history()))
        self.stop = True

    def readback(self, plan, full=False, touched=None):
        m = self.m
        if touched is None:
            touched = plan.touched if plan is not None else []
        tnames = set(r['n'] for r in touched)
        for name in list(m.sc):
            got = self.d.get(b(name))
            want = m.get_value({'n': name, 'i': None})
            if got != want:
                self.mismatch(name, None, got, want, plan, touched)
                return
        for name in list(m.ar):
            a = m.ar[name]
            n = n_elems(a['d'], m.base)
            if n > 200 and not full and name not in tnames and (self.opno % self.big_every):
                continue
            got = self.d.get(b(name + '('))
            want = nested(m, name)
            if got == want:
                continue
            if shape(got) != shape(want):
                self.violate(('C12', self.prop), 'readback:array-shape',
                             '%s has shape %r, reference %r (base %d) after %r; %s' % (
                                 name, shape(got), shape(want), m.base, plan.stmt if plan else 'setup', self.history()))
                self.stop = True
                return
            subs = self.first_diff(got, want, [])
            g, w_ = got, want
            for s in subs:
                g, w_ = g[s], w_[s]
            self.mismatch(name, [s + m.base for s in subs], g, w_, plan, touched)
            return
        self.run.probe('readbacks')

    def first_diff(self, x, y, prefix):
        if not isinstance(x, list):
            return prefix
        for i, (p, q) in enumerate(zip(x, y)):
            if p != q:
                return self.first_diff(p, q, prefix + [i])
        return prefix

    # -- FRE ----------------------------------------------------------------

    def do_fre(self, op):
        m, run = self.m, self.run
        fb = m.free_bounds()
        if op.get('s'):
            v = self.ev('FRE("")')
            run.state(*(self._state + ('ok' if v is not None else 'err',)))
            if v is None:
                if not m.tight(8):
                    self.violate('C10', 'fre:error', 'FRE("") failed; model bounds %r; %s' % (fb, self.history()))
                self.had_error = True
                return
            v = int(v)
            run.probe('fre-after-collection-checked')
            if fb is not None:
                self.fre_report(v, fb)
            v2 = self.ev('FRE(0)')
            if v2 is not None and int(v2) != v:
                self.violate('C10', 'fre0-differs-right-after-collection', 'FRE("") = %d then FRE(0) = %d; %s' % (
                    v, int(v2), self.history()))
        else:
            v = self.ev('FRE(0)')
            run.state(*(self._state + ('ok' if v is not None else 'err',)))
            if v is None:
                self.violate('C10', 'fre:error', 'FRE(0) failed; %s' % self.history())
                return
            v = int(v)
            v2 = self.ev('FRE(0)')
            if v2 is None or int(v2) != v:
                self.violate('C10', 'fre0-not-repeatable', 'FRE(0) = %d then %r with nothing in between; %s' % (
                    v, v2, self.history()))
            if fb is not None and v > fb[1]:
                self.violate('C10', 'fre0-exceeds-free-after-collection',
                             'FRE(0) = %d but at most %d bytes can be free (empty-state free %d - records %d - live %d); %s' % (
                                 v, fb[1], m.f0, m.records(), m.live()[0], self.history()))

    def after_failed_clear(self, plan, err):
        """
        CLEAR refused its sizes. unspecified: whether the variables are gone by then; they are all kept
        (and nothing else changed) or all cleared.
        """
        m = self.m
        comp = Comp()
        comp.states = [m.snapshot()]
        comp.names = list(m.ar)
        if self.matches(comp, 0):
            self.run.probe('clear-refused:variables-kept')
            return
        scalars = list(m.sc)
        m.reset()
        comp.states = [m.snapshot()]
        if self.matches(comp, 0) and all(self.d.get(b(n)) == (b'' if is_str(n) else 0) for n in scalars):
            self.run.probe('clear-refused:variables-cleared')
            # what else went with them is not modelled: calibrate again
            m.f0 = None
            m.fns_ok = False
            m.field_ok = False
            self.after_clear(plan)
            return
        self.violate(self.prop, 'clear-refused:variables-neither-kept-nor-cleared',
                     '%r -> error %d; some variables read back changed, others not; %s' % (plan.stmt, err, self.history()))
        self.stop = True

    def after_clear(self, plan):
        """Calibrate / check the empty-state free space after CLEAR."""
        m = self.m
        v = self.ev('FRE("")')
        if plan.kind != 'clear' and (v is None or int(v) < 0):
            # a stored program that has outgrown the data segment (PC-BASIC checks a new line against the
            # memory limit without the lines behind it) is the business of the program properties, not of
            # the variable memory: nothing more to learn from this session
            self.run.probe('abandon:program-left-no-memory')
            self.stop = True
            return
        if v is None:
            # the empty string argument itself needs a byte free: legitimate with nothing left at all.
            # FRE(0) allocates nothing
            v0 = self.ev('FRE(0)')
            if v0 is not None and int(v0) != 0:
                self.violate('C10', 'fre-negative-after-clear' if int(v0) < 0 else 'fre-error-after-clear',
                             'after %r FRE("") fails and FRE(0) = %d; %s' % (plan.stmt, int(v0), self.history()))
            else:
                self.run.probe('abandon:clear-left-no-memory')
            self.stop = True
            return
        v = int(v)
        if v < 0:
            self.violate('C10', 'fre-negative-after-clear', 'after %r FRE("") = %d; %s' % (plan.stmt, v, self.history()))
            self.stop = True
            return
        if m.f0 is None:
            m.f0 = v
        elif v != m.f0:
            self.violate('C10', 'fre-after-clear', 'after %r FRE("") = %d, reference %d (memory %d, stack %r); %s' % (
                plan.stmt, v, m.f0, m.mem, m.stack, self.history()))
            m.f0 = v

    # -- C12: write a unique value to every element, read all back ------------

    def fill_tuples(self, dims, base, salt):
        n = n_elems(dims, base)
        if n <= 600:
            out = [[]]
            for d in dims:
                out = [t + [i] for t in out for i in range(base, d + 1)]
            return out
        # boundary tuples + a deterministic scatter of interior ones
        edge = []
        for d in dims:
            edge.append(sorted(set(x for x in (base, base + 1, d - 1, d) if base <= x <= d)))
        out = [[]]
        for e in edge:
            out = [t + [i] for t in out for i in e]
        seen = set(tuple(t) for t in out)
        x = salt * 2654435761 % 4294967296
        for _ in range(60):
            t = []
            for d in dims:
                x = (x * 1103515245 + 12345) % 2147483648
                t.append(base + (x >> 8) % (d + 1 - base))
            if tuple(t) not in seen:
                seen.add(tuple(t))
                out.append(t)
        return out

    def do_fill(self, op):
        m, run, d = self.m, self.run, self.d
        name = op['n']
        a = m.ar[name]
        salt = op.get('salt', 1)
        tuples = self.fill_tuples(a['d'], m.base, salt)
        strs = is_str(name)
        items = []
        for k, t in enumerate(tuples):
            if strs:
                val = b'%d:%d' % (salt, k)
                txt = '%s(%s)="%s"' % (name, ','.join(str(x) for x in t), val.decode('ascii'))
                slot = ['s', val]
            else:
                val = (salt + k) % 30000 + 1
                txt = '%s(%s)=%d' % (name, ','.join(str(x) for x in t), val)
                slot = val
            items.append((t, txt, slot))
        run.state(*(self._state + (bucket(len(items)),)))
        pos = 0
        while pos < len(items):
            chunk = []
            ln = 0
            while pos + len(chunk) < len(items) and ln + len(items[pos + len(chunk)][1]) + 1 < 240:
                ln += len(items[pos + len(chunk)][1]) + 1
                chunk.append(items[pos + len(chunk)])
            if not chunk:
                chunk = [items[pos]]
            r = d.exec(b(':'.join(c[1] for c in chunk)))
            if r.err is None:
                for t, _, slot in chunk:
                    a['e'][tuple(t)] = slot
                pos += len(chunk)
                continue
            need = sum(2 * len(c[2][1]) for c in chunk) + 48 if strs else 0
            self.had_error = True
            if r.err in (7, 14) and strs and self.oom_is_legit(need):
                # a prefix of the chunk was assigned
                run.probe('oom-legit')
                got = d.get(b(name + '('))
                done = 0
                for t, _, slot in chunk:
                    g = got
                    try:
                        for s in t:
                            g = g[s - m.base]
                    except (IndexError, TypeError):
                        g = None
                    if g == slot[1]:
                        a['e'][tuple(t)] = slot
                        done += 1
                    else:
                        break
                break
            self.violate(('C12', self.prop), 'fill:error:err%d' % r.err,
                         'assigning elements of %s%r (base %d): %r -> %r; %s' % (name, a['d'], m.base, chunk[0][1], r, self.history()))
            self.stop = True
            return
        run.probe('fill-elements', pos)
        # element-wise read through BASIC for a sample (the full read-back follows in step())
        for j in range(0, len(items), max(1, len(items) // 5)):
            t, _, slot = items[j]
            want = m.get_value({'n': name, 'i': t})
            got = self.ev('%s(%s)' % (name, ','.join(str(x) for x in t)))
            if got is not None and got != want:
                self.mismatch(name, t, got, want, None, [{'n': name, 'i': t}], kind='fill-element-read')
                return

    # -- C11: VARPTR / PEEK / VARPTR$ ------------------------------------------

    def candidates(self):
        """All refs that can be peeked: scalars, and first/last/one rotating element of each array."""
        m = self.m
        refs = [{'n': n, 'i': None} for n in m.sc]
        for name, a in m.ar.items():
            dims = a['d']
            lo = [m.base] * len(dims)
            refs.append({'n': name, 'i': lo})
            if list(dims) != lo:
                refs.append({'n': name, 'i': list(dims)})
            for t in sorted(a['e'])[:2]:
                if list(t) not in (lo, list(dims)):
                    refs.append({'n': name, 'i': list(t)})
        return refs

    def all_elements(self, name):
        m = self.m
        out = [[]]
        for d in m.ar[name]['d']:
            out = [t + [i] for t in out for i in range(m.base, d + 1)]
        return [{'n': name, 'i': t} for t in out]

    def peeks(self, plan, full=False, deep=False):
        m = self.m
        # the element-by-element audit is C11's business; the other properties keep the ordinary sweep
        deep = deep == 'force' or (deep and self.prop == 'C11')
        refs = []
        if plan is not None:
            for r in plan.touched:
                if r.get('all'):
                    continue
                if r['i'] is None and r['n'] in m.sc:
                    refs.append(r)
                elif r['i'] is not None and m.in_bounds(r):
                    refs.append(r)
        cand = self.candidates()
        sweep = full or (self.sweep_every and self.opno % self.sweep_every == self.sweep_every - 1)
        if sweep:
            refs.extend(cand)
            # every element of one small array: pairwise distinct addresses (C12 through C11's eyes)
            small = [n for n, a in m.ar.items() if n_elems(a['d'], m.base) <= 40]
            if small and deep:
                # the complete audit: every element of every small array (up to 160 elements)
                left = 160
                for k in range(len(small)):
                    name = small[(self.opno + k) % len(small)]
                    n = n_elems(m.ar[name]['d'], m.base)
                    if n <= left:
                        refs.extend(self.all_elements(name))
                        left -= n
            elif small:
                refs.extend(self.all_elements(small[self.opno % len(small)]))
        elif cand:
            for _ in range(self.peek_n):
                self.rot += 1
                refs.append(cand[self.rot % len(cand)])
        seen = set()
        uniq = []
        for r in refs:
            key = ref_txt(r)
            if key not in seen:
                seen.add(key)
                uniq.append(r)
        if uniq:
            self.peek_refs(uniq, complete=bool(sweep))

    def peek_refs(self, refs, complete=False):
        m, run = self.m, self.run
        vs, as_, ae, top = self.peek16(0x358), self.peek16(0x35A), self.peek16(0x35C), self.peek16(0x2C)
        if None in (vs, as_, ae, top):
            self.violate('C11', 'peek:pointer-error', 'PEEK of DS:358h..35Dh / DS:2Ch failed; %s' % self.history())
            return
        if not vs <= as_ <= ae <= top:
            self.violate('C11', 'pointers-out-of-order', 'start of variables %d, start of arrays %d, end of arrays %d, '
                         'end of memory %d; %s' % (vs, as_, ae, top, self.history()))
            return
        # which array comes first in memory (BASIC-visible: lowest element address)
        order = {}
        if any(r['i'] is not None for r in refs):
            firsts = []
            for name, a in m.ar.items():
                p = self.ev('VARPTR(%s(%s))' % (name, ','.join(str(m.base) for _ in a['d'])))
                if p is not None:
                    firsts.append((int(p) & 0xFFFF, name))
            firsts.sort()
            for i, (_, name) in enumerate(firsts):
                order[name] = 'array-first-in-memory' if i == 0 else 'array-later-in-memory'
        ranges = []
        sranges = []
        later = []
        for r in refs:
            self.peek_one(r, vs, as_, ae, top, order, ranges, sranges, later)
        for what, rs in (('variable-storage', ranges), ('string-data', sranges)):
            rs.sort()
            for (a0, a1, n0), (b0, b1, n1) in zip(rs, rs[1:]):
                if b0 < a1:
                    self.violate('C11', 'overlap:%s' % what, '%s occupies [%d,%d) and %s occupies [%d,%d); %s' % (
                        n0, a0, a1, n1, b0, b1, self.history()))
        if complete:
            self.layout_checks(later, vs, as_, ae, order)
        for item in later:
            self.peek_second(*item)
        run.probe('peek-sweeps')

    def peek_one(self, r, vs, as_, ae, top, order, ranges, sranges, later):
        m, run = self.m, self.run
        name = r['n']
        txt = ref_txt(r)
        sig = name[-1]
        size = SIZES[sig]
        where = 'scalar' if r['i'] is None else order.get(name, 'array-unknown-position')
        hist = self.history()
        p = self.ev('VARPTR(%s)' % txt)
        if p is None:
            self.violate('C11', 'varptr-error:%s' % ('scalar' if r['i'] is None else 'element'),
                         'VARPTR(%s) failed although the variable exists; %s' % (txt, hist))
            return
        p = int(p) & 0xFFFF
        lo, hi = (vs, as_) if r['i'] is None else (as_, ae)
        if not (lo <= p and p + size <= hi):
            self.violate('C11', 'varptr-outside-area:%s' % ('scalar' if r['i'] is None else 'element'),
                         'VARPTR(%s) = %d, %d bytes, outside [%d,%d); %s' % (txt, p, size, lo, hi, hist))
        ranges.append((p, p + size, txt))
        run.probe('varptr-checked')
        raw = self.peekn(p, size)
        if raw is None:
            self.violate('C11', 'peek:error', 'PEEK at %d failed; %s' % (p, hist))
            return
        # evaluations that allocate a temporary string (and so may start a collection that moves
        # string data) are left for a second pass, after all addresses of this sweep have been read
        later.append((r, p, raw, where))
        if sig == '$':
            self.peek_string(r, raw, where, ae, top, sranges)

    def layout_checks(self, seen, vs, as_, ae, order):
        """
        Documented record layout ([size][c1][c2][n more][more...] then the value; arrays add
        [2 bytes length][rank][2 bytes per dimension] before the data): the value is the last field of a
        record and the areas are packed, so the highest value end of all scalars is the start of the array
        area and the highest element end is the end of the array area; the byte at the start of the
        record is the value size and the next one the first letter of the name.
        `seen` holds every scalar and the last element of every array (complete sweeps only).
        """
        m = self.m
        hist = self.history()
        ends_s = [p + SIZES[r['n'][-1]] for r, p, _, _ in seen if r['i'] is None]
        if m.sc and len(ends_s) == len(m.sc) and max(ends_s) != as_:
            self.violate('C11', 'area-not-packed:scalars', 'the last scalar value ends at %d, the array area starts at %d '
                         '(start of variables %d); %s' % (max(ends_s), as_, vs, hist))
        ends_a = [p + SIZES[r['n'][-1]] for r, p, _, _ in seen if r['i'] is not None and list(r['i']) == list(m.ar[r['n']]['d'])]
        if m.ar and len(ends_a) == len(m.ar) and max(ends_a) != ae:
            self.violate('C11', 'area-not-packed:arrays', 'the last array element ends at %d, the array area ends at %d '
                         '(starts at %d); %s' % (max(ends_a), ae, as_, hist))
        for r, p, _, where in seen:
            name = r['n']
            hdr = 4 + max(0, len(name) - 3)
            if r['i'] is None:
                start = p - hdr
            elif list(r['i']) == [m.base] * len(r['i']):
                start = p - (3 + 2 * len(r['i'])) - hdr
            else:
                continue
            got = self.peekn(start, 2)
            want = bytes([SIZES[name[-1]], ord(name[0])])
            if got != want:
                self.violate('C11', 'peek-mismatch:%s:record-header' % where,
                             'record of %s should start at %d with size byte and first letter %r, PEEK gives %r; %s' % (
                                 ref_txt(r), start, want, got, hist))

    def peek_second(self, r, p, raw, where):
        m = self.m
        name = r['n']
        txt = ref_txt(r)
        sig = name[-1]
        size = SIZES[sig]
        hist = self.history()
        vps = self.ev('VARPTR$(%s)' % txt)
        want_vps = bytes([size]) + struct.pack('<H', p)
        if vps is None:
            self.had_error = True
            if not self.oom_is_legit(64):
                self.violate('C11', 'varptr$-error', 'VARPTR$(%s) failed; %s' % (txt, hist))
        elif vps != want_vps:
            self.violate('C11', 'varptr$-mismatch', 'VARPTR$(%s) = %r, VARPTR gives %r; %s' % (txt, vps, want_vps, hist))
        if sig != '$':
            mk = self.ev('%s(%s)' % (MK[sig].decode(), txt))
            if mk is None:
                self.had_error = True
                if not self.oom_is_legit(64):
                    self.violate('C11', 'mk$-error', '%s(%s) failed; %s' % (MK[sig].decode(), txt, hist))
            elif raw != mk:
                self.violate('C11', 'peek-mismatch:%s:number' % where,
                             'PEEK(VARPTR(%s)..+%d) = %r but %s(%s) = %r (value %r); %s' % (
                                 txt, size - 1, raw, MK[sig].decode(), txt, mk, m.get_value(r), hist))
            if sig == '%' and mk is not None and mk != struct.pack('<h', m.get_value(r)):
                self.violate('C11', 'mki$-not-value', 'MKI$(%s) = %r, reference value %d; %s' % (txt, mk, m.get_value(r), hist))

    def peek_string(self, r, raw, where, ae, top, sranges):
        m = self.m
        txt = ref_txt(r)
        hist = self.history()
        want = m.get_value(r)
        slot = m.get_slot(r)
        ln, addr = raw[0], raw[1] + 256 * raw[2]
        if ln != len(want):
            self.violate('C11', 'peek-mismatch:%s:string-descriptor' % where,
                         'PEEK(VARPTR(%s)..+2) = %r: length %d, but the string has %d characters (%r); %s' % (
                             txt, raw, ln, len(want), want[:20], hist))
            return
        if not ln:
            return
        origin = slot[0] if slot is not None else 's'
        if ln <= 9:
            spans = [(0, ln)]
        else:
            mid = ln // 2
            spans = [(0, 3), (mid - 1, mid + 2), (ln - 3, ln)]
        for s0, s1 in spans:
            got = self.peekn(addr + s0, s1 - s0)
            if got != want[s0:s1]:
                self.violate('C11', 'peek-mismatch:%s:string-chars:%s' % (where, {
                    's': 'string-space', 'c': 'program-text', 'f': 'field-buffer', 'u': 'string-space'}[origin]),
                    'descriptor of %s points to %d, PEEK(%d..%d) = %r, characters there are %r; %s' % (
                        txt, addr, addr + s0, addr + s1 - 1, got, want[s0:s1], hist))
                return
        if origin == 's':
            sranges.append((addr, addr + ln, txt))
            if not (ae <= addr and addr + ln <= top):
                self.violate('C11', 'string-data-outside-string-space',
                             'string of %s at [%d,%d), end of arrays %d, end of memory %d; %s' % (
                                 txt, addr, addr + ln, ae, top, hist))

    # -- end of run -------------------------------------------------------------

    def final(self):
        if self.stop:
            return
        self.readback(None, full=True)
        if self.stop:
            return
        self.peeks(None, full=True)
        fb = self.m.free_bounds()
        if fb is not None:
            self.do_fre({'s': True})


###############################################################################
# run

def crash_chain(e, depth=3):
    """Exception type + the innermost engine frames, e.g. KeyError@strings.py:_retrieve<view<midset."""
    frames = []
    for line in e.tb.splitlines():
        line = line.strip()
        if line.startswith('File "') and '/pcbasic/' in line and ', in ' in line:
            fname = line.split('"')[1].rsplit('/', 1)[1]
            frames.append((fname, line.rsplit(', in ', 1)[1]))
    if not frames:
        return e.signature
    inner = frames[-depth:][::-1]
    return '%s@%s:%s' % (e.exc_type, inner[0][0], '<'.join(f for _, f in inner))

def run(case):
    install_gc_seam()
    cfg = case['cfg']

    def body(run):
        w = run.w
        kw = {'max_memory': int(cfg['max_memory'])}
        if cfg.get('field') or cfg.get('disk'):
            root = os.path.join(run.make_scratch(), 'c')
            os.makedirs(root)
            kw['devices'] = {'C:': root}
            kw['current_device'] = 'C:'
        with w:
            x = None
            try:
                d = Driver(w, **kw)
                gcplan = attach_gc_plan(d, cfg.get('gc', {}))
                x = Exec(run, d, Model(cfg), cfg, case['prop'], gcplan)
                x._state = ('setup',)
                x.setup()
                for i, op in enumerate(case['ops']):
                    if x.stop:
                        break
                    x.step(i, op)
                x._state = ('final', 0, 0, 0, 0)
                x.last_kind = 'final'
                x.final()
                run.fault('forced-gc', gcplan['forced'])
                run.probe('collections', gcplan['gcs'])
                run.probe('collections-with-live-temporary', gcplan['gc_live_temp'])
                run.probe('check_free-calls', gcplan['calls'])
                if cfg['max_memory'] < 65534:
                    run.fault('mem-pressure')
                x.d.close()
            except EngineCrash as e:
                # a crash inside the collector / string space is how C10 fails, whatever the run emphasised
                props = {run.prop}
                if 'collect_garbage' in e.tb or 'values/strings.py' in e.frame:
                    props = {'C10'}
                run.res['status'] = 'crash'
                sig = 'crash:%s' % crash_chain(e)
                if 'collect_garbage' in sig:
                    # leaked references surface in the next collection, whatever statement triggers it
                    sig += ':%s' % ('after-failed-statement' if (x is not None and x.had_error) else 'no-failed-statement')
                for p in sorted(props):
                    run.violate(p, sig,
                                '%s: %s (during %r)\n%s' % (e.exc_type, e.exc_msg, e.where, e.tb))
    return execute(case, body, world_cfg={})


###############################################################################
# generation

LETTERS = 'ABCDEFGHIJKLMNOPQRSTUVWXYZ'
NAMECH = LETTERS + '0123456789.'
LITCH = ('abcdefghijklmnopqrstuvwxyzABCDEFGHIJKLMNOPQRSTUVWXYZ0123456789'
         ' !#$%&\'()*+,-./:;<=>?@[]^_{|}~\xe9\xff\x80')


def gen_name(rng, sigil, used, bases):
    for _ in range(200):
        if bases and rng.random() < 0.3:
            base = rng.choice(bases)
        else:
            n = rng.choice([1, 1, 1, 2, 2, 2, 3, 3, 4, 5, 8, 13, 24, 40])
            base = rng.choice(LETTERS) + ''.join(rng.choice(NAMECH) for _ in range(n - 1))
        if base in KEYWORDS or base.startswith(BAD_PREFIX):
            continue
        if any(base.startswith(k) and len(base) == len(k) for k in KEYWORDS):
            continue
        name = base + sigil
        if name in used:
            continue
        used.add(name)
        bases.append(base)
        return name
    raise K.HarnessError('cannot find a free name')


def gen_lit(rng, big=False):
    r = rng.random()
    if r < 0.08:
        n = 0
    elif r < 0.6:
        n = rng.randint(1, 8)
    elif r < 0.9:
        n = rng.randint(9, 40)
    else:
        n = rng.randint(41, 110)
    return ''.join(rng.choice(LITCH) for _ in range(n))


class Gen(object):

    def __init__(self, rng, tier, prop):
        self.rng = rng
        self.tier = tier
        self.prop = prop
        used = set()
        bases = []
        self.sstr = [gen_name(rng, '$', used, bases) for _ in range(rng.randint(2, 6))]
        self.astr = [gen_name(rng, '$', set(), bases) for _ in range(rng.randint(1, 3))]
        self.snum = [gen_name(rng, rng.choice('%!#'), used, bases) for _ in range(rng.randint(1, 4))]
        self.anum = [gen_name(rng, rng.choice('%%!#'), set(), bases) for _ in range(rng.randint(1, 3))]
        self.astr = list(dict.fromkeys(self.astr))
        self.anum = list(dict.fromkeys(self.anum))
        # arrays that only statement lists and the DIM after a half-done statement use
        self.xarr = [gen_name(rng, rng.choice('%!#$'), set(self.astr + self.anum), bases) for _ in range(2)]
        self.xarr = [n for n in dict.fromkeys(self.xarr)]
        self.used = used
        self.bases = bases

    # refs ---------------------------------------------------------------

    def subs_for(self, m, name, oob):
        rng = self.rng
        a = m.ar.get(name)
        if a is None:
            rank = rng.choice([1, 1, 1, 2, 2, 3]) if self.prop == 'C12' else rng.choice([1, 1, 2])
            if rank > 2 and is_str(name) and 0 < self.gc_every < 5:
                # a collection per allocation over 1331 descriptors costs seconds per run
                rank = 2
            dims = [10] * rank
        else:
            dims = a['d']
        subs = [rng.randint(m.base, d) if d >= m.base else m.base for d in dims]
        if rng.random() < 0.3:
            subs = [rng.choice([m.base, d]) for d in dims]
        if oob:
            how = rng.random()
            i = rng.randrange(len(subs))
            if how < 0.4:
                subs[i] = dims[i] + rng.choice([1, 1, 2, 20])
            elif how < 0.55:
                subs[i] = -rng.choice([1, 1, 2, 100])
            elif how < 0.7 and m.base == 1:
                subs[i] = 0
            elif how < 0.85:
                subs = subs + [rng.randint(m.base, 3)]
            elif len(subs) > 1:
                subs = subs[:-1]
            else:
                subs[i] = dims[i] + 1
        return subs

    def sref(self, m, elem_p=0.35, oob_p=0.0):
        rng = self.rng
        if self.astr and rng.random() < elem_p:
            name = rng.choice(self.astr)
            return {'n': name, 'i': self.subs_for(m, name, rng.random() < oob_p)}
        return {'n': rng.choice(self.sstr), 'i': None}

    def nref(self, m, elem_p=0.35, oob_p=0.0):
        rng = self.rng
        if self.anum and rng.random() < elem_p:
            name = rng.choice(self.anum)
            return {'n': name, 'i': self.subs_for(m, name, rng.random() < oob_p)}
        return {'n': rng.choice(self.snum), 'i': None}

    # expressions --------------------------------------------------------

    def count(self, approx_len):
        """A count argument for LEFT$/RIGHT$/MID$: mostly sensible, sometimes boundary, rarely illegal."""
        rng = self.rng
        r = rng.random()
        if r < 0.6:
            return rng.randint(0, max(1, approx_len))
        if r < 0.8:
            return rng.choice([0, 1, approx_len, approx_len + 1, 255])
        if r < 0.94:
            return rng.randint(0, 255)
        return rng.choice([-1, 256, -32768, 300])

    def sexpr(self, m, depth=0, oob_p=0.0):
        rng = self.rng
        r = rng.random()
        if depth >= 3:
            r *= 0.45
        if r < 0.2:
            return {'k': 'lit', 'v': gen_lit(rng)}
        if r < 0.45:
            return {'k': 'var', 'r': self.sref(m, oob_p=oob_p)}
        if r < 0.62:
            return {'k': 'cat', 'a': self.sexpr(m, depth + 1, oob_p), 'b': self.sexpr(m, depth + 1, oob_p)}
        if r < 0.70:
            e = {'k': rng.choice(['left', 'right']), 's': self.sexpr(m, depth + 1, oob_p), 'n': self.count(10)}
            if rng.random() < 0.2:
                # an argument that allocates behind a first argument that may be a temporary
                e['n'] = {'k': 'len', 's': self.sexpr(m, depth + 2, oob_p)}
            return e
        if r < 0.76:
            e = {'k': 'mid', 's': self.sexpr(m, depth + 1, oob_p), 'p': max(-1, self.count(10)), 'n': None}
            if rng.random() < 0.6:
                e['n'] = self.count(10)
                if rng.random() < 0.25:
                    e['n'] = {'k': 'len', 's': self.sexpr(m, depth + 2, oob_p)}
            if rng.random() < 0.85 and e['p'] < 1:
                e['p'] = 1
            return e
        if r < 0.84:
            n = rng.choice([0, 1, 2, 5, 17, 60, 130, 200, 255, rng.randint(0, 255)])
            if rng.random() < 0.04:
                n = rng.choice([-1, 256])
            if rng.random() < 0.3:
                return {'k': 'strings', 'n': n, 's': self.sexpr(m, depth + 1, oob_p)}
            return {'k': 'string', 'n': n, 'c': rng.choice([32, 65, 120, 0, 255, rng.randint(0, 255)])}
        if r < 0.87:
            return {'k': 'space', 'n': rng.choice([0, 1, 7, 80, 255, rng.randint(0, 255)])}
        if r < 0.90:
            return {'k': 'chr', 'c': rng.choice([0, 13, 34, 65, 255, rng.randint(0, 255)])}
        if r < 0.93:
            return {'k': 'str', 'v': rng.choice([0, 7, -7, 32767, -32768, rng.randint(-999, 999)])}
        if self.fns:
            f = rng.choice(self.fns)
            args = []
            for pn in f['p']:
                if pn[-1] == '$':
                    args.append(self.sexpr(m, depth + 1, oob_p))
                else:
                    args.append({'k': 'int', 'v': self.count(8)})
            return {'k': 'fn', 'f': f['f'], 'a': args}
        return {'k': 'var', 'r': self.sref(m, oob_p=oob_p)}

    def nexpr(self, m, oob_p=0.0):
        rng = self.rng
        r = rng.random()
        if r < 0.45:
            return {'k': 'int', 'v': rng.choice([0, 1, -1, 255, 256, 32767, -32768, rng.randint(-32768, 32767)])}
        if r < 0.7:
            return {'k': 'var', 'r': self.nref(m, oob_p=oob_p)}
        if r < 0.82:
            return {'k': 'len', 's': self.sexpr(m, 1)}
        if r < 0.9:
            return {'k': 'asc', 's': self.sexpr(m, 1)}
        return {'k': 'instr', 'a': self.sexpr(m, 1), 'b': self.sexpr(m, 2)}

    # configuration ------------------------------------------------------

    def make_fns(self):
        rng = self.rng
        self.fns = []
        if rng.random() < 0.5:
            return
        par = lambda i: {'k': 'par', 'i': i}
        lit = lambda: {'k': 'lit', 'v': gen_lit(rng)[:12]}
        templates = [
            lambda: (['$'], {'k': 'cat', 'a': par(0), 'b': lit()}),
            lambda: (['$'], {'k': 'cat', 'a': lit(), 'b': {'k': 'cat', 'a': par(0), 'b': par(0)}}),
            lambda: (['$', '%'], {'k': 'cat', 'a': {'k': 'left', 's': par(0), 'n': par(1)},
                                  'b': {'k': 'right', 's': par(0), 'n': par(1)}}),
            lambda: (['$', '$'], {'k': 'cat', 'a': par(1), 'b': {'k': 'mid', 's': par(0), 'p': 2, 'n': None}}),
            lambda: (['$'], {'k': 'cat', 'a': {'k': 'var', 'r': {'n': rng.choice(self.sstr), 'i': None}}, 'b': par(0)}),
            lambda: (['%'], {'k': 'string', 'n': par(0), 'c': rng.randint(33, 126)}),
        ]
        for i in range(rng.randint(1, 3)):
            sigs, body = rng.choice(templates)()
            name = 'FN' + LETTERS[i] + rng.choice(['', 'X', '1']) + '$'
            params = []
            for s in sigs:
                params.append(gen_name(rng, s, self.used, []))
            f = {'f': name, 'p': params, 'body': body}
            if i and rng.random() < 0.4 and self.fns[0]['p'][0][-1] == '$' and len(self.fns[0]['p']) == 1 and sigs[0] == '$':
                # nested call of an earlier function
                f['body'] = {'k': 'cat', 'a': {'k': 'fn', 'f': self.fns[0]['f'], 'a': [par(0)]}, 'b': body}
            self.fns.append(f)

    def make(self):
        rng, prop, tier = self.rng, self.prop, self.tier
        self.make_fns()
        cfg = {'fns': self.fns, 'plets': [], 'field': 0, 'base': rng.choice([None, None, None, 0, 1, 1])}
        if prop == 'C12':
            cfg['base'] = rng.choice([None, 0, 1, 1])
        if rng.random() < 0.4:
            cfg['gc'] = {'every': 0, 'phase': 0, 'skip': 0}
        else:
            k = rng.choice([1, 1, 2, 2, 3, 4, 5, 7, 11])
            cfg['gc'] = {'every': k, 'phase': rng.randrange(k), 'skip': rng.choice([0, 0, rng.randint(0, 40)])}
        self.gc_every = cfg['gc']['every']
        m = Model(dict(cfg, max_memory=65534))
        m.base = cfg['base'] or 0
        m.fns_ok = bool(self.fns)
        pl = Planner(m, in_program=True)
        if self.fns or rng.random() < 0.3:
            for _ in range(rng.randint(0, 3)):
                op = {'op': 'let', 't': self.sref(m, elem_p=0.3), 'e': {'k': 'lit', 'v': gen_lit(rng)[:30]}}
                p = pl.plan(op)
                if not p.skip and not p.ctx.errs:
                    p.commit()
                    cfg['plets'].append(op)
        # histories with statements that change the stored program: the program assigns string literals
        # (variables that point into program text), numeric scalars and array elements
        progrun = rng.random() < {'C10': 0.3, 'C11': 0.3, 'C12': 0.06}[prop]
        if progrun:
            cfg['disk'] = True
            for _ in range(rng.randint(2, 4)):
                op = {'op': 'let', 't': self.sref(m, elem_p=0.35), 'e': {'k': 'lit', 'v': gen_lit(rng)[:30] or 'lit'}}
                p = pl.plan(op)
                if not p.skip and not p.ctx.errs:
                    p.commit()
                    cfg['plets'].append(op)
            for _ in range(rng.randint(1, 3)):
                op = {'op': 'let', 't': self.nref(m, elem_p=0.4), 'e': {'k': 'int', 'v': rng.choice([1, -1, 255, 32767, rng.randint(-32768, 32767)])}}
                p = pl.plan(op)
                if not p.skip and not p.ctx.errs:
                    p.commit()
                    cfg['plets'].append(op)
        self.cfg = cfg
        if rng.random() < 0.25 and not progrun:
            cfg['field'] = rng.choice([8, 32, 128])
            m.reclen = cfg['field']
            m.fbuf = bytearray(m.reclen)
            m.field_ok = True
        scratch = Model(dict(cfg, max_memory=65534))
        scratch.base = cfg['base'] or 0
        build_prelude(scratch, cfg)
        m.prog = scratch.prog
        est_prog = (700 if progrun else 0) + sum(len(expr_txt(f['body'], f)) + 30 for f in self.fns) + sum(
            len(expr_txt(o['e'])) + len(ref_txt(o['t'])) + 10 for o in cfg['plets']) + 20
        floor = 4720 + est_prog
        if rng.random() < 0.35:
            cfg['max_memory'] = 65534
        else:
            slack = int(150 * (400.0 ** rng.random()))
            cfg['max_memory'] = min(65534, floor + 514 + slack)
        cfg['peek_n'] = {'C11': 3, 'C10': 1, 'C12': 1}[prop]
        cfg['sweep_every'] = {'C11': 5, 'C10': 14, 'C12': 12}[prop]
        m.mem = cfg['max_memory']
        n_ops = rng.randint(12, 55) if tier == 'quick' else rng.randint(40, 400)
        weights = {
            'C10': [('lets', 40), ('letn', 6), ('mid', 8), ('lset', 6), ('swap', 6), ('probe', 7), ('dim', 4),
                    ('erase', 3), ('fre', 9), ('clear', 2), ('field', 4), ('fill', 1), ('optbase', 0.5),
                    ('line', 3), ('merase', 1), ('mdim', 1), ('input', 5), ('restart', 1.2), ('faillet', 0.5)],
            'C11': [('lets', 20), ('letn', 20), ('mid', 4), ('lset', 4), ('swap', 10), ('probe', 2), ('dim', 10),
                    ('erase', 8), ('fre', 3), ('clear', 2), ('field', 4), ('fill', 3), ('optbase', 0.5),
                    ('line', 5), ('merase', 6), ('mdim', 4), ('input', 2), ('restart', 0.5), ('faillet', 1)],
            'C12': [('lets', 6), ('letn', 6), ('elem', 30), ('swap', 5), ('dim', 16), ('erase', 9), ('fre', 2),
                    ('clear', 3), ('fill', 12), ('optbase', 4), ('probe', 1), ('mid', 1), ('lset', 1), ('field', 1),
                    ('line', 2), ('merase', 4), ('mdim', 5), ('input', 1.5), ('restart', 0.3), ('faillet', 6)],
        }[prop]
        if progrun:
            weights = weights + [('prog', {'C10': 6, 'C11': 6, 'C12': 3}[prop])]
        kinds = [k for k, _ in weights]
        wts = [x for _, x in weights]
        pl = Planner(m)
        ops = []
        for _ in range(n_ops):
            kind = rng.choices(kinds, wts)[0]
            if kind == 'prog':
                for op2 in self.gen_prog(m):
                    ops.append(op2)
                    if op2['op'] == 'prun':
                        if model_run(m)[0]:
                            m.fns_ok = any(e['k'] == 'def' for e in m.prog.values())
                        continue
                    skip, _, errs, newprog, _ = plan_prog(m, op2, cfg)
                    if not skip and not errs:
                        m.prog = newprog
                        if op2['op'] != 'prenum':
                            m.reset()
                            m.fns_ok = False
                continue
            if kind in ('input', 'faillet', 'restart'):
                for op2 in (self.gen_input(m) if kind == 'input' else self.gen_faillet(m) if kind == 'faillet'
                            else self.gen_restart(m)):
                    ops.append(op2)
                    if op2['op'] in COMPOUND:
                        plan_compound(m, op2)
                    elif op2['op'] not in ('squeeze', 'restart'):
                        p = pl.plan(op2)
                        if p.skip or p.commit is None:
                            continue
                        if not p.ctx.errs:
                            p.commit()
                        elif p.target is not None and p.target['i'] is not None and 5 not in p.ctx.errs:
                            # the target of a failing LET has been dimensioned
                            m.apply_auto(p.ctx)
                continue
            op = self.make_op(kind, m, floor)
            if op is None:
                continue
            ops.append(op)
            # follow the reference model assuming the statement does not run out of memory
            if op['op'] in COMPOUND:
                comp = plan_compound(m, op)
                if comp.fail is not None and len(comp.states) > 1 and rng.random() < (0.8 if prop == 'C11' else 0.4):
                    # part of the work was done: a new array must find room of its own afterwards
                    for op2 in self.follow_up(m):
                        ops.append(op2)
                        p = pl.plan(op2)
                        if not p.skip and not p.ctx.errs and p.commit is not None:
                            p.commit()
                continue
            p = pl.plan(op)
            if op['op'] == 'clear' and p.lenient:
                # sizes that do not fit: assume they are refused
                continue
            if not p.skip and not p.ctx.errs and p.commit is not None:
                p.commit()
        return {'machine': NAME, 'prop': prop, 'cfg': cfg, 'ops': ops}

    # statements that do part of their work ----------------------------------

    def small_dims(self, name):
        rng = self.rng
        rank = rng.choice([1, 1, 1, 2, 2, 3])
        if rank == 1:
            return [rng.choice([1, 2, 3, 5, 10, 17, rng.randint(1, 30)])]
        return [rng.randint(1, 5 if rank == 2 else 3) for _ in range(rank)]

    def follow_up(self, m):
        rng = self.rng
        fresh = [n for n in self.xarr + self.anum + self.astr if n not in m.ar]
        if not fresh:
            return []
        name = rng.choice(fresh)
        out = [{'op': 'dim', 'n': name, 'd': self.small_dims(name), 'audit': True}]
        if rng.random() < 0.7:
            out.append({'op': 'fill', 'n': name, 'salt': rng.randint(1, 20000), 'audit': True})
        return out

    SAFE = 'ABCDEFGHIJKLMNOPQRSTUVWXYZabcdefghijklmnopqrstuvwxyz0123456789 .;!#$%&()*+-/<=>?@^_'

    def typed_value(self, line=False):
        rng = self.rng
        n = rng.choice([1, 2, 3, 5, 8, 8, 13, 30, 60, 120, 200])
        chars = self.SAFE + (',:"\'' if line else ',')
        v = ''.join(rng.choice(chars) for _ in range(n))
        if not line and rng.random() < 0.8:
            v = v.replace(',', 'c')
        if line:
            v = v.rstrip() or 'x'
        return v

    def gen_input(self, m):
        """Console INPUT / LINE INPUT, mostly into variables and arrays that are not there yet, mostly with
        free memory (before collection) down to what the typed strings need plus a little."""
        rng = self.rng
        line = rng.random() < 0.2
        items = []
        total = 0
        seen = set()
        for _ in range(1 if line else rng.choice([1, 2, 2, 3, 3, 4])):
            strs = line or rng.random() < 0.65
            r = rng.random()
            if r < 0.35:
                pool = [n for n in (self.astr if strs else self.anum) + self.xarr if is_str(n) == strs]
                fresh = [n for n in pool if n not in m.ar]
                if not pool:
                    continue
                name = rng.choice(fresh or pool)
                ref = {'n': name, 'i': self.subs_for(m, name, False)}
            elif r < 0.7:
                sig = '$' if strs else rng.choice('%!#')
                ref = {'n': gen_name(rng, sig, self.used, self.bases), 'i': None}
            else:
                ref = self.sref(m) if strs else self.nref(m)
            if ref_txt(ref) in seen:
                continue
            seen.add(ref_txt(ref))
            if strs:
                v = self.typed_value(line)
                total += len(v)
            else:
                v = rng.choice([0, 1, -1, 7, 255, 32767, -32768, rng.randint(-32768, 32767)])
            items.append([ref, v])
        if not items:
            return []
        out = []
        if rng.random() < 0.7:
            to = total + rng.choice([rng.randint(1, 8), rng.randint(1, 14), rng.randint(1, 45), rng.randint(1, 400)])
            out.append({'op': 'squeeze', 't': rng.choice(self.sstr), 'to': to})
        out.append({'op': 'input', 'line': line, 'v': items})
        return out

    def gen_prog(self, m):
        """A statement that changes the stored program, mostly followed by RUN to get the program's variables back."""
        rng = self.rng
        nums = sorted(m.prog)
        free = [n for n in nums if m.prog[n]['k'] not in PROTECTED]

        def text():
            n = rng.choice([0, 3, 10, 30, 80, 200])
            return ''.join(rng.choice('abcdefghijklmnopqrstuvwxyz XYZ0123456789') for _ in range(n)).strip()

        def newnum():
            r = rng.random()
            if nums and r < 0.3 and nums[0] > 1:
                return rng.randint(1, nums[0] - 1)
            if len(nums) > 1 and r < 0.7:
                i = rng.randrange(len(nums) - 1)
                if nums[i + 1] - nums[i] > 1:
                    return rng.randint(nums[i] + 1, nums[i + 1] - 1)
            return (nums[-1] if nums else 0) + rng.randint(1, 500)

        r = rng.random()
        if r < 0.38:
            lines = {}
            for _ in range(rng.choice([1, 2, 2, 3, 4])):
                n = rng.choice(free) if (free and rng.random() < 0.2) else newnum()
                lines[n] = text()
            op = {'op': 'pmerge', 'lines': [[n, lines[n]] for n in sorted(lines)]}
        elif r < 0.6:
            op = {'op': 'pline', 'n': rng.choice(free) if (free and rng.random() < 0.5) else newnum(), 'text': text()}
        elif r < 0.72:
            op = {'op': 'pdelete', 'n': rng.choice(free) if (free and rng.random() < 0.8) else newnum()}
        elif r < 0.82:
            op = {'op': 'prenum', 'new': rng.choice([10, 100, 1000, 3]), 'inc': rng.choice([10, 5, 1, 20])}
        else:
            return [{'op': 'prun'}]
        return [op, {'op': 'prun'}] if rng.random() < 0.6 else [op]

    def gen_restart(self, m):
        """A restart, then functions whose first argument is a temporary and whose later argument allocates."""
        rng = self.rng
        out = [{'op': 'restart'}]

        def cat():
            x = {'k': 'var', 'r': self.sref(m)}
            y = {'k': 'var', 'r': self.sref(m)} if rng.random() < 0.6 else {'k': 'lit', 'v': gen_lit(rng)[:20]}
            return {'k': 'cat', 'a': x, 'b': y} if rng.random() < 0.5 else {'k': 'cat', 'a': y, 'b': x}
        for _ in range(rng.choice([1, 2, 2, 3])):
            r = rng.random()
            if r < 0.5:
                e = {'k': rng.choice(['left', 'right']), 's': cat(), 'n': {'k': 'len', 's': cat()}}
            elif r < 0.75:
                e = {'k': 'mid', 's': cat(), 'p': rng.choice([1, 1, 2, 5]), 'n': {'k': 'len', 's': cat()}}
            else:
                out.append({'op': 'let', 't': {'n': rng.choice(self.snum), 'i': None}, 'e': {'k': 'instr', 'a': cat(), 'b': cat()}})
                continue
            if rng.random() < 0.7:
                out.append({'op': 'let', 't': self.sref(m), 'e': e})
            else:
                out.append({'op': 'probe', 'e': e})
        return out

    def gen_faillet(self, m):
        """LET to an element of an array that is not there yet with a right-hand side that fails, then a
        look at how the array got dimensioned."""
        rng = self.rng
        pool = self.astr + self.anum + self.xarr
        fresh = [n for n in pool if n not in m.ar]
        name = rng.choice(fresh) if fresh and rng.random() < 0.9 else rng.choice(pool)
        if name in m.ar:
            subs = self.subs_for(m, name, False)
        else:
            rank = rng.choice([1, 1, 2, 2, 3])
            if is_str(name) and rank > 2 and 0 < self.gc_every < 5:
                rank = 2
            subs = [rng.randint(m.base, 10) for _ in range(rank)]
        t = {'n': name, 'i': subs}
        r = rng.random()
        if r < 0.3:
            # the array itself with another number of subscripts
            other = subs[:-1] if (len(subs) > 1 and rng.random() < 0.5) else subs + [rng.randint(m.base, 10)]
            e = {'k': 'var', 'r': {'n': name, 'i': other}}
        elif r < 0.5:
            e = {'k': 'var', 'r': (self.sref if is_str(name) else self.nref)(m, elem_p=1.0, oob_p=1.0)}
        elif is_str(name):
            e = rng.choice([{'k': 'chr', 'c': 256}, {'k': 'left', 's': {'k': 'lit', 'v': 'ab'}, 'n': -1},
                            {'k': 'cat', 'a': {'k': 'space', 'n': 200}, 'b': {'k': 'space', 'n': 56}}])
        elif name[-1] == '%' and rng.random() < 0.5:
            e = {'k': 'int', 'v': rng.choice([32768, 40000, -32769])}
        else:
            e = {'k': 'asc', 's': {'k': 'lit', 'v': ''}}
        out = [{'op': 'let', 't': t, 'e': e}]
        r = rng.random()
        if r < 0.4:
            out.append({'op': 'dim', 'n': name, 'd': self.small_dims(name)})
        elif r < 0.7:
            other = subs[:-1] if len(subs) > 1 else subs + [rng.randint(m.base, 10)]
            ref = {'n': name, 'i': other}
            if is_str(name):
                out.append({'op': 'let', 't': ref, 'e': {'k': 'lit', 'v': gen_lit(rng)[:8]}})
            else:
                out.append({'op': 'let', 't': ref, 'e': {'k': 'int', 'v': rng.randint(-99, 99)}})
        return out

    def gen_merase(self, m):
        rng = self.rng
        allarr = self.astr + self.anum + self.xarr
        names = []
        for _ in range(rng.choice([1, 2, 2, 2, 3, 3, 4])):
            r = rng.random()
            live = [n for n in m.ar if n not in names]
            if r < 0.62 and live:
                names.append(rng.choice(live))
            elif r < 0.72 and names:
                names.append(rng.choice(names))
            elif r < 0.82:
                names.append(rng.choice(self.snum + self.sstr))
            elif r < 0.94:
                names.append(rng.choice(allarr))
            else:
                names.append('ZZ9' + rng.choice('%!#$'))
        r = rng.random()
        tail = '' if r < 0.8 else (',' if r < 0.9 else rng.choice(['(1)', ',,']))
        return {'op': 'merase', 'n': names, 'tail': tail}

    def gen_mdim(self, m):
        rng = self.rng
        allarr = self.astr + self.anum + self.xarr
        items = []
        for _ in range(rng.choice([1, 2, 2, 3, 3, 4])):
            taken = [n for n, _ in items]
            fresh = [n for n in allarr if n not in m.ar and n not in taken]
            r = rng.random()
            if r < 0.6 and fresh:
                name = rng.choice(fresh)
            elif r < 0.8 and m.ar:
                name = rng.choice(list(m.ar))
            elif r < 0.88 and taken:
                name = rng.choice(taken)
            else:
                name = rng.choice(allarr)
            r = rng.random()
            if r < 0.1:
                dims = rng.choice([[32767], [200, 200, 200], [255, 255, 3]])
            elif r < 0.14:
                dims = rng.choice([[-1], [2, -1]])
            elif r < 0.2:
                dims = [0] * rng.choice([1, 2])
            else:
                dims = self.small_dims(name)
            items.append([name, dims])
        return {'op': 'mdim', 'a': items, 'tail': '' if rng.random() < 0.9 else ','}

    def fail_part(self, m):
        """A statement that fails in most states without doing anything."""
        rng = self.rng
        allarr = self.astr + self.anum + self.xarr
        r = rng.random()
        if r < 0.2:
            gone = [n for n in allarr + self.snum if n not in m.ar]
            return {'op': 'erase', 'n': rng.choice(gone) if gone else 'ZZ9%'}
        if r < 0.35 and m.ar:
            name = rng.choice(list(m.ar))
            return {'op': 'dim', 'n': name, 'd': self.small_dims(name)}
        if r < 0.55:
            names = list(m.sc)
            if names:
                x = rng.choice(names)
                other = [n for n in names if n[-1] != x[-1]]
                if other:
                    return {'op': 'swap', 'a': {'n': x, 'i': None}, 'b': {'n': rng.choice(other), 'i': None}}
            return {'op': 'swap', 'a': self.sref(m), 'b': self.nref(m)}
        if r < 0.7:
            return {'op': 'let', 't': self.nref(m), 'e': {'k': 'asc', 's': {'k': 'lit', 'v': ''}}}
        if r < 0.8:
            return {'op': 'let', 't': self.sref(m), 'e': {'k': 'chr', 'c': rng.choice([256, -1])}}
        if r < 0.9:
            return {'op': 'let', 't': self.nref(m, elem_p=1.0, oob_p=1.0), 'e': {'k': 'int', 'v': rng.randint(-9, 9)}}
        ints = [n for n in self.snum if n[-1] == '%']
        if ints:
            return {'op': 'let', 't': {'n': rng.choice(ints), 'i': None}, 'e': {'k': 'int', 'v': rng.choice([32768, -32769, 40000])}}
        return {'op': 'let', 't': self.nref(m), 'e': {'k': 'asc', 's': {'k': 'lit', 'v': ''}}}

    def gen_line(self, m, floor):
        rng = self.rng
        kinds = ['lets', 'letn', 'letn', 'swap', 'dim', 'erase', 'merase', 'mdim', 'mid', 'lset']
        parts = []
        for _ in range(rng.choice([2, 2, 3, 3, 4])):
            op = self.make_op(rng.choice(kinds), m, floor)
            if op is not None:
                parts.append(op)
        if rng.random() < 0.75:
            parts.insert(rng.randint(min(1, len(parts)), len(parts)), self.fail_part(m))
        return {'op': 'line', 'parts': parts}

    def make_op(self, kind, m, floor):
        rng = self.rng
        oob = 0.04
        if kind == 'lets':
            return {'op': 'let', 't': self.sref(m, oob_p=oob), 'e': self.sexpr(m, 0, oob)}
        if kind == 'letn':
            return {'op': 'let', 't': self.nref(m, oob_p=oob), 'e': self.nexpr(m, oob)}
        if kind == 'elem':
            # C12: element access in and out of bounds, reads and writes, strings and numbers
            bad = rng.random() < 0.4
            if rng.random() < 0.35:
                t = self.sref(m, elem_p=1.0, oob_p=1.0 if bad else 0.0)
                if rng.random() < 0.5:
                    return {'op': 'let', 't': t, 'e': {'k': 'lit', 'v': gen_lit(rng)[:10]}}
                return {'op': 'let', 't': {'n': rng.choice(self.sstr), 'i': None}, 'e': {'k': 'var', 'r': t}}
            t = self.nref(m, elem_p=1.0, oob_p=1.0 if bad else 0.0)
            if rng.random() < 0.5:
                return {'op': 'let', 't': t, 'e': {'k': 'int', 'v': rng.randint(-32768, 32767)}}
            return {'op': 'let', 't': {'n': rng.choice(self.snum), 'i': None}, 'e': {'k': 'var', 'r': t}}
        if kind == 'probe':
            return {'op': 'probe', 'e': self.sexpr(m, 0) if rng.random() < 0.8 else self.nexpr(m)}
        if kind == 'mid':
            t = self.sref(m)
            cur = len(m.get_value(t)) if (t['i'] is None or m.in_bounds(t)) else 0
            st = rng.randint(1, max(1, cur)) if rng.random() < 0.85 else rng.choice([0, cur + 1, 255, 256])
            n = rng.choice([None, None, rng.randint(0, 12), 255, 0]) if rng.random() < 0.95 else rng.choice([-1, 256])
            e = {'k': 'var', 'r': t} if rng.random() < 0.2 else self.sexpr(m, 1)
            return {'op': 'mid', 't': t, 'st': st, 'n': n, 'e': e}
        if kind == 'lset':
            return {'op': 'lset', 't': self.sref(m), 'e': self.sexpr(m, 1), 'r': rng.random() < 0.5}
        if kind == 'swap':
            if rng.random() < 0.6:
                return {'op': 'swap', 'a': self.sref(m), 'b': self.sref(m)}
            a = self.nref(m)
            same = [n for n in self.snum + self.anum if n[-1] == a['n'][-1]]
            name = rng.choice(same)
            if name in self.anum:
                bref = {'n': name, 'i': self.subs_for(m, name, False)}
            else:
                bref = {'n': name, 'i': None}
            return {'op': 'swap', 'a': a, 'b': bref}
        if kind == 'dim':
            name = rng.choice(self.astr + self.anum)
            big = self.prop == 'C12' and rng.random() < 0.25
            rank = rng.choice([1, 1, 1, 2, 2, 3, 4]) if self.prop == 'C12' else rng.choice([1, 1, 2, 2, 3])
            while True:
                dims = [rng.choice([0, 1, 2, 3, 4, 5, 7, 10, 30, rng.randint(0, 30)]) if big or rank == 1
                        else rng.randint(0, 6) for _ in range(rank)]
                cap = 4000 if big else 400
                if is_str(name) and 0 < self.gc_every < 5:
                    # a collection per allocation over thousands of descriptors costs seconds per run
                    cap = 300
                if n_elems(dims, 0) <= cap:
                    break
            if rng.random() < 0.03:
                dims[rng.randrange(rank)] = -1
            return {'op': 'dim', 'n': name, 'd': dims}
        if kind == 'erase':
            names = list(m.ar) if (m.ar and rng.random() < 0.9) else self.astr + self.anum
            return {'op': 'erase', 'n': rng.choice(names)}
        if kind == 'fre':
            return {'op': 'fre', 's': rng.random() < 0.6}
        if kind == 'clear':
            if rng.random() < 0.4:
                return {'op': 'clear', 'mem': None, 'stack': None}
            stack = rng.choice([256, 512, 512, 700, 1024])
            lo = floor + stack + 120
            if lo >= m.mem:
                return {'op': 'clear', 'mem': None, 'stack': None}
            mem = rng.choice([m.mem, rng.randint(lo, m.mem), min(m.mem, lo + int(100 * 50.0 ** rng.random()))])
            if rng.random() < 0.08:
                # sizes that cannot hold the program and the stack
                mem = rng.choice([2, 25, 1000, floor, floor + stack - 1, rng.randint(1, floor + stack - 1)])
            return {'op': 'clear', 'mem': mem, 'stack': stack, 'floor': floor}
        if kind == 'field':
            if not m.reclen:
                return None
            parts = []
            left = m.reclen
            for _ in range(rng.randint(1, 3)):
                if left <= 0:
                    break
                wdt = rng.randint(0, left) if rng.random() < 0.8 else left
                parts.append([wdt, self.sref(m, elem_p=0.2)])
                left -= wdt
            return {'op': 'field', 'f': parts}
        if kind == 'fill':
            names = list(m.ar)
            if not names:
                return None
            return {'op': 'fill', 'n': rng.choice(names), 'salt': rng.randint(1, 20000)}
        if kind == 'optbase':
            return {'op': 'optbase', 'b': rng.choice([0, 1])}
        if kind == 'merase':
            return self.gen_merase(m)
        if kind == 'mdim':
            return self.gen_mdim(m)
        if kind == 'line':
            return self.gen_line(m, floor)
        if kind == 'restart':
            return {'op': 'restart'}
        raise K.HarnessError(kind)


def gen(rng, tier, prop):
    return Gen(rng, tier, prop).make()


def simplify(cfg, ops):
    if cfg.get('gc', {}).get('every'):
        yield dict(cfg, gc={'every': 0, 'phase': 0, 'skip': 0}), ops
        if cfg['gc'].get('skip'):
            yield dict(cfg, gc=dict(cfg['gc'], skip=0)), ops
    if cfg['max_memory'] != 65534:
        yield dict(cfg, max_memory=65534), ops
    if cfg.get('plets'):
        yield dict(cfg, plets=[]), ops
    if cfg.get('fns'):
        yield dict(cfg, fns=[]), ops
    if cfg.get('field'):
        yield dict(cfg, field=0), ops
    if cfg.get('base') is not None:
        yield dict(cfg, base=None), ops
    for i, op in enumerate(ops):
        # statement lists: fewer parts / names, a single part instead of the line
        for key in {'line': ('parts',), 'merase': ('n',), 'mdim': ('a',)}.get(op['op'], ()):
            lst = op.get(key, [])
            if op['op'] == 'line' and len(lst) == 1:
                yield cfg, ops[:i] + [lst[0]] + ops[i + 1:]
            if len(lst) > 1:
                for j in range(len(lst)):
                    yield cfg, ops[:i] + [dict(op, **{key: lst[:j] + lst[j + 1:]})] + ops[i + 1:]
        if op.get('tail'):
            yield cfg, ops[:i] + [dict(op, tail='')] + ops[i + 1:]
        if op.get('audit'):
            yield cfg, ops[:i] + [{k: v for k, v in op.items() if k != 'audit'}] + ops[i + 1:]
        e = op.get('e')
        if isinstance(e, dict):
            for sub in ('a', 'b', 's'):
                if isinstance(e.get(sub), dict) and (e['k'] == 'cat' or (sub == 's' and e['k'] in ('left', 'right', 'mid'))):
                    yield cfg, ops[:i] + [dict(op, e=e[sub])] + ops[i + 1:]
            if e['k'] == 'lit' and len(e['v']) > 2:
                yield cfg, ops[:i] + [dict(op, e={'k': 'lit', 'v': e['v'][:len(e['v']) // 2]})] + ops[i + 1:]
