"""
play machine - C42: PLAY emits the notes its music string specifies, whatever the schedule and
wherever the variables it refers to happen to live.

One run = one Session (syntax 'advanced': one voice, no Tandy synchronisation balloons) and a
history of
    var    assign a string (X substring) or numeric (=var;) variable: scalars and array elements
    pad    define filler scalars first, so that the variables the music refers to come to lie at
           other addresses; optionally so many that the low address byte of the next variable (or of
           an existing array element) is a byte that means something in MML (blank, ';', '=', digits,
           command letters, ...): the three bytes of a VARPTR$ reference are binary, not MML text
    dim    DIM an array (a large one moves the arrays defined later to high addresses)
    line   store REM lines of a given size (moves the whole variable area), then CLEAR
    play   PLAY <mml>  (foreground or background as the MML state says), optionally with a
           Ctrl-Break scheduled `break_at` simulated seconds after the statement starts, or at the
           `break_poll`-th event poll of the statement
    stmt   a direct-mode statement that has nothing to do with music: STOP, END, ERROR n, PRINT, ...
    sleep  simulated time passes between statements (the queue drains, or does not)
    jump   host clock step (small backwards, larger forwards)
    reset  CLEAR (documented to reset the PLAY state and stop sound)
    restart  Session.suspend to a file, close; `s` simulated seconds pass; Session.resume, attach the
           (recording) audio queue anew - typically while background music is queued
on a simulated clock with seeded sleep(0) jitter. The audio queue is the recording queue of the
World; tones are read from `world.audio.signals`.
Modes (cfg['mode']): 'direct' - every statement is a direct-mode line; 'program' - the var/play/reset
ops are lines of a stored program, each followed by a STOP; the program is RUN (its first line sets
every PLAY state variable) and taken up again for each op with CONT (or GOTO <line>: after an error
or a Break, and throughout when cfg['resume'] == 'goto'); the other ops, and play ops marked
'direct', are direct-mode statements given while the program is stopped. cfg['session'] varies
reserved_memory/max_files/max_reclen, which moves the variable area as a whole; cfg['hi'] is the high
address byte aimed at (program mode tops up with REM lines).

Oracles
  * reference MML interpreter (`RefPlayer`) -> list of (frequency, sounding time, silence);
    the AUDIO_TONE signals recorded during the statement must be exactly that list (silences
    coalesced on both sides, so the comparison does not depend on whether a gap is a separate
    queue entry). The reference state (octave, L, T, MN/ML/MS, MF/MB) persists over statements,
    over Ctrl-Break, STOP, END, CONT, GOTO, errors and direct-mode statements; it is reset by CLEAR
    only. After NEW / RUN / storing a line the machine does not say what the state is: it sets it.
    Frequencies: index i = octave*12 + semitone (N n: i = n-1), f = 440*2^((i-33)/12), i.e. the
    reading of the property under which every A is 440*2^k Hz.
  * malformed strings -> error 5 (tones before the malformed command may or may not have been
    emitted: only "a prefix of what the string specifies up to there" is required); well-formed
    strings -> no error. A statement that ended in an error or a Break: every command takes effect
    when it is interpreted, so the commands up to the one that made the last entry the engine
    emitted have taken effect; the statement may have been given up at any command after that one
    (up to the malformed one). If all of these leave the same PLAY state, that is the state the
    next PLAY is judged with (so: a Break during the wait of a foreground PLAY, or of a background
    PLAY whose tones have all been queued, leaves the state the string set; so does an Illegal
    function call behind state-changing commands that were followed by a note). Otherwise the
    machine sets every state variable explicitly (`PLAY "MF O4 L4 T120 MN"`) on both sides (also
    after a reported violation, so that consequences are not reported again).
  * restart: the entries emitted to the audio queue attached after the resume are the entries of
    the queue model that had not finished at the suspend, in order, with their frequency and
    duration; the first one (it was sounding) with what was left of it up to all of it; the PLAY
    state and the variables survive; PLAY(0) is the number of notes and rests (not gaps) among
    them, with or without the one sounding. Judged only where the model knows the queue (not
    after clock steps / STOP with sound queued).
  * bounded liveness, in simulated time, from a model of the sound queue (absolute end time of
    every queued tone/gap): a foreground PLAY returns no later than the end of the last note +
    a tick (+ poll jitter), and not before the last note has started; a background PLAY that
    leaves at most 16 entries waiting does not block, and never blocks beyond the instant at
    which 32 entries are left; a Break delivered during a blocked PLAY ends it within a tick.
    After a clock step with sound still queued these bounds are not judged until the queue is
    known to be empty again (CLEAR or Break); after STOP/END/an error in a program (back to direct
    mode: sound may or may not go on) not until the sound queued then would have ended anyway.
Not covered: Tandy/PCjr multi-voice PLAY and V; SOUND/NOISE/BEEP; shapes whose meaning GW-BASIC
documentation leaves open (length 0, P0, E#/B#/C-/F-, blanks inside numbers, signed numbers,
doubled or trailing semicolons, dots after N); array elements referred to by name (=A%(1););
strings that hold a pointer to an array element and also create a scalar by naming it (the pointer
goes stale); QUIT/suspend in the middle of a PLAY statement; VARPTR$ of a scalar that an earlier string may have created by naming it; strings of
more than 255 bytes; CONT itself (a program that does not arrive at the next STOP is given up,
probe 'program-lost').
"""

import re

from .. import kernel as K
from ..basicdrv import Driver, EngineCrash
from .common import Run, execute, b, u, shash

NAME = 'play'
PROPS = ('C42',)
RULE = ('one evaluation = one simulated session history (direct mode, or a stored program stopped and continued '
        'between statements) of variable placements and PLAY statements with simulated time, clock steps, Ctrl-Break, '
        'STOP/END/errors in between; distinct = distinct (op kind, foreground?, articulation, queue-length bucket at '
        'the start, blocked?, break fired?, outcome, command kinds present, in program?, what the PLAY state was '
        'carried over) tuples; non-trivial = at least one statement emitted tones that were compared with the '
        'reference interpreter')
REAL = ['pcbasic.basic (whole package)', 'pcbasic.basic.sound (Sound.play_, emit_tone, TimedQueue)',
        'pcbasic.basic.mlparser', 'pcbasic.basic.eventcycle (wait loop, Break)',
        'pcbasic.basic.memory (scalars, arrays, VARPTR$ dereference)', 'pcbasic.basic.interpreter (Break, STOP, CONT)',
        'pcbasic.basic.state (suspend/resume), Sound.rebuild, TimedQueue pickling']
STUB = ['wall clock (simulated: datetime.now, time.sleep)', 'audio back end (recording queue)',
        'keyboard (Ctrl-Break signal injected at a simulated time or at a chosen poll)']
ASSUMPTIONS = [
    'syntax=advanced only (single voice)',
    'note index i = octave*12 + semitone = N-1 with f = 440*2^((i-33)/12)',
]
BATCH = 20

TICK = 0.006
SEMITONE = {'C': 0, 'D': 2, 'E': 4, 'F': 5, 'G': 7, 'A': 9, 'B': 11}
SHARP_OK = 'CDFGA'
FLAT_OK = 'DEGAB'
VP0, VP1 = '\x01', '\x02'      # placeholder brackets for VARPTR$(name) inside an mml string


def quick_runs(prop):
    return 12000


###############################################################################
# reference MML interpreter

class MalformedMML(Exception):
    pass


class RefPlayer(object):

    def __init__(self):
        self.reset()

    def reset(self):
        self.octave = 4
        self.length = 4
        self.tempo = 120
        self.gap = 1. / 8
        self.foreground = True

    def defaults_string(self):
        return 'MF O4 L4 T120 MN'

    def state(self):
        return (self.octave, self.length, self.tempo, self.gap, self.foreground)

    def play(self, mml, variables, events, kinds):
        """
        Interpret; appends (freq, sounding, silence) to `events` and command kinds to `kinds`;
        raises MalformedMML at the first malformed command. State changes and events made
        before the error stay; `self.trace` holds the state before the string and after every
        command interpreted, `self.touched` the unassigned variables referred to by name
        (the caller resynchronises the state explicitly where it cannot be known).
        """
        s = list(mml)
        i = [0]
        depth = [0]
        self.trace = [self.state()]
        self.touched = set()
        # the queue entries the string specifies, one by one: (frequency, seconds, counts as a note?)
        # (a gap is an entry of its own, a rest is one entry), and their number after each command
        self.raw = []
        self.trace_n = [0]
        # a pointer to an array element goes stale when a scalar is created (arrays move up):
        # a string that holds one and also creates a variable by naming it is not judged
        array_pointer = re.search('\x01[^\x02]*[(]', mml) is not None

        def value(nm, named):
            if nm in variables:
                return variables[nm]
            if named:
                if array_pointer:
                    raise MalformedMML('unspecified-stale-array-pointer')
                self.touched.add(nm)
            return '' if '$' in nm else 0

        def skip():
            while i[0] < len(s) and s[i[0]] == ' ':
                i[0] += 1

        def peek():
            skip()
            return s[i[0]] if i[0] < len(s) else ''

        def read():
            c = peek()
            if c:
                i[0] += 1
            return c

        def name():
            # variable name: letter, then letters/digits/dots, optional sigil
            skip()
            j = i[0]
            if j < len(s) and s[j].isalpha():
                j += 1
                while j < len(s) and (s[j].isalnum() or s[j] == '.'):
                    j += 1
                if j < len(s) and s[j] in '%!#$':
                    j += 1
            nm = ''.join(s[i[0]:j]).upper()
            i[0] = j
            if not nm:
                raise MalformedMML('missing-variable')
            return nm

        def varref():
            """After '=' or 'X': a named variable followed by ';', or a VARPTR$ placeholder."""
            if i[0] < len(s) and s[i[0]] == VP0:
                j = s.index(VP1, i[0])
                nm = ''.join(s[i[0] + 1:j]).upper()
                i[0] = j + 1
                kinds.add('varptr')
                return value(nm, False)
            if peek() == '':
                raise MalformedMML('missing-variable')
            nm = name()
            if read() != ';':
                raise MalformedMML('missing-semicolon')
            return value(nm, True)

        def digits():
            j = i[0]
            while j < len(s) and s[j].isdigit():
                j += 1
            txt = ''.join(s[i[0]:j])
            i[0] = j
            k = j
            while k < len(s) and s[k] == ' ':
                k += 1
            if k > j and k < len(s) and s[k].isdigit():
                # digits, blanks, digits: one number or a number and a stray digit? not specified
                raise MalformedMML('unspecified-blank-in-number')
            return txt

        def number():
            c = peek()
            if c == '=':
                i[0] += 1
                kinds.add('=var')
                v = varref()
                if isinstance(v, str):
                    raise MalformedMML('type')
                return int(v)
            if c.isdigit():
                return int(digits())
            raise MalformedMML('missing-number')

        def dots():
            n = 0
            while peek() == '.':
                i[0] += 1
                n += 1
            return n

        def emit(freq, length, ndots, rest=False):
            d = (240. / self.tempo) / length * (1.5 ** ndots)
            if rest:
                events.append((0., 0., d))
                self.raw.append((0., d, True))
            else:
                events.append((freq, d * (1 - self.gap), d * self.gap))
                self.raw.append((freq, d * (1 - self.gap), True))
                if self.gap:
                    self.raw.append((0., d * self.gap, False))

        while True:
            c = read().upper()
            if c == '':
                break
            if c == ';':
                # one separator between commands
                c = read().upper()
                if c in ('', ';'):
                    raise MalformedMML('unspecified-semicolon')
            if c in SEMITONE:
                kinds.add('note')
                idx = self.octave * 12 + SEMITONE[c]
                a = peek()
                if a and a in '#+':
                    i[0] += 1
                    if c not in SHARP_OK:
                        raise MalformedMML('accidental')
                    idx += 1
                elif a == '-':
                    i[0] += 1
                    if c not in FLAT_OK:
                        raise MalformedMML('accidental')
                    idx -= 1
                length = self.length
                if peek().isdigit():
                    length = int(digits())
                    if not 1 <= length <= 64:
                        raise MalformedMML('range')
                    kinds.add('note-length')
                nd = dots()
                if nd:
                    kinds.add('dots')
                emit(440. * 2 ** ((idx - 33) / 12.), length, nd)
            elif c == 'P':
                kinds.add('pause')
                if not peek().isdigit():
                    raise MalformedMML('missing-number')
                length = int(digits())
                if not 1 <= length <= 64:
                    raise MalformedMML('range')
                emit(0, length, dots(), rest=True)
            elif c == 'N':
                kinds.add('N')
                n = number()
                if not 0 <= n <= 84:
                    raise MalformedMML('range')
                if n == 0:
                    emit(0, self.length, 0, rest=True)
                else:
                    emit(440. * 2 ** ((n - 1 - 33) / 12.), self.length, 0)
            elif c == 'L':
                kinds.add('L')
                n = number()
                if not 1 <= n <= 64:
                    raise MalformedMML('range')
                self.length = n
            elif c == 'T':
                kinds.add('T')
                n = number()
                if not 32 <= n <= 255:
                    raise MalformedMML('range')
                self.tempo = n
            elif c == 'O':
                kinds.add('O')
                n = number()
                if not 0 <= n <= 6:
                    raise MalformedMML('range')
                self.octave = n
            elif c == '>':
                kinds.add('clamp' if self.octave == 6 else '<>')
                self.octave = min(6, self.octave + 1)
            elif c == '<':
                kinds.add('clamp' if self.octave == 0 else '<>')
                self.octave = max(0, self.octave - 1)
            elif c == 'M':
                m = read().upper()
                kinds.add('M' + m)
                if m == 'N':
                    self.gap = 1. / 8
                elif m == 'L':
                    self.gap = 0.
                elif m == 'S':
                    self.gap = 1. / 4
                elif m == 'F':
                    self.foreground = True
                elif m == 'B':
                    self.foreground = False
                else:
                    raise MalformedMML('bad-mode')
            elif c == 'X':
                kinds.add('X')
                depth[0] += 1
                if depth[0] > 50:
                    raise K.HarnessError('X recursion in generated MML')
                sub = varref()
                if not isinstance(sub, str):
                    raise MalformedMML('type')
                s[i[0]:i[0]] = list(sub)
            else:
                raise MalformedMML('unknown-command')
            self.trace.append(self.state())
            self.trace_n.append(len(self.raw))

    def run(self, mml, variables):
        """-> (events, error class or None, command kinds)"""
        events, kinds = [], set()
        try:
            self.play(mml, variables, events, kinds)
            return events, None, kinds
        except MalformedMML as e:
            kinds.add('malformed')
            return events, str(e), kinds


def coalesce(items):
    """[(freq, dur)] with neighbouring silences merged and zero-length entries dropped."""
    out = []
    for f, d in items:
        if d == 0:
            continue
        if f == 0 and out and out[-1][0] == 0:
            out[-1] = (0, out[-1][1] + d)
        else:
            out.append((f, d))
    return out


def flatten(events):
    items = []
    for f, snd, sil in events:
        if snd:
            items.append((f, snd))
        if sil:
            items.append((0, sil))
    return coalesce(items)


def close(a, b_):
    return abs(a - b_) <= 1e-9 * max(abs(a), abs(b_), 1e-3)


###############################################################################
# generator

LENGTHS = [1, 2, 4, 4, 8, 8, 16, 16, 32, 64, 3, 6, 12, 5, 7, 63]


def _token(rng, speed):
    r = rng.random()
    if r < 0.42:
        c = rng.choice('ABCDEFG')
        t = c
        a = rng.random()
        if a < 0.2 and c in SHARP_OK:
            t += rng.choice('#+')
        elif a < 0.35 and c in FLAT_OK:
            t += '-'
        if rng.random() < 0.4:
            t += str(rng.choice(LENGTHS if speed != 'fast' else [16, 32, 64, 8, 24, 48]))
        if rng.random() < 0.25:
            t += '.' * rng.choice([1, 1, 2, 3])
        return t
    if r < 0.50:
        return 'P' + str(rng.choice(LENGTHS if speed != 'fast' else [16, 32, 64])) + ('.' if rng.random() < 0.2 else '')
    if r < 0.56:
        return 'N' + str(rng.choice([0, 1, 2, 12, 33, 34, 37, 60, 83, 84, rng.randint(0, 84)]))
    if r < 0.64:
        return 'L' + str(rng.choice([1, 2, 4, 8, 16, 32, 64, 3, 63]) if speed != 'fast' else rng.choice([16, 32, 64, 24]))
    if r < 0.72:
        return 'T' + str(rng.choice([32, 60, 120, 200, 255, 254, 33]) if speed != 'fast' else rng.choice([255, 240, 200, 180]))
    if r < 0.79:
        return 'O' + str(rng.randint(0, 6))
    if r < 0.89:
        return rng.choice(['<', '>']) * rng.choice([1, 1, 2, 7])
    return rng.choice(['MN', 'ML', 'MS', 'MN', 'ML', 'MS', 'MF', 'MB', 'MB'])


MALFORMED = [
    ('H', 'unknown-command'), ('Q4', 'unknown-command'), ('V8', 'unknown-command'), ('!', 'unknown-command'),
    ('R', 'unknown-command'), ('Z', 'unknown-command'), ('#', 'unknown-command'),
    ('L0', 'range'), ('L65', 'range'), ('L255', 'range'), ('T31', 'range'), ('T256', 'range'), ('T0', 'range'),
    ('O7', 'range'), ('O9', 'range'), ('N85', 'range'), ('N255', 'range'), ('C65', 'range'), ('G#100', 'range'),
    ('P65', 'range'), ('P', 'missing-number'), ('L', 'missing-number'), ('T', 'missing-number'), ('O', 'missing-number'),
    ('N', 'missing-number'), ('MX', 'bad-mode'), ('M1', 'bad-mode'), ('L=QZ%', 'missing-semicolon'),
]


STRINGS = ['A$', 'B$', 'M9$']                   # a string may include (X) only strings further right
NUMBERS = ['N%', 'K%', 'T!', 'Q#', 'ZZ.1%']
ARRAYS = ['AR%', 'SA$', 'DV%']                  # elements are referred to through VARPTR$ only
NUMVALUES = [1, 2, 4, 8, 16, 32, 64, 0, 3, 6, 33, 84, 85, 120, 255, 256, 5]
# memory layout constants of the engine, used only to steer addresses (never to judge)
FILE_HEADER = 194
DEFAULT_RESERVED = 3429

# bytes that mean something in MML: an address byte of a VARPTR$ reference that equals one of
# them must still be read as an address byte
BYTE_CLASSES = [
    ('blank', [0x20]), ('semicolon', [0x3B]), ('equals', [0x3D]),
    ('digit', list(range(0x30, 0x3A))), ('sign', [0x23, 0x2B, 0x2D, 0x2E]),
    ('command', [ord(c) for c in 'ABCDEFGLMNOPTX<>']), ('lower', [ord(c) for c in 'abcdefglmnoptx']),
    ('bracket', [0x22, 0x28, 0x29, 0x2C, 0x5B, 0x5D, 0x24, 0x25, 0x21]),
    ('control', list(range(0, 9))), ('edge', [0xFF, 0x80, 0x7F, 0x0D, 0x0A, 0x09, 0xA0, 0xC8]),
]
BYTE_CLASS = {}
for _nm, _vals in BYTE_CLASSES:
    for _v in _vals:
        BYTE_CLASS.setdefault(_v, _nm)


def _pick_byte(rng, lowest=0, highest=255):
    for _ in range(8):
        v = rng.choice(rng.choice(BYTE_CLASSES)[1])
        if lowest <= v <= highest:
            return v
    return 0x20


RANGES = {'L': (1, 64), 'T': (32, 255), 'O': (0, 6), 'N': (0, 84)}


def _mml(rng, n, speed, names, p_ref=0.10, p_ptr=0.3, numbers=None):
    """`numbers`: what the numeric variables hold, to pick commands that accept the value (mostly)."""
    toks = []
    for _ in range(n):
        r = rng.random()
        if names and r < p_ref:
            nm = rng.choice(names)
            ptr = '(' in nm or rng.random() < p_ptr
            if nm.endswith('$') or '$(' in nm:
                toks.append('X' + VP0 + nm + VP1 if ptr else 'X' + nm + ';')
            else:
                cmd = rng.choice('LTON')
                fits = [c for c in 'LTON' if numbers and nm in numbers and RANGES[c][0] <= numbers[nm] <= RANGES[c][1]]
                if fits and rng.random() < 0.85:
                    cmd = rng.choice(fits)
                toks.append(cmd + '=' + VP0 + nm + VP1 if ptr else cmd + '=' + nm + ';')
        else:
            toks.append(_token(rng, speed))
    out = ''
    for i, t in enumerate(toks):
        out += t
        if i + 1 < len(toks):
            k = rng.random()
            if k < 0.25:
                out += ' ' * rng.randint(1, 2)
            elif k < 0.32 and not t.endswith(';') and VP1 not in t:
                out += ';'
    if rng.random() < 0.3:
        # (not inside a VARPTR$ placeholder: the name is BASIC source there)
        parts = re.split('(\x01[^\x02]*\x02)', out)
        out = ''.join(p if p.startswith(VP0) else ''.join(c.lower() if rng.random() < 0.5 else c for c in p) for p in parts)
    return out


def _mml_len(mml):
    """Length of the string PLAY gets: a VARPTR$ reference is three bytes."""
    return len(re.sub('\x01[^\x02]*\x02', '...', mml))


def _fillers(rng, serial, n):
    """n filler scalars of varied sizes: ['PF0301QQ%', ...] (unique names, no keywords inside)."""
    out = []
    for j in range(n):
        stem = 'PF%02d%02d' % (serial % 100, j)
        out.append(stem + 'Q' * rng.choice([0, 0, 0, 1, 2, 3, 5, 9, 17, 30]) + rng.choice('%%!#$'))
    return out


STMTS = ['STOP', 'STOP', 'STOP', 'ERROR 5', 'ERROR 200', 'END', 'PRINT 1', 'ZQ%=ZQ%+1', 'RESTORE', 'LOCATE 1,1',
         'RANDOMIZE 7', 'DEF SEG', 'ZF!=FRE("")', 'PRINT 1/0']


def gen(rng, tier, prop):
    thorough = tier != 'quick'
    speed = rng.choice(['fast', 'fast', 'mixed'])
    n = rng.randint(3, 40 if thorough else 14)
    mode = 'program' if rng.random() < 0.3 else 'direct'
    ops = []
    names = []          # names the strings may refer to (they may have been CLEARed since)
    numbers = {}        # last value given to a numeric variable
    defined = set()     # names assigned since the last CLEAR
    arrays = set()
    serial = [0]
    schedule = rng.choice(['tight', 'tight', 'drain', 'mixed'])
    # how much the history moves variables about
    spread = rng.choice(['none', 'some', 'some', 'much'])
    p_ref, p_ptr = rng.choice([(0.10, 0.3), (0.10, 0.3), (0.16, 0.6), (0.25, 0.8)])

    def pad(target=None):
        serial[0] += 1
        op = {'op': 'pad', 'id': serial[0], 'names': _fillers(rng, serial[0], rng.choice([0, 1, 2, 3, 5, 8, 13, 30]))}
        if target is not None:
            op['for'] = target
            if rng.random() < 0.6:
                op['lo'] = _pick_byte(rng)
        return op

    def var(nm):
        base = nm.split('(')[0]
        if nm.endswith('$') or '$(' in nm:
            inner = []
            if nm in STRINGS:
                inner = [x for x in names if x in STRINGS and STRINGS.index(x) > STRINGS.index(nm)][:1]
                inner += [x for x in names if x in NUMBERS][:1]
            val = _mml(rng, rng.randint(1, 24), speed, inner, 0.10, 0.0, numbers)
            if rng.random() < 0.1:
                val += rng.choice(MALFORMED)[0]
        else:
            val = rng.choice(NUMVALUES)
            numbers[nm] = val
        if nm not in names:
            names.append(nm)
        defined.add(nm)
        arrays.add(base)
        return {'op': 'var', 'name': nm, 'value': val}

    def pick_name():
        r = rng.random()
        if r < 0.25 or spread == 'none':
            return rng.choice(['A$', 'B$', 'N%', 'K%', 'T!', 'Q#'])
        if r < 0.6:
            return rng.choice(STRINGS + NUMBERS)
        base = rng.choice(ARRAYS)
        if base == 'DV%':
            return 'DV%%(%d)' % rng.choice([0, 1, 10, 11, 100, rng.randint(0, 400), 400])
        return '%s(%d)' % (base, rng.randint(0, 10))

    if spread != 'none' and rng.random() < 0.5:
        # something in memory before the first variable the music will use
        k = rng.random()
        if k < 0.6:
            ops.append(pad())
        elif k < 0.8 and mode == 'direct':
            ops.append({'op': 'line', 'n': rng.randint(0, 245), 'lines': rng.choice([1, 1, 2, 4, 14])})
        else:
            ops.append({'op': 'dim', 'name': 'FL%', 'n': rng.choice([0, 10, 100, 1000, rng.randint(0, 6000)])})
    for _ in range(n):
        r = rng.random()
        if r < 0.16:
            nm = pick_name()
            if spread != 'none':
                if nm.startswith('DV%') and 'DV%' not in arrays and rng.random() < 0.8:
                    if rng.random() < 0.3:
                        ops.append({'op': 'dim', 'name': 'FL%', 'n': rng.choice([100, 1000, rng.randint(0, 6000)])})
                    ops.append({'op': 'dim', 'name': 'DV%', 'n': 400})
                    arrays.add('DV%')
                if nm not in defined and '(' not in nm and rng.random() < (0.7 if spread == 'much' else 0.35):
                    ops.append(pad(nm))
            ops.append(var(nm))
            if '(' in nm and spread == 'much' and rng.random() < 0.5:
                # move the (existing) array
                ops.append(pad(nm))
        elif r < 0.70:
            mml = _mml(rng, rng.randint(1, 30 if rng.random() < 0.8 else 60), speed, names, p_ref, p_ptr, numbers)
            if rng.random() < 0.3:
                mml = rng.choice(['MB', 'MB', 'MF', 'MBML', 'MBT255L64']) + mml
            op = {'op': 'play', 'mml': mml}
            if rng.random() < 0.12:
                tok = rng.choice(MALFORMED)[0]
                cut = rng.choice([0, len(mml), len(mml)])
                op['mml'] = mml[:cut] + (' ' if cut and rng.random() < 0.5 else '') + tok + (' ' + mml[cut:] if cut == 0 else '')
            while _mml_len(op['mml']) > 250 and ' ' in op['mml']:
                op['mml'] = op['mml'][:op['mml'].rindex(' ')]
            k = rng.random()
            if k < 0.16:
                op['break_at'] = rng.choice([0.0, 0.01, 0.05, 0.2, 0.5, 1.0, 3.0])
            elif k < 0.24:
                op['break_poll'] = rng.choice([1, 2, 3, 4, 6, 10, 40, 200])
            if mode == 'program' and rng.random() < 0.2:
                op['direct'] = True
            ops.append(op)
        elif r < 0.84:
            if schedule == 'tight':
                s = rng.choice([0.001, 0.01, 0.05, 0.1])
            elif schedule == 'drain':
                s = rng.choice([5, 30, 120])
            else:
                s = rng.choice([0.001, 0.05, 0.3, 1, 2, 10, 60])
            ops.append({'op': 'sleep', 's': s})
        elif r < 0.89:
            ops.append({'op': 'jump', 's': rng.choice([-3, -1, -0.5, -0.01, 0.01, 0.5, 2, 30, 3600])})
        elif r < 0.94:
            ops.append({'op': 'stmt', 'text': rng.choice(STMTS)})
        elif r < 0.965:
            if rng.random() < 0.6:
                # with music in the background
                ops.append({'op': 'play', 'mml': 'MB' + _mml(rng, rng.randint(4, 30), speed, [])})
            ops.append({'op': 'restart', 's': rng.choice([0, 0.001, 0.02, 0.1, 0.3, 1, 2, 5, 30])})
        else:
            ops.append({'op': 'reset'})
            defined.clear()
            arrays.clear()
            for nm in numbers:
                numbers[nm] = 0
    session = {'syntax': 'advanced'}
    cfg = {
        'world': {'sleep0_us': rng.choice([0, 1, 50, 50, 500, 5000]), 'start_us': K.DEFAULT_START_US + rng.choice([0, 123456, 86399999999 - 36000000000])},
        'session': session,
        'mode': mode,
    }
    if mode == 'program':
        cfg['rem'] = rng.choice([0, 0, rng.randint(0, 245)])
        # how the stopped program is taken up again: CONT (GOTO <line> after an error or a Break), or always GOTO <line>
        cfg['resume'] = rng.choice(['cont', 'cont', 'goto'])
    # where the variable area starts: the page (high address byte) is steered through the session's
    # memory options, and topped up with REM lines in program mode
    r = rng.random()
    if spread != 'none' and r < 0.45:
        files, reclen = rng.choice([1, 3, 3, 6]), rng.choice([32, 128, 128, 512])
        hi = _pick_byte(rng, 0x06, 0xD0)
        size = 3
        if mode == 'program':
            # upper bound of the size of the stored program
            size += sum(len(t) + 6 for t in _program_text(ops, cfg.get('rem', 0)).values())
        reserved = (hi << 8) + rng.randint(0, 120) - (files + 1) * (FILE_HEADER + reclen) - size
        if reserved < 64:
            files, reclen = 1, 32
            reserved = (hi << 8) + rng.randint(0, 120) - (files + 1) * (FILE_HEADER + reclen) - size
        if reserved >= 64:
            session.update({'reserved_memory': reserved, 'max_files': files, 'max_reclen': reclen})
            cfg['hi'] = hi
    elif spread != 'none' and r < 0.7:
        session.update({'reserved_memory': rng.randint(300, 30000), 'max_files': rng.choice([1, 3, 3, 6]),
                        'max_reclen': rng.choice([32, 128, 128, 512])})
    return {'machine': NAME, 'prop': prop, 'cfg': cfg, 'ops': ops}


def simplify(cfg, ops):
    for i, op in enumerate(ops):
        if op['op'] == 'play':
            for key in ('break_at', 'break_poll', 'direct'):
                if key in op:
                    o = dict(op)
                    del o[key]
                    yield cfg, ops[:i] + [o] + ops[i + 1:]
            m = op['mml']
            # drop one command-sized slice at a time (never to an empty string)
            toks = re.findall(r'[A-Za-z]=?\x01[^\x02]*\x02|[A-Za-z<>][^A-Za-z<>]*', m)
            if len(toks) > 1 and ''.join(toks) == m:
                half = len(toks) // 2
                for cand in (toks[:half], toks[half:]):
                    yield cfg, ops[:i] + [dict(op, mml=''.join(cand))] + ops[i + 1:]
                if len(toks) <= 12:
                    for j in range(len(toks)):
                        yield cfg, ops[:i] + [dict(op, mml=''.join(toks[:j] + toks[j + 1:]))] + ops[i + 1:]
        if op['op'] in ('sleep', 'restart') and op['s'] > 0.01:
            yield cfg, ops[:i] + [dict(op, s=0.01)] + ops[i + 1:]
        if op['op'] == 'pad':
            if op['names']:
                yield cfg, ops[:i] + [dict(op, names=op['names'][:len(op['names']) // 2])] + ops[i + 1:]
            if 'lo' in op:
                o = dict(op)
                del o['lo']
                yield cfg, ops[:i] + [o] + ops[i + 1:]
        if op['op'] == 'line' and (op['n'] or op['lines'] > 1):
            yield cfg, ops[:i] + [dict(op, n=0, lines=1)] + ops[i + 1:]
    if cfg.get('mode') == 'program':
        yield dict(cfg, mode='direct'), ops
    if cfg.get('rem'):
        yield dict(cfg, rem=0), ops
    if cfg['world'].get('sleep0_us') != 50:
        c = dict(cfg)
        c['world'] = dict(cfg['world'], sleep0_us=50)
        yield c, ops
    if len(cfg.get('session', {})) > 1:
        c = dict(cfg)
        c['session'] = {'syntax': cfg['session'].get('syntax', 'advanced')}
        c.pop('hi', None)
        yield c, ops


###############################################################################
# the run

def _statement(mml):
    """BASIC source of PLAY for an mml string with VARPTR$ placeholders."""
    parts = re.split('(\x01[^\x02]*\x02)', mml)
    out = []
    for p in parts:
        if p.startswith(VP0):
            out.append('VARPTR$(%s)' % p[1:-1])
        elif p:
            out.append('"%s"' % p)
    return b('PLAY ' + '+'.join(out or ['""']))


def _assignment(op):
    """(BASIC source, model value) of a var op."""
    nm = op['name']
    val = op['value']
    if nm.endswith('$') or '$(' in nm:
        if not isinstance(val, str):
            val = str(val)
        # placeholders make no sense inside a variable: they are only generated in PLAY strings
        val = val.replace(VP0, '').replace(VP1, '').replace('"', '')
        return b('%s="%s"' % (nm, val)), val
    val = int(val) if not isinstance(val, str) else 0
    return b('%s=%d' % (nm, val)), val


def _program_text(ops, rem):
    """Program mode: {line number: source}. Op i is line 10*(i+1), followed by a STOP."""
    lines = {1: b('PLAY "%s"' % RefPlayer().defaults_string()), 5: b'STOP'}
    if rem:
        lines[2] = b'REM ' + b'x' * rem
    for i, op in enumerate(ops):
        text = None
        if op['op'] == 'var':
            text = _assignment(op)[0]
        elif op['op'] == 'play' and not op.get('direct'):
            text = _statement(op['mml'] if op['mml'].replace(' ', '') else 'MN')
        elif op['op'] == 'reset':
            text = b'CLEAR'
        if text is not None:
            lines[10 * (i + 1)] = text
            lines[10 * (i + 1) + 1] = b'STOP'
    return lines


def _byte_tag(addresses):
    """Signature suffix for a statement with VARPTR$ references at these addresses."""
    if not addresses:
        return ''
    found = set()
    for a in addresses:
        for v in (a & 0xFF, (a >> 8) & 0xFF):
            if v in BYTE_CLASS:
                found.add(BYTE_CLASS[v])
    # (only the classes that are MML syntax around a reference make a class of their own)
    for nm, _ in BYTE_CLASSES[:5]:
        if nm in found:
            return ':varptr-address-byte-' + nm
    return ':varptr'


def _body(run):
    case = run.case
    w = run.w
    cfg = case['cfg']
    ops = case['ops']
    program = cfg.get('mode') == 'program'
    from pcbasic.basic.base import signals
    ref = RefPlayer()
    variables = {}
    arrays = {}        # base name -> bound, or None where the model does not know
    doubtful = set()   # scalars that a string may have created by naming them
    # model of the sound queue: absolute end times (us) of entries not yet known to have ended
    queue = []
    detail = []        # alongside: (frequency, seconds, counts as a note? / None: not known)
    timing = [True]
    # STOP and END return to direct mode; whether sound still queued survives that is not
    # specified: until the instant at which it would have ended anyway timing is not judged
    unsure_until = [0]
    slack_us = int(2 * TICK * 1e6) + 12 * w.sleep0_us + 100
    # what happened since the PLAY state was last confirmed by a compared statement
    context = ['']
    lineno = {}
    cont_ok = [False]
    with w:
        d = Driver(w, **cfg.get('session', {}))
        seen = [len(w.audio.signals)]

        def new_tones():
            sigs = w.audio.signals[seen[0]:]
            seen[0] = len(w.audio.signals)
            tones = [(clk, p[1], p[2]) for clk, typ, p in sigs if typ == signals.AUDIO_TONE]
            stops = [clk for clk, typ, p in sigs if typ == signals.AUDIO_STOP]
            return tones, stops

        def waiting(now):
            return [e for e in queue if e > now]

        def forget_everything():
            """CLEAR (also implied by NEW, RUN and by storing a line) on the model side."""
            ref.reset()
            variables.clear()
            arrays.clear()
            doubtful.clear()
            del queue[:], detail[:]
            timing[0] = True
            unsure_until[0] = 0
            context[0] = ''

        def back_in_direct_mode():
            """STOP, END or an error took the engine to direct mode: sound may have been stopped."""
            if queue and queue[-1] > w.clock_us:
                unsure_until[0] = max(unsure_until[0], queue[-1])

        def direct(text, poll_cap=20000):
            """A direct-mode statement (in program mode: while the program is stopped)."""
            r = d.exec(text, poll_cap=poll_cap)
            if r.errs or b'Break' in r.out:
                cont_ok[0] = False
            return r

        def statement(i, text, poll_cap=20000):
            """Execute the statement of op i: directly, or by continuing the stored program up to its STOP."""
            if i not in lineno:
                return direct(text, poll_cap), False
            r = d.exec(b'CONT' if cont_ok[0] and use_cont else b'GOTO %d' % lineno[i], poll_cap=poll_cap)
            cont_ok[0] = (b'Break in %d\xff' % (lineno[i] + 1)) in r.out
            return r, True

        def astray(r):
            """The program neither arrived at the STOP after the statement nor reported an error."""
            if cont_ok[0] or r.errs:
                return False
            run.probe('program-lost')
            return True

        def resync():
            r = direct(b(('PLAY "%s"' % ref.defaults_string())), poll_cap=400000)
            if r.err is not None:
                run.violate('C42', 'wellformed-rejected:state-commands', 'PLAY "%s" -> %r' % (ref.defaults_string(), r))
            ref.reset()
            context[0] = ''
            new_tones()

        def create(names):
            """Assign 0 or "" to new scalars, a few to a line. False: it did not work (out of memory)."""
            line = []
            for nm in list(names) + [None]:
                if nm is not None:
                    line.append('%s=%s' % (nm, '""' if nm.endswith('$') else '0'))
                    variables[nm.upper()] = '' if nm.endswith('$') else 0
                if line and (nm is None or sum(len(x) + 1 for x in line) > 180):
                    if direct(b(':'.join(line))).errs:
                        run.probe('assignment-error')
                        return False
                    line = []
            return True

        def address(nm):
            """VARPTR of a variable the model knows to exist (coverage and steering only)."""
            return int(d.eval(b('VARPTR(%s)' % nm))) & 0xFFFF

        def shown():
            return dict((k_, v_) for k_, v_ in variables.items() if not k_.startswith(('PF', 'PZ')))

        def exists(nm):
            nm = nm.upper()
            if '(' in nm:
                base, idx = nm[:-1].split('(')
                return arrays.get(base) is not None and int(idx) <= arrays[base]
            return nm in variables and nm not in doubtful

        lost = False
        use_cont = cfg.get('resume', 'cont') == 'cont'
        if program:
            # store the program, then run its first lines, which set every PLAY state variable
            text = _program_text(ops, cfg.get('rem', 0))
            for ln in sorted(text):
                r = d.exec(b'%d %s' % (ln, text[ln]))
                if r.out:
                    raise K.HarnessError('could not store %r: %r' % (text[ln], r))
                if ln % 10 == 0:
                    lineno[ln // 10 - 1] = ln
            if cfg.get('hi') is not None:
                # top up the program size so that the variables start in the page wanted
                for ln in (3, 4, 6):
                    d.exec(b'PZ%=0')
                    room = (cfg['hi'] << 8) + 8 - (address('PZ%') - 4)
                    if room < 8:
                        break
                    d.exec(b'%d REM %s' % (ln, b'x' * min(room - 7, 245)))
            r = d.exec(b'RUN', poll_cap=400000)
            forget_everything()
            new_tones()
            if b'Break in 5\xff' not in r.out or r.errs:
                run.probe('program-lost')
                lost = True
            cont_ok[0] = True

        for i, op in enumerate(ops):
            if lost or run.stop:
                break
            k = op['op']
            if k == 'var':
                nm = op['name'].upper()
                text, val = _assignment(op)
                r, in_program = statement(i, text)
                if in_program and astray(r):
                    lost = True
                    continue
                if '(' in nm:
                    base, idx = nm[:-1].split('(')
                    if base not in arrays:
                        # an array comes into being with bound 10; beyond that the outcome is not modelled
                        arrays[base] = 10 if int(idx) <= 10 else None
                    if arrays[base] is not None and int(idx) <= arrays[base]:
                        variables[nm] = val
                else:
                    variables[nm] = val
                    doubtful.discard(nm)
                if in_program:
                    back_in_direct_mode()
                    context[0] = context[0] or 'after-stop'
                if r.errs and not ('(' in nm and arrays.get(nm.split('(')[0]) is None):
                    # not modelled (out of memory): what the variable holds now is not known
                    run.probe('assignment-error')
                    lost = True
                run.state(k, nm[-1], program)
            elif k == 'pad':
                lost = not create(op.get('names', []))
                target = op.get('for')
                if target is not None and op.get('lo') is not None and not lost:
                    shift = None
                    if '(' in target:
                        if exists(target):
                            shift = (op['lo'] - address(target)) % 256
                    elif target.upper() not in variables:
                        mark = 'PZ%02dXX%%' % (op.get('id', 0) % 100)
                        lost = not create([mark])
                        # the next scalar starts after this integer; its value after a header of 4 bytes
                        # and the name beyond two characters
                        stem = target.rstrip('%!#$')
                        if not lost:
                            shift = (op['lo'] - (address(mark) + 2 + 4 + max(0, len(stem) - 2))) % 256
                    if shift:
                        # integers named PZ<id><j>Q..: 4 + (length - 2) + 2 bytes each, length 6..40
                        if shift < 10:
                            shift += 256
                        count = -(-shift // 44)
                        sizes = [shift // count + (1 if j < shift % count else 0) for j in range(count)]
                        lost = not create([('PZ%02d%02d' % (op.get('id', 0) % 100, j)).ljust(sz - 4, 'Q') + '%' for j, sz in enumerate(sizes)])
                        run.probe('variable-placed')
                run.state(k, len(op.get('names', [])) > 4, op.get('lo') is not None, program)
            elif k == 'dim':
                base = op['name'].upper()
                r = direct(b('DIM %s(%d)' % (op['name'], op['n'])))
                if base not in arrays and r.err is None:
                    arrays[base] = int(op['n'])
                elif r.err not in (None, 10):
                    arrays[base] = None
                run.state(k, op['n'] > 500, program)
            elif k == 'line':
                if not program:
                    # a stored program moves the variable area; storing a line clears the variables,
                    # what else it resets is not relied upon: CLEAR follows
                    for j in range(int(op.get('lines', 1))):
                        d.exec(b'%d REM %s' % (60000 + j, b'x' * int(op['n'])))
                    d.exec(b'CLEAR')
                    forget_everything()
                    new_tones()
                run.state(k, program)
            elif k == 'stmt':
                r = direct(b(op['text']))
                if b'Break' in r.out or op['text'] == 'END':
                    back_in_direct_mode()
                    cont_ok[0] = False
                if b'Break' in r.out:
                    context[0] = 'after-break'
                elif r.errs and not context[0]:
                    context[0] = 'after-error'
                new_tones()
                run.state(k, op['text'], program)
            elif k == 'sleep':
                w.sleep(op['s'])
                run.state(k, len(waiting(w.clock_us)) > 0)
            elif k == 'jump':
                if waiting(w.clock_us) or op['s'] < 0:
                    # a step backwards can also revive an entry that had already ended
                    timing[0] = False
                    run.probe('clock-step-with-sound-queued' if waiting(w.clock_us) else 'clock-step-backwards')
                w.jump_clock(op['s'])
                run.state(k, op['s'] > 0, timing[0])
            elif k == 'restart':
                # suspend the session (music may be queued), let time pass, resume it from the file
                # with the audio queue attached anew: what had not finished sounding is emitted again
                from pcbasic.basic import Session
                path = run.make_scratch() + '/session.pcb'
                new_tones()
                t0 = w.clock_us
                known = timing[0] and t0 >= unsure_until[0]
                d._guard('suspend', lambda: d.s.suspend(path))
                d.close()
                t1 = w.clock_us
                w.sleep(op['s'])
                t2 = w.clock_us
                session = d._guard('resume', lambda: Session.resume(path))
                d = Driver(w, session=session)
                w.faults['restart'] += 1
                t3 = w.clock_us
                cont_ok[0] = False
                tones, stops = new_tones()
                # the instant up to which the queue had been consumed lies in [t0, cut]
                cut = t1 + (t3 - t2)
                pending = [j for j, e in enumerate(queue) if e > t0]
                certain = [j for j in pending if queue[j] > cut]
                run.state(k, min(len(pending), 40) // 8, op['s'] > 0.1, known, program)
                if known:
                    run.probe('restart-with-music-queued' if certain else 'restart-quiet')
                    tol = 5e-6
                    bad = None
                    if len(tones) < len(certain):
                        bad = ('queued-notes-lost', '%d entries emitted after resume, %d had not finished' % (len(tones), len(certain)))
                    elif len(tones) > len(pending):
                        bad = ('notes-not-queued', '%d entries emitted after resume, %d had not finished' % (len(tones), len(pending)))
                    else:
                        back = pending[len(pending) - len(tones):]
                        for n_, (j, (clk, f, dur)) in enumerate(zip(back, tones)):
                            wf, wd = detail[j][0], detail[j][1]
                            # the entry that was sounding: what is left of it, or all of it
                            least = wd if n_ else max(0., min(wd, (queue[j] - cut) / 1e6))
                            if not close(f, wf) or dur > wd + tol or dur < least - tol:
                                bad = ('notes-not-as-specified', 'entry %d after resume: engine %.6f Hz for %.6f s, queued %.6f Hz for %.6f s%s' % (
                                    n_, f, dur, wf, wd, ' (of which at least %.6f s were left)' % least if not n_ else ''))
                                break
                    if bad:
                        run.violate('C42', 'resume:' + bad[0],
                                    'suspended with %d entries not finished, resumed %.3f s later: %s\nqueued  %r\nemitted %r' % (
                                        len(certain), op['s'], bad[1], [detail[j][:2] for j in pending][:10], [t[1:] for t in tones][:10]))
                    elif all(detail[j][2] is not None for j in pending):
                        # PLAY(0): the notes (not the gaps) that wait; the one sounding does not count
                        n_play = int(d.eval(b'PLAY(0)'))
                        most = len([j for j in pending if detail[j][2]])
                        least = len([j for j in certain if detail[j][2]]) - 1
                        if not least <= n_play <= most:
                            run.violate('C42', 'resume:play-function-miscounts',
                                        'suspended with %d to %d notes not finished, resumed %.3f s later: PLAY(0) = %d' % (least + 1, most, op['s'], n_play))
                # the queue is taken up where it was left
                keep = pending[len(pending) - min(len(tones), len(pending)):]
                shift = t2 - t1
                queue[:] = [queue[j] + shift for j in keep]
                detail[:] = [detail[j] for j in keep]
                if unsure_until[0]:
                    unsure_until[0] += shift
                if t3 - t2 or t1 - t0:
                    # (the shift is known to that precision only)
                    unsure_until[0] = max(unsure_until[0], queue[-1] if queue else 0)
                context[0] = context[0] or 'after-restart'
            elif k == 'reset':
                r, in_program = statement(i, b'CLEAR')
                if in_program and astray(r):
                    lost = True
                    continue
                forget_everything()
                new_tones()
                if in_program:
                    context[0] = 'after-stop'
                run.state(k, program)
            elif k == 'play':
                mml = op['mml']
                if not mml.replace(' ', ''):
                    mml = 'MN'
                before = (ref.foreground, ref.gap)
                state_before = ref.state()
                pointers = [nm.upper() for nm in re.findall('\x01([^\x02]*)\x02', mml)]
                where = []
                ref.trace, ref.trace_n, ref.raw = [state_before], [0], []
                ref.touched = set()
                if _mml_len(mml) > 255:
                    # String too long: the string expression fails, PLAY does not get to run
                    events, err, kinds = [], 'unspecified-string-too-long', set(['too-long'])
                elif any('(' in nm and not exists(nm) for nm in pointers) or any(nm in doubtful for nm in pointers):
                    # an element of an array the model does not know, or a scalar that an earlier
                    # string may or may not have created
                    events, err, kinds = [], 'unspecified-pointer-target', set(['varptr-unknown'])
                elif any(nm not in variables for nm in pointers if '(' not in nm):
                    # VARPTR$ of a variable that was never assigned is an Illegal function call
                    # of the string expression itself: PLAY does not get to run
                    events, err, kinds = [], 'varptr-of-unassigned-variable', set(['varptr-unassigned'])
                else:
                    where = [address(nm) for nm in pointers]
                    events, err, kinds = ref.run(mml, variables)
                doubtful.update(ref.touched)
                tag = _byte_tag(where)
                if where:
                    run.probe('varptr-statements')
                    for a in where:
                        for v in (a & 0xFF, a >> 8):
                            if v in BYTE_CLASS:
                                run.probe('varptr-address-byte-' + BYTE_CLASS[v])
                want = flatten(events)
                c0 = w.clock_us
                q0 = len(waiting(c0))
                judge_timing = timing[0] and c0 >= unsure_until[0]
                fired = []
                armed = [True]
                if op.get('break_at') is not None or op.get('break_poll') is not None:
                    def fire(world, fired=fired, armed=armed):
                        if armed[0]:
                            fired.append(world.clock_us)
                            world.inputs.pending.append(K.sig_break())
                    if op.get('break_at') is not None:
                        w.at_time(op['break_at'], fire)
                    else:
                        w.at_poll(op['break_poll'], fire)
                source = _statement(mml)
                r, in_program = statement(i, source, poll_cap=400000)
                armed[0] = False
                if fired:
                    cont_ok[0] = False
                c1 = w.clock_us
                tones, stops = new_tones()
                got = coalesce([(f, dur) for _, f, dur in tones])
                fg = ref.foreground
                # queue model: every recorded entry starts when its predecessor ends
                # do the entries follow the reference one by one (as far as they go)?
                raw_ok = len(tones) <= len(ref.raw) and all(
                    close(t[1], x[0]) and close(t[2], x[1]) for t, x in zip(tones, ref.raw))
                for j, (clk, f, dur) in enumerate(tones):
                    start = max(queue[-1] if queue else 0, clk)
                    queue.append(start + int(round(dur * 1e6)))
                    detail.append((f, dur, ref.raw[j][2] if raw_ok else None))
                if not judge_timing and queue and c0 < unsure_until[0]:
                    unsure_until[0] = max(unsure_until[0], queue[-1])
                end_all = queue[-1] if queue else c0
                blocked = (c1 - c0) > slack_us
                run.state(k, fg, ref.gap, min(q0, 40) // 8, blocked, bool(fired), err or 'ok',
                          tuple(sorted(kinds))[:6], len(want) > 32, in_program, context[0])
                if fired:
                    run.probe('break-fired-during-play')
                if in_program and not fired and astray(r):
                    lost = True
                    continue
                # ---- outcome ---------------------------------------------------------------
                unspecified = err is not None and err.startswith('unspecified')
                diverged = False
                if unspecified:
                    pass
                elif r.err not in (None, 5):
                    run.violate('C42', 'wrong-error' + tag, '%r -> %r' % (source, r))
                elif err is None and r.err == 5:
                    run.violate('C42', 'wellformed-rejected' + tag, '%r (VARPTR$ addresses %r, variables %r) -> Illegal function call; reference sees %d tones' % (
                        source, where, shown(), len(want)))
                elif err is not None and r.err is None and not fired:
                    run.violate('C42', 'malformed-accepted:' + err, '%r (variables %r) -> no error, expected Illegal function call' % (source, shown()))
                # ---- tones -----------------------------------------------------------------
                if err is None and r.err is None and not fired:
                    run.probe('tones-compared', len(want))
                    if len(want) > 0:
                        run.probe('statements-with-tones')
                        if context[0]:
                            run.probe('tones-compared-' + context[0])
                    bad = None
                    if len(got) != len(want):
                        bad = ('count', 'engine emitted %d entries, reference %d' % (len(got), len(want)))
                    else:
                        for j, ((gf, gd), (wf, wd)) in enumerate(zip(got, want)):
                            if not close(gf, wf):
                                bad = ('frequency', 'entry %d: engine %.6f Hz for %.6f s, reference %.6f Hz for %.6f s' % (j, gf, gd, wf, wd))
                                break
                            if not close(gd, wd):
                                bad = ('gap' if wf == 0 else 'duration',
                                       'entry %d (%.3f Hz): engine %.9f s, reference %.9f s' % (j, wf, gd, wd))
                                break
                    if bad:
                        diverged = True
                        run.violate('C42', 'tones-mismatch:%s:%s%s%s' % (
                            bad[0], 'foreground' if before[0] else 'background', tag, ':' + context[0] if context[0] else ''),
                                    '%r with variables %r (VARPTR$ addresses %r), state before (O, L, T, gap, MF) %r%s: %s\nengine   %r\nreference %r' % (
                                        source, shown(), where, state_before, ' carried over: ' + context[0] if context[0] else '',
                                        bad[1], got[:12], want[:12]))
                    if len(want) > 0:
                        # the state is confirmed (or the violation is reported once)
                        context[0] = ''
                elif unspecified:
                    run.probe('unspecified-shape-statements')
                else:
                    run.probe('malformed-statements' if err is not None else 'interrupted-statements')
                    if err is not None:
                        run.probe('malformed:' + err)
                    # whatever was emitted must be a prefix of what the string specifies before the error
                    pre = got[:-1] if got and got[-1][0] == 0 else got
                    if len(pre) > len(want) or any(not (close(g[0], x[0]) and close(g[1], x[1])) for g, x in zip(pre, want)):
                        diverged = True
                        run.violate('C42', 'tones-before-error-not-a-prefix' + tag,
                                    '%r: engine emitted %r, reference prefix %r' % (source, got[:12], want[:12]))
                # ---- liveness ---------------------------------------------------------------
                if op.get('break_at') is not None and c1 > c0 + int(op['break_at'] * 1e6) + slack_us:
                    # the statement was still running a tick after Ctrl-Break was pressed
                    run.violate('C42', 'liveness:break-ignored',
                                'Break pressed at +%.3f s (%s), PLAY returned at +%.3f s' % (
                                    op['break_at'], 'seen by the engine at +%.3f s' % ((fired[0] - c0) / 1e6) if fired else 'never polled',
                                    (c1 - c0) / 1e6))
                elif fired and c1 > fired[0] + slack_us:
                    run.violate('C42', 'liveness:break-ignored',
                                'Break delivered at poll %d of the statement (+%.3f s), PLAY returned at +%.3f s' % (
                                    op.get('break_poll', 0), (fired[0] - c0) / 1e6, (c1 - c0) / 1e6))
                if fired:
                    del queue[:], detail[:]
                    timing[0] = True
                    unsure_until[0] = 0
                elif r.err is None and err is None and judge_timing:
                    if fg:
                        if blocked:
                            run.probe('foreground-blocked')
                        if c1 > max(end_all, c0) + slack_us:
                            run.violate('C42', 'liveness:foreground-late',
                                        'queue ends at +%.4f s, PLAY returned at +%.4f s' % ((end_all - c0) / 1e6, (c1 - c0) / 1e6))
                        if events:
                            last = events[-1][1] + events[-1][2]
                            if c1 < end_all - int(last * 1e6) - slack_us:
                                run.violate('C42', 'foreground-returned-before-last-note',
                                            'last note starts at +%.4f s, PLAY returned at +%.4f s' % (
                                                (end_all - last * 1e6 - c0) / 1e6, (c1 - c0) / 1e6))
                    else:
                        ends = sorted(waiting(c0))
                        # instant at which at most 32 entries are left
                        t32 = ends[-33] if len(ends) > 32 else c0
                        if len(ends) > 34:
                            run.probe('background-over-32-entries')
                            if blocked:
                                run.probe('background-blocked')
                        if c1 > max(t32, c0) + slack_us:
                            run.violate('C42', 'liveness:background-late',
                                        '%d entries queued; 32 are left at +%.4f s, PLAY returned at +%.4f s' % (
                                            len(ends), (t32 - c0) / 1e6, (c1 - c0) / 1e6))
                        if len(ends) <= 16 and blocked:
                            run.violate('C42', 'background-blocked-needlessly',
                                        '%d entries queued, PLAY took %.4f s' % (len(ends), (c1 - c0) / 1e6))
                if in_program:
                    # the STOP after the statement, or an error, took the engine to direct mode
                    back_in_direct_mode()
                    if not context[0]:
                        context[0] = 'after-stop'
                # ---- the PLAY state after a statement that was not carried out in full ------------
                if diverged and not run.stop:
                    # reported: do not report the consequences in the statements that follow as well
                    resync()
                elif (err is not None or r.err is not None or fired) and not run.stop:
                    # each command takes effect when it is interpreted. The commands up to the one that
                    # made the last entry the engine emitted have been interpreted; the statement may
                    # have been given up at any command after that (up to the malformed one): the
                    # state is known if all of these leave the same state
                    reached = [st for st, n_ in zip(ref.trace, ref.trace_n) if n_ >= len(tones)]
                    if reached and len(set(reached)) == 1 and reached[-1] != state_before:
                        run.probe('state-set-by-statement-given-up')
                    if unspecified or r.err not in (None, 5) or not raw_ok or len(set(reached)) != 1:
                        resync()
                    else:
                        run.probe('state-carried-over-' + ('break' if fired else 'error'))
                        if fired:
                            context[0] = 'after-break'
                        elif not context[0]:
                            context[0] = 'after-error'
                # forget entries that have ended (keep the list short)
                now = w.clock_us
                if timing[0]:
                    keep = [j for j, e in enumerate(queue) if e > now - 10 ** 6] or list(range(len(queue)))[-1:]
                    queue[:] = [queue[j] for j in keep]
                    detail[:] = [detail[j] for j in keep]
            else:
                raise K.HarnessError('unknown op %r' % (op,))
        d.close()


def run(case):
    return execute(case, _body, world_cfg=case['cfg'].get('world', {}))
