"""
resume machine - C40: a suspended session resumes exactly where it stopped.

Reference run: Session.interact() with RUN typed, uninterrupted. Crash runs: the same, with QUIT
delivered at the k-th statement-boundary poll of the running program -> Exit -> suspend(file) ->
close -> resume(file) -> attach -> interact() again under the rest of the schedule. Oracle:
output pipe (pre + post), final variables, host files, text screen and pixels equal the
reference run's. Plus state-file corruption: any altered byte must make Session.resume raise.
"""

import os
import shutil

from .. import kernel as K
from ..basicdrv import Driver, ByteSink, Typist, EngineCrash, suspend_resume
from .. import simfs
from .common import Run, execute, b, u, shash

NAME = 'resume'
PROPS = ('C40',)
RULE = ('one evaluation = one generated program run once uninterrupted and then re-run with suspend/close/'
        'resume at sampled (quick) or all (thorough sweep) statement-boundary polls; distinct = distinct '
        '(first token of the statement about to execute, gosub depth, loop depth, '
        'in-error-handler, files open) tuples at which a suspension was actually taken; non-trivial = the '
        'suspension landed while the program was running')
REAL = ['pcbasic.basic (whole package) incl. state.save_session/load_session, Interpreter.__setstate__, pickle, zlib',
        'host tmpfs for program files and state files']
STUB = ['typist (scripted through the input queue)', 'wall clock (simulated)', 'video/audio back ends (recording queues)']
ASSUMPTIONS = [
    'suspension points judged for full equality are statement boundaries (polls made by the statement loop); '
    'a QUIT inside a blocking statement (INPUT or LINE INPUT waiting for the user, nothing typed yet) is required '
    'not to crash, to let the program finish and to leave the same final variables and files - output and '
    'screen are not compared there, as the prompt may legitimately show again',
    'programs do not print clock values, so outputs are schedule-independent',
]
BATCH = 6
# one run of the thorough tier may be a full sweep: the reference run plus one suspended re-run per boundary
RUN_CPU_S = 900

VARS = ['A%', 'B%', 'C!', 'D#', 'S$', 'T$', 'N%', 'E%', 'L%']


def quick_runs(prop):
    return 420


###############################################################################
# program generator

class PG(object):
    def __init__(self, rng, tier):
        self.rng = rng
        self.tier = tier
        self.lines = []       # list of statement lists
        self.subs = []        # subroutine bodies (lists of lines)
        self.data = []
        self.inputs = []
        self.uid = 0
        self.files = 0
        self.depth = 0
        self.fn_defined = False
        self.budget = rng.randint(6, 16 if tier == 'quick' else 30)

    def mark(self):
        self.uid += 1
        return 'PRINT "m%d";A%%;N%%' % self.uid

    def simple(self):
        r = self.rng
        k = r.randint(0, 11)
        if k == 0:
            return 'A%%=A%%+%d' % r.randint(1, 9)
        if k == 1:
            return 'S$=S$+"%s"' % r.choice('abcxyz')
        if k == 2:
            return 'C!=C!*1.5+%d' % r.randint(0, 3)
        if k == 3:
            return 'D#=D#+A%/7'
        if k == 4:
            return 'T$=MID$(S$+"qq",%d,2)+STR$(A%%)' % r.randint(1, 3)
        if k == 5:
            return 'Q%%(%d)=A%%+%d' % (r.randint(0, 5), r.randint(0, 9))
        if k == 6:
            return 'PRINT Q%%(%d);S$;C!' % r.randint(0, 5)
        if k == 7:
            return 'N%=N%+1'
        if k == 8:
            return 'LOCATE %d,%d:PRINT "@";' % (r.randint(1, 20), r.randint(1, 60))
        if k == 9:
            return 'SWAP A%,B%'
        if k == 10:
            return 'W$(%d)=S$+"w"' % r.randint(0, 3)
        return self.mark()

    def block(self, n):
        """n statements/constructs, as a list of lines (each a list of statements)."""
        out = []
        r = self.rng
        for _ in range(n):
            if self.budget <= 0:
                break
            self.budget -= 1
            k = r.random()
            if k < 0.30:
                out.append([self.simple() for _ in range(r.randint(1, 3))])
            elif k < 0.40 and self.depth < 2:
                self.depth += 1
                v = 'IJK'[self.depth]
                body = self.block(r.randint(1, 2))
                self.depth -= 1
                head = 'FOR %s=1 TO %d' % (v, r.randint(1, 3))
                if r.random() < 0.4 and body and len(body) == 1:
                    out.append([head] + body[0] + ['NEXT'])
                else:
                    out.append([head])
                    out.extend(body)
                    out.append(['NEXT %s' % v, self.mark()])
            elif k < 0.47 and self.depth < 2:
                self.depth += 1
                body = self.block(r.randint(1, 2))
                cv = ['L%', 'M%', 'L%'][self.depth]
                out.append(['%s=0' % cv])
                out.append(['WHILE %s<%d' % (cv, r.randint(1, 3)), '%s=%s+1' % (cv, cv)])
                self.depth -= 1
                out.extend(body)
                out.append(['WEND'])
            elif k < 0.60:
                # gosub to a fresh subroutine
                self.depth += 1
                body = self.block(r.randint(1, 2)) if self.depth < 3 else []
                self.depth -= 1
                sid = len(self.subs)
                self.subs.append([['PRINT "sub%d";N%%' % sid, 'N%=N%+1']] + body + [['RETURN']])
                st = 'GOSUB @S%d' % sid
                if r.random() < 0.5:
                    out.append([st, self.mark()])
                else:
                    out.append([self.simple(), st])
            elif k < 0.68:
                # forward goto over a line that must not run
                out.append(['GOTO @F'])
                out.append(['PRINT "SKIPPED-LINE"'])
                out.append(['@F:' + self.mark()])
            elif k < 0.76:
                c = r.choice(['A%>3', 'N%<2', 'LEN(S$)>2', 'A%=B%'])
                if r.random() < 0.5:
                    out.append(['IF %s THEN %s:%s ELSE %s' % (c, self.mark(), self.simple(), self.mark())])
                else:
                    out.append(['IF %s THEN @F' % c])
                    out.append([self.mark()])
                    out.append(['@F:' + self.simple()])
            elif k < 0.82:
                # trapped error with RESUME NEXT
                out.append([r.choice(['ERROR %d' % r.choice([5, 11, 52, 200]), 'E%=1/0', 'E%=ASC("")', 'E%=Q%(99)']), self.mark()])
            elif k < 0.87:
                self.data.append('%d,"d%d"' % (r.randint(-9, 99), self.uid))
                out.append(['READ B%,T$', 'PRINT B%;T$'])
            elif k < 0.91:
                if not self.fn_defined:
                    self.fn_defined = True
                    out.append(['DEF FNA(X)=X*2+A%', 'DEF FNS$(X$)=X$+S$'])
                out.append(['PRINT FNA(%d);FNS$("f")' % r.randint(0, 9)])
            elif k < 0.96:
                self.files += 1
                fn = 'F%d.TXT' % self.files
                if r.random() < 0.2:
                    # APPEND to a file that does not exist yet (or is empty), with statements between the
                    # OPEN and the first write: a suspension there finds the file at position 0
                    if r.random() < 0.5:
                        out.append(['OPEN "O",1,"%s"' % fn, 'CLOSE 1'])
                    out.append(['OPEN "A",1,"%s"' % fn])
                    out.extend(self.block(1))
                    out.append(['PRINT#1,"first";A%'])
                    out.extend(self.block(1))
                    out.append(['WRITE#1,"second",N%', 'CLOSE 1'])
                    out.append(['OPEN "I",1,"%s"' % fn, 'LINE INPUT#1,T$', 'PRINT T$;EOF(1);LOF(1)', 'CLOSE 1'])
                elif r.random() < 0.6:
                    out.append(['OPEN "O",1,"%s"' % fn])
                    out.extend([['PRINT#1,A%;S$', self.simple()] for _ in range(r.randint(1, 2))])
                    out.extend(self.block(1))
                    out.append(['WRITE#1,N%,T$', 'CLOSE 1'])
                    if r.random() < 0.5:
                        # append in a second session of the file, spread over several lines
                        out.append(['OPEN "A",1,"%s"' % fn])
                        out.append(['PRINT#1,"app";N%'])
                        out.extend(self.block(1))
                        out.append(['WRITE#1,"q,q",A%', 'CLOSE 1'])
                    if r.random() < 0.5:
                        out.append(['OPEN "I",1,"%s"' % fn, 'LINE INPUT#1,T$', 'PRINT T$;EOF(1)', 'CLOSE 1'])
                    else:
                        # read it back item by item with other statements in between (read-ahead buffer in flight)
                        out.append(['OPEN "I",1,"%s"' % fn])
                        out.append(['LINE INPUT#1,T$', 'PRINT T$;EOF(1);LOF(1)'])
                        out.extend(self.block(1))
                        out.append(['WHILE NOT EOF(1)', 'LINE INPUT#1,T$', 'PRINT "r:";T$', 'WEND'])
                        out.append(['CLOSE 1'])
                elif r.random() < 0.4:
                    # text I/O on the record buffer of a random file, item by item across statements
                    out.append(['OPEN "R",2,"%s",32' % fn])
                    out.append(['PRINT#2,A%%;%d;N%%+%d;"t" ' % (r.randint(10, 99), r.randint(1, 9))])
                    out.append(['PUT 2,1', 'GET 2,1'])
                    out.append(['INPUT#2,B%'])
                    out.extend(self.block(1))
                    out.append(['INPUT#2,E%', 'PRINT "rec";B%;E%'])
                    out.append(['INPUT#2,L%', 'PRINT "rec";L%', 'CLOSE 2'])
                else:
                    out.append(['OPEN "R",2,"%s",16' % fn, 'FIELD 2,4 AS RA$,12 AS RB$'])
                    out.append(['LSET RA$=MKI$(A%)+"zz"', 'RSET RB$=S$', 'PUT 2,%d' % r.randint(1, 4)])
                    out.extend(self.block(1))
                    out.append(['GET 2,1', 'PRINT CVI(RA$);RB$;LOF(2);LOC(2)', 'CLOSE 2'])
            else:
                resp = ''.join(r.choice('abc123') for _ in range(r.randint(1, 4)))
                self.inputs.append(resp)
                if r.random() < 0.5:
                    out.append(['INPUT "v";T$', 'PRINT "got ";T$'])
                else:
                    out.append(['LINE INPUT T$', 'PRINT "got ";T$'])
        return out

    def build(self):
        main = [['ON ERROR GOTO @H', 'DIM Q%(6),W$(4)', 'S$="s"']]
        main += self.block(self.budget + 4)
        main.append(['PRINT "END";A%;B%;C!;D#;S$;T$;N%;E%'])
        main.append(['END'])
        lines = list(main)
        sub_starts = []
        for sb in self.subs:
            sub_starts.append(len(lines))
            lines.extend(sb)
        handler_at = len(lines)
        lines.append(['PRINT "ERR";ERR;ERL', 'E%=E%+1', 'RESUME NEXT'])
        for dt in self.data:
            lines.append(['DATA ' + dt])
        # number lines, resolve labels
        nums = [10 * (i + 1) for i in range(len(lines))]
        text = []
        for i, sts in enumerate(lines):
            res = []
            for st in sts:
                if st.startswith('@F:'):
                    st = st[3:]
                if '@F' in st:
                    # the next line (after this one) starting with a '@F:' statement
                    tgt = None
                    for j in range(i + 1, len(lines)):
                        if any(x.startswith('@F:') for x in lines[j]):
                            tgt = nums[j]
                            break
                    st = st.replace('@F', str(tgt if tgt is not None else nums[-1]))
                if '@S' in st:
                    sid = int(st.split('@S')[1].split()[0].split(':')[0])
                    st = st.replace('@S%d' % sid, str(nums[sub_starts[sid]]))
                if '@H' in st:
                    st = st.replace('@H', str(nums[handler_at]))
                res.append(st)
            text.append('%d %s' % (nums[i], ':'.join(res)))
        return text, self.inputs


def gen(rng, tier, prop):
    pg = PG(rng, tier)
    lines, inputs = pg.build()
    ops = []
    if tier == 'thorough' and rng.random() < 0.5:
        ops.append({'op': 'sweep'})
    else:
        for _ in range(rng.randint(2, 5)):
            r = rng.random()
            if r < 0.75:
                ops.append({'op': 'quit', 'frac': round(rng.random(), 4)})
            elif r < 0.85:
                ops.append({'op': 'quit2', 'frac': round(rng.random(), 4), 'frac2': round(rng.random(), 4)})
            elif r < 0.93:
                ops.append({'op': 'quit_mid', 'frac': round(rng.random(), 4)})
            else:
                # a suspension between statements, then one inside a blocking statement of the resumed session
                ops.append({'op': 'quit_bm', 'frac': round(rng.random(), 4), 'k2': rng.randint(1, 4)})
    if rng.random() < 0.25:
        ops.append({'op': 'corrupt', 'positions': [round(rng.random(), 5) for _ in range(12)], 'xor': rng.randint(1, 255),
                    'stride': 1 if tier == 'thorough' else 9, 'offset': rng.randint(0, 8)})
    cfg = {
        'program': lines, 'inputs': inputs,
        'session': {'syntax': rng.choice(['advanced', 'advanced', 'pcjr', 'tandy'])},
        'world': {'sleep0_us': rng.choice([0, 50, 700])},
    }
    if rng.random() < 0.2:
        # text files read and written through a text encoding (another stream object to save and restore)
        cfg['session']['textfile_encoding'] = rng.choice(['utf-8', 'latin-1', 'cp437'])
    return {'machine': NAME, 'prop': prop, 'cfg': cfg, 'ops': ops}


def simplify(cfg, ops):
    # drop program lines (keeping numbering) while the violation persists
    prog = cfg['program']
    for i in range(len(prog) - 1, -1, -1):
        if len(prog) > 2:
            yield dict(cfg, program=prog[:i] + prog[i + 1:]), ops
    # split multi-statement lines: drop one statement
    for i, ln in enumerate(prog):
        num, _, rest = ln.partition(' ')
        parts = rest.split(':')
        if len(parts) > 1 and 'IF ' not in rest:
            for j in range(len(parts)):
                yield dict(cfg, program=prog[:i] + [num + ' ' + ':'.join(parts[:j] + parts[j + 1:])] + prog[i + 1:]), ops


###############################################################################
# execution

class Hook(object):
    """Poll hook: counts boundary/mid polls while a program runs; delivers QUIT at the chosen one."""

    def __init__(self, driver_ref):
        self.dref = driver_ref
        self.boundary = 0
        self.mid = 0
        self.quit_at = None       # ('b'|'m', k)
        self.fired = False
        self.where = None
        self.trace = []           # abstract position per boundary poll (scheduling/coverage only)

    def __call__(self, w, typist):
        impl = self.dref[0].s._impl
        it = impl.interpreter
        if not (it.parse_mode and it.run_mode):
            w.tick_sleeps = 0
            return
        is_mid = getattr(w, 'tick_sleeps', 0) > 0
        w.tick_sleeps = 0
        if is_mid:
            self.mid += 1
            n, kind = self.mid, 'm'
        else:
            self.boundary += 1
            n, kind = self.boundary, 'b'
        if self.quit_at is not None and not self.fired and self.quit_at == (kind, n):
            self.fired = True
            # coverage abstraction only (never judged): first token of the statement about to run
            nxt = 0
            try:
                code = impl.program.bytecode
                pos = code.tell()
                buf = code.getvalue()
                q = pos + 5 if buf[pos:pos + 1] == b'\0' else pos + 1
                while buf[q:q + 1] == b' ':
                    q += 1
                nxt = buf[q] if q < len(buf) else 0
            except Exception:
                nxt = -1
            self.where = (nxt, min(len(it.gosub_stack), 3), min(len(it.for_stack) + len(it.while_stack), 3),
                          bool(it.error_handle_mode), min(len(impl.files.files), 2))
            typist.quit_sent = True
            w.inputs.pending.append(K.sig_quit())


def _script(cfg):
    sc = [{'t': 'line', 'text': ln} for ln in cfg['program']]
    sc.append({'t': 'line', 'text': 'RUN'})
    sc.extend({'t': 'input', 'text': x} for x in cfg['inputs'])
    return sc


def _snapshot(d, root):
    files = {}
    for fn in sorted(os.listdir(root)):
        p = os.path.join(root, fn)
        if os.path.isfile(p) and not fn.endswith('.state'):
            with open(p, 'rb') as f:
                files[fn] = f.read()
    vals = {}
    for v in VARS:
        vals[v] = d.get(b(v))
    return {'files': files, 'vars': vals, 'chars': d.chars(), 'pixels': d.pixels()}


def _one_run(run, w, cfg, root, quits, tag):
    """
    Run the program under the typist; `quits` is a list of ('b'|'m', k) suspension points, applied
    one after the other (each k counted from the start of its interact() segment).
    Returns (output bytes, snapshot, hook list) or None if the engine could not finish.
    """
    os.makedirs(root, exist_ok=True)
    sink = ByteSink()
    d = Driver(w, output_streams=sink, devices={'C:': root}, current_device='C:', **cfg['session'])
    dref = [d]
    script = _script(cfg)
    typist = Typist(d, script)
    hooks = []
    out = b''
    quits = list(quits)
    from pcbasic.basic.base import error
    from pcbasic.basic import Session
    seg = 0
    while True:
        hook = Hook(dref)
        hooks.append(hook)
        if quits:
            hook.quit_at = quits.pop(0)
        typist.extra = hook
        typist.d = dref[0]
        typist.quit_sent = False
        w.poll_hook = typist
        w.op_poll_base = w.poll_no
        w.op_poll_cap = 60000
        try:
            try:
                dref[0]._guard('interact', dref[0].s.interact)
            except error.Exit:
                pass
        finally:
            w.poll_hook = None
            w.op_poll_cap = None
        out += sink.take()
        if not hook.fired:
            break
        # suspended by our QUIT: suspend -> close -> resume -> attach
        seg += 1
        path = os.path.join(root, 'seg%d.state' % seg)
        d0 = dref[0]
        d0._guard('suspend', lambda: d0.s.suspend(path))
        d0.close()
        s2 = d0._guard('resume', lambda: Session.resume(path))
        w.faults['restart'] += 1
        sink = ByteSink()
        d1 = Driver(w, session=s2)
        d1._guard('add_pipes', lambda: s2.add_pipes(output_streams=sink))
        dref[0] = d1
        # the resumed session's own (unpickled) sink copy keeps collecting too; ignore it
    snap = _snapshot(dref[0], root)
    dref[0].close()
    snap['stalled'] = typist.stalled
    return out, snap, hooks


def _compare(run, ref, got, label):
    rout, rsnap = ref
    gout, gsnap = got
    if gout != rout:
        # find first difference for the detail
        n = 0
        while n < min(len(gout), len(rout)) and gout[n] == rout[n]:
            n += 1
        run.violate('C40', 'output-differs', '%s: output differs from the uninterrupted run at byte %d:\n reference: %r\n resumed:   %r' % (
            label, n, rout[max(0, n - 60):n + 80], gout[max(0, n - 60):n + 80]))
        return False
    if gsnap['vars'] != rsnap['vars']:
        diff = {k: (rsnap['vars'][k], gsnap['vars'][k]) for k in rsnap['vars'] if rsnap['vars'][k] != gsnap['vars'][k]}
        run.violate('C40', 'variables-differ', '%s: final variables differ (reference, resumed): %r' % (label, diff))
        return False
    if gsnap['files'] != rsnap['files']:
        names = [k for k in set(rsnap['files']) | set(gsnap['files']) if rsnap['files'].get(k) != gsnap['files'].get(k)]
        run.violate('C40', 'files-differ', '%s: host files differ: %r' % (label, {
            k: (rsnap['files'].get(k), gsnap['files'].get(k)) for k in sorted(names)[:3]}))
        return False
    if gsnap['chars'] != rsnap['chars']:
        run.violate('C40', 'screen-text-differs', '%s: final text screen differs' % label)
        return False
    if gsnap['pixels'] != rsnap['pixels']:
        run.violate('C40', 'screen-pixels-differ', '%s: final pixels differ' % label)
        return False
    return True


def run(case):
    simfs.install_fs_seams()

    def body(run):
        cfg = case['cfg']
        scratch = run.make_scratch()
        w = run.w
        nrun = [0]

        def fresh_root():
            nrun[0] += 1
            return os.path.join(scratch, 'r%d' % nrun[0])

        with w:
            ref = _one_run(run, w, cfg, fresh_root(), [], 'ref')
        rout, rsnap, rhooks = ref
        B, M = rhooks[0].boundary, rhooks[0].mid
        run.res['stats']['boundary_polls'] += B
        if B == 0:
            return
        if rsnap['stalled']:
            # the generated program did not terminate by itself (the typist had to break it):
            # when the break lands is timing, not semantics - not judged
            run.res['stats']['nonterminating_program'] += 1
            return

        def attempt(quits, label, judge=True):
            w2 = run.new_world(dict(case['cfg'].get('world', {})))
            with w2:
                got = _one_run(run, w2, cfg, fresh_root(), quits, label)
            gout, gsnap, hooks = got
            taken = [h for h in hooks if h.fired]
            for h in taken:
                run.state(*h.where)
                run.probe('suspensions_taken')
            if not taken:
                run.probe('suspension_not_reached')
            if judge:
                if gsnap['stalled']:
                    run.violate('C40', 'resumed-run-stalls', '%s: the uninterrupted run finished by itself, the resumed run had to be broken' % label)
                    return False
                return _compare(run, (rout, rsnap), (gout, gsnap), label)
            # mid-statement suspension: the program must still finish (END marker printed)
            if taken and b'\nEND ' not in gout and b'\nEND ' in rout:
                run.violate('C40', 'mid-statement-resume-does-not-finish', '%s: program did not reach its END marker after resume' % label)
                return False
            # ... and the blocking statements of these programs (INPUT, LINE INPUT waiting for the user) have done
            # nothing yet when they wait: whether the prompt shows twice is not judged, the data the program
            # ends up with is
            if taken and taken[-1].fired and not gsnap['stalled']:
                if gsnap['vars'] != rsnap['vars']:
                    diff = {k: (rsnap['vars'][k], gsnap['vars'][k]) for k in rsnap['vars'] if rsnap['vars'][k] != gsnap['vars'][k]}
                    run.violate('C40', 'mid-statement-resume:variables-differ',
                                '%s: final variables differ (reference, resumed): %r' % (label, diff))
                    return False
                if gsnap['files'] != rsnap['files']:
                    names = [k for k in set(rsnap['files']) | set(gsnap['files']) if rsnap['files'].get(k) != gsnap['files'].get(k)]
                    run.violate('C40', 'mid-statement-resume:files-differ', '%s: host files differ: %r' % (label, {
                        k: (rsnap['files'].get(k), gsnap['files'].get(k)) for k in sorted(names)[:3]}))
                    return False
            return True

        for op in case['ops']:
            k = op['op']
            if k == 'quit':
                kk = 1 + int(op['frac'] * B)
                if not attempt([('b', kk)], 'suspend at boundary poll %d of %d' % (kk, B)):
                    return
            elif k == 'quit2':
                k1 = 1 + int(op['frac'] * B)
                k2 = 1 + int(op['frac2'] * max(1, B - k1))
                if not attempt([('b', k1), ('b', k2)], 'suspend at boundary poll %d then %d more' % (k1, k2)):
                    return
            elif k == 'quit_mid':
                if M:
                    kk = 1 + int(op['frac'] * M)
                    run.probe('mid_statement_suspensions')
                    if not attempt([('m', kk)], 'suspend inside a blocking statement, wait poll %d of %d' % (kk, M), judge=False):
                        return
            elif k == 'quit_bm':
                if M:
                    k1 = 1 + int(op['frac'] * B)
                    run.probe('boundary_then_mid_statement_suspensions')
                    if not attempt([('b', k1), ('m', op['k2'])],
                                   'suspend at boundary poll %d, then inside a blocking statement at its wait poll %d' % (k1, op['k2']), judge=False):
                        return
            elif k == 'sweep':
                for kk in range(1, min(B, 250) + 1):
                    if not attempt([('b', kk)], 'suspend at boundary poll %d of %d' % (kk, B)):
                        return
                run.probe('full_sweeps')
            elif k == 'corrupt':
                _corrupt(run, cfg, scratch, op)

    return execute(case, body)


def _corrupt(run, cfg, scratch, op):
    """Alter bytes of a real state file: Session.resume must raise, never return a Session."""
    from pcbasic.basic import Session
    w = run.new_world({})
    root = os.path.join(scratch, 'corrupt')
    os.makedirs(root, exist_ok=True)
    path = os.path.join(root, 'good.state')
    with w:
        d = Driver(w, devices={'C:': root}, current_device='C:', **cfg['session'])
        for ln in cfg['program'][:6]:
            d.exec(b(ln))
        d._guard('suspend', lambda: d.s.suspend(path))
        d.close()
        with open(path, 'rb') as f:
            good = f.read()
        n = len(good)
        # every alteration of the first 48 bytes (header and the start of the compressed stream), every
        # position with three alterations (a rejected file costs a checksum only), sampled positions with op['xor']
        trials = [(pos, x) for pos in range(min(48, n)) for x in range(1, 256)]
        stride = int(op.get('stride', 1))
        trials += [(pos, x) for pos in range(48 + int(op.get('offset', 0)) % stride, n, stride) for x in (1, 0x80, 0xff)]
        trials += [(pos, x) for pos in range(max(48, n - 16), n) for x in (1, 0x80, 0xff)]
        trials += [(int(p * n), op['xor']) for p in op['positions'] if int(p * n) < n]
        bp = os.path.join(root, 'bad.state')
        bpf = None
        last = None
        try:
            for pos, x in trials:
                if bpf is None:
                    with open(bp, 'wb') as f:
                        f.write(good)
                    bpf = open(bp, 'r+b', buffering=0)
                if last is not None:
                    bpf.seek(last)
                    bpf.write(good[last:last + 1])
                bpf.seek(pos)
                bpf.write(bytes([good[pos] ^ x]))
                last = pos
                run.probe('corruptions_tried')
                try:
                    s = Session.resume(bp)
                except Exception:
                    continue
                region = 'checksum' if pos < 4 else 'header-format-version' if pos < 8 else 'header' if pos < 24 else 'payload-start' if pos < 48 else 'payload'
                run.violate('C40', 'altered-state-file-accepted:%s' % region,
                            'state file of %d bytes with byte %d xor 0x%02x was loaded without complaint' % (n, pos, x))
                try:
                    s.close()
                except Exception:
                    pass
                return
        finally:
            if bpf is not None:
                bpf.close()
