"""Shared scaffolding for machines."""

import os
import zlib
import shutil
import contextlib

from .. import kernel as K
from ..basicdrv import Driver, EngineCrash, ByteSink
from ..runner import new_result


def b(s):
    """latin-1 str -> bytes (ops carry BASIC text as latin-1 str so they are JSON-able)."""
    return s.encode('latin-1') if isinstance(s, str) else s


def u(bs):
    """bytes -> latin-1 str."""
    return bs.decode('latin-1') if isinstance(bs, (bytes, bytearray)) else bs


def shash(*t):
    return zlib.crc32(repr(t).encode('utf-8', 'backslashreplace'))


class Run(object):
    """Bookkeeping for one simulated run."""

    def __init__(self, case, world_cfg=None, keep_log=False):
        self.case = case
        self.prop = case['prop']
        self.res = new_result()
        self.w = K.World(world_cfg if world_cfg is not None else case['cfg'].get('world', {}), keep_log=keep_log)
        self.worlds = [self.w]
        self.scratch = None
        self.stop = False

    def new_world(self, cfg):
        w = K.World(cfg, keep_log=False)
        self.worlds.append(w)
        return w

    def violate(self, prop, sig, detail):
        # keep one violation per signature per run
        for v in self.res['violations']:
            if v['prop'] == prop and v['sig'] == sig:
                return
        self.res['violations'].append({'prop': prop, 'sig': sig, 'detail': detail})
        self.w.log.add('violation', prop, sig)

    def state(self, *t):
        self.res['states'].add(shash(*t))

    def probe(self, name, n=1):
        self.res['probes'][name] += n

    def fault(self, name, n=1):
        self.res['faults'][name] += n

    def make_scratch(self):
        """Per-run scratch tree on tmpfs; removed by finish()."""
        if self.scratch is None:
            base = '/dev/shm' if os.path.isdir('/dev/shm') else '/tmp'
            self.scratch = os.path.join(base, 'pcbverif-%d-%s' % (os.getpid(), self.case.get('seed', 0)))
            shutil.rmtree(self.scratch, ignore_errors=True)
            os.makedirs(self.scratch)
        return self.scratch

    def finish(self):
        h = []
        for w in self.worlds:
            self.res['stats'].update(w.stats)
            self.res['stats']['polls'] += w.poll_no
            self.res['faults'].update(w.faults)
            self.res['probes'].update(w.probes)
            self.res['sim_us'] += w.slept_us
            h.append(w.log.digest())
        self.res['digest'] = shash(*h) if len(h) > 1 else h[0]
        self.res['digest'] = str(self.res['digest'])
        if self.scratch is not None:
            shutil.rmtree(self.scratch, ignore_errors=True)
        return self.res


def execute(case, body, world_cfg=None):
    """
    Standard run wrapper: body(run) drives the engine. Engine crashes become violations of the
    run's property (signature 'crash:<Type>@<file>:<function>'), caps become status 'aborted'.
    """
    run = Run(case, world_cfg)
    try:
        body(run)
    except K.SimAbort as e:
        run.res['status'] = 'aborted'
        run.res['stats']['aborted:' + str(e)] += 1
    except EngineCrash as e:
        run.res['status'] = 'crash'
        run.violate(run.prop, 'crash:' + e.signature, '%s: %s (during %r)\n%s' % (e.exc_type, e.exc_msg, e.where, e.tb))
    finally:
        K.WORLD = None
    return run.finish()
