"""
clock machine - C44: TIME$, DATE$ and ENVIRON read back what was set.

One run = one Session on a simulated clock that starts at a seeded instant (often seconds before a
midnight / month end / 29 Feb / year limit) and a history of
    settime / setdate (valid, invalid and unspecified shapes), read (DATE$+TIME$), readtime,
    readdate, timer, sleep (simulated seconds to weeks pass between statements), bwait (time passes
    inside a blocking statement), jump (clock step), setenv / setraw / getenv.

Reference model
  * BASIC clock B = host clock + off. `off` is only known up to the sub-second fraction the engine
    may keep or drop when TIME$ is set, and the host clock at the instant of a statement is only
    known to lie between the clock before and after the call, so the model holds a small list of
    closed candidate intervals for `off` (microseconds). A set maps every interval; every read
    intersects them with what the read allows. An empty intersection = the engine's clock is not
    "what was set plus elapsed time".
  * After a clock *jump* only "no internal error" is required (DESIGN C44): the model forgets `off`
    and re-learns it from the next full read.
  * The value grammar is classified by `classify_time` / `classify_date` into valid / invalid /
    unspecified. Only shapes the property names are in the first two classes; everything else
    (blank padding around digits, '.' separators, 3-digit components with leading zeros, one- or
    three-digit years, yy 78/79) is `unspec`: any of {error 5 and unchanged, accepted} passes and the
    model re-learns the clock afterwards.
  * Environment: dict UPPER(name) -> value. Names carry a `QZ` prefix so that they cannot collide
    with host variables. A NUL byte cannot be stored in a POSIX environment: error 5 + unchanged
    is accepted for it (a crash is not). Non-ASCII names may be refused with error 5.
"""

import os
import re
import datetime as _dt

from .. import kernel as K
from ..basicdrv import Driver, EngineCrash, suspend_resume
from .common import Run, execute, b, u, shash

NAME = 'clock'
PROPS = ('C44',)
RULE = ('one evaluation = one simulated session history of TIME$/DATE$/ENVIRON sets and reads with '
        'simulated time passing in between; distinct = distinct (op kind, value shape class, outcome, '
        'clock-model bucket: synced?/offset set?/day rolled since set?/month rolled?/year rolled?) tuples; '
        'non-trivial = at least one read was compared with the model')
REAL = ['pcbasic.basic (whole package)', 'pcbasic.basic.clock', 'pcbasic.basic.dos.Environment',
        'pcbasic.basic.codepage (environment value conversion)', 'os.environ of the worker process']
STUB = ['wall clock (simulated: datetime.now, time.sleep)', 'interface queues (simulated, recording)']
ASSUMPTIONS = [
    'no host environment variable starts with QZ',
    'sub-second part of the clock after TIME$=t is unspecified (model allows [t, t+1s))',
    'after a host clock step only absence of internal errors is required',
]
BATCH = 25

EPOCH = K.RealDateTime(1970, 1, 1)
DAY = 86400 * 10 ** 6
SEC = 10 ** 6
WS = b' \t\n\r\x0b\x0c'


def quick_runs(prop):
    return 6000


###############################################################################
# helpers

def us_of(dt):
    d = dt - EPOCH
    return (d.days * 86400 + d.seconds) * SEC + d.microseconds


def dt_of(us):
    return EPOCH + _dt.timedelta(microseconds=us)


def bstr(data):
    """BASIC string expression for arbitrary bytes."""
    parts = []
    cur = bytearray()
    for c in bytearray(data):
        if c < 32 or c == 34 or c == 127:
            if cur:
                parts.append(b'"' + bytes(cur) + b'"')
                cur = bytearray()
            parts.append(b'CHR$(%d)' % c)
        else:
            cur.append(c)
    if cur:
        parts.append(b'"' + bytes(cur) + b'"')
    if not parts:
        return b'""'
    return b'+'.join(parts)


###############################################################################
# value grammar (the model's reading of the property's quantifier)

def _comp(c, lo, hi):
    """Classify one numeric component: ('ok', v) | ('invalid', why) | ('unspec', why)."""
    s = c.strip(WS)
    if s == b'':
        return ('invalid', 'blank')
    if re.fullmatch(br'-[0-9_]+', s):
        return ('invalid', 'negative')
    if re.fullmatch(br'\+[0-9_]+', s):
        return ('invalid', 'plus-sign')
    if re.fullmatch(br'[0-9]+(_+[0-9]+)+', s):
        return ('invalid', 'underscore')
    if not re.fullmatch(br'[0-9]+', s):
        return ('invalid', 'nonnumeric')
    v = int(s)
    if not (lo <= v <= hi):
        return ('invalid', 'range')
    if s != c:
        return ('unspec', 'padded')
    if len(s) > 2:
        return ('unspec', 'leading-zeros')
    return ('ok', v)


def _combine(res):
    for r in res:
        if r[0] == 'invalid':
            return r
    for r in res:
        if r[0] == 'unspec':
            return r
    return None


def classify_time(t):
    """-> ('valid', (h,m,s)) | ('invalid', why) | ('unspec', why)"""
    if b'.' in t:
        # '.' as a separator is not in the property's grammar: such a value is invalid if it is
        # invalid under the ':' reading too (sign, blank, range, ...), otherwise unspecified
        alt = classify_time(t.replace(b'.', b':'))
        return alt if alt[0] == 'invalid' else ('unspec', 'dot-separator')
    parts = t.split(b':')
    if len(parts) > 3:
        return ('invalid', 'parts')
    res = [_comp(p, 0, hi) for p, hi in zip(parts, (23, 59, 59))]
    bad = _combine(res)
    if bad:
        return bad
    vals = [r[1] for r in res] + [0, 0]
    return ('valid', tuple(vals[:3]))


def _mdays(y, m):
    if m == 2:
        return 29 if (y % 4 == 0 and (y % 100 != 0 or y % 400 == 0)) else 28
    return 30 if m in (4, 6, 9, 11) else 31


def classify_date(t):
    """-> ('valid', (y,m,d)) | ('invalid', why) | ('unspec', why)"""
    parts = t.replace(b'/', b'-').split(b'-')
    if len(parts) != 3:
        # a minus sign in front of a component also lands here
        return ('invalid', 'parts')
    rm = _comp(parts[0], 1, 12)
    rd = _comp(parts[1], 1, 31)
    ys = parts[2].strip(WS)
    ry = _comp(parts[2], 0, 10 ** 12)
    if ry[0] != 'invalid':
        v = int(ys)
        digits = len(ys)
        if ry[0] == 'unspec' and ry[1] == 'leading-zeros':
            ry = ('ok', v)
        if v > 2099 or 100 <= v < 1980:
            ry = ('invalid', 'range')
        elif ry[0] == 'ok':
            if digits == 4 and v >= 1980:
                ry = ('ok', v)
            elif digits == 2:
                if v in (78, 79):
                    ry = ('unspec', 'yy78-79')
                else:
                    ry = ('ok', 2000 + v if v <= 77 else 1900 + v)
            else:
                ry = ('unspec', 'year-digits')
    bad = _combine([rm, rd, ry])
    if bad and bad[0] == 'invalid':
        return bad
    if rm[0] == 'ok' and rd[0] == 'ok' and ry[0] == 'ok':
        if rd[1] > _mdays(ry[1], rm[1]):
            return ('invalid', 'day-of-month')
    elif rm[0] != 'invalid' and rd[0] != 'invalid':
        # unspecified shape: still invalid if the day cannot exist in any year
        try:
            mm, dd = int(parts[0].strip(WS)), int(parts[1].strip(WS))
            if dd > (29 if mm == 2 else _mdays(2001, mm)):
                return ('invalid', 'day-of-month')
        except ValueError:
            pass
    if bad:
        return bad
    return ('valid', (ry[1], rm[1], rd[1]))


###############################################################################
# generator

SPECIAL_STARTS = [
    (2024, 3, 10, 10, 0, 0),      # ordinary
    (2024, 2, 28, 23, 59, 30),    # leap year, before 29 Feb
    (2024, 2, 29, 23, 59, 50),    # leap day -> 1 Mar
    (2023, 2, 28, 23, 59, 55),    # non-leap -> 1 Mar
    (1999, 12, 31, 23, 59, 57),   # century
    (2000, 2, 28, 23, 59, 58),    # 2000 is a leap year
    (2024, 12, 31, 23, 59, 40),   # year end
    (2024, 4, 30, 23, 59, 59),    # 30-day month
    (2024, 1, 31, 23, 58, 59),
    (1980, 1, 1, 0, 0, 1),
    (2099, 12, 31, 23, 59, 0),
    (2037, 6, 15, 12, 0, 0),
    (1985, 10, 26, 1, 21, 0),
]

SPECIAL_DATES = [
    (1980, 1, 1), (2099, 12, 31), (2000, 2, 29), (2000, 2, 28), (2024, 2, 29), (2024, 2, 28),
    (2023, 2, 28), (1999, 12, 31), (2024, 12, 31), (2024, 4, 30), (2024, 1, 31), (2077, 12, 31),
    (1980, 12, 31), (2078, 1, 1), (2079, 6, 6), (2001, 1, 1), (1981, 3, 31),
]


def _num(rng, v, width=2):
    r = rng.random()
    if r < 0.6:
        return '%0*d' % (width, v)
    return '%d' % v


def _bad_comp(rng, hi):
    """An invalid or unspecified component, by kind."""
    k = rng.choice(['range', 'range', 'negative', 'negative', 'plus', 'blank', 'nonnum', 'nonnum',
                    'under', 'padded', 'zeros'])
    v = rng.randint(0, hi)
    if k == 'range':
        return str(rng.choice([hi + 1, hi + 2, 99, 100, 255, 256, 32768, 65536, 10 ** 10, 10 ** 30]))
    if k == 'negative':
        return rng.choice(['-%d' % max(1, v), '-1', '-0', '-00', '-%d' % (hi + 5), ' -1'])
    if k == 'plus':
        return rng.choice(['+%d' % v, '+0', '+%02d' % v, ' +%d' % v])
    if k == 'blank':
        return rng.choice(['', ' ', '  ', '\t'])
    if k == 'nonnum':
        return rng.choice(['a', '%da' % v, 'x%d' % v, '0x1', '1e1', '&H1', '1,2', ';', '\x00', '%d\x00' % v,
                           '\xb2', '\xff', '1 2', '- 1', '+ 1', '"', '1"', '%d!' % v, '%d#' % v, 'O'])
    if k == 'under':
        return rng.choice(['1_0', '0_1', '%d_%d' % (v % 10, v % 7), '1__0'])
    if k == 'padded':
        return rng.choice([' %d', '%d ', ' %02d ', '\t%d', '%d\n', '\x0c%d']) % v
    return rng.choice(['0%02d', '00%02d', '000%d']) % v


def gen_time_text(rng):
    r = rng.random()
    n = rng.choice([1, 2, 3, 3, 3])
    # near-midnight bias so that following sleeps cross it
    if rng.random() < 0.5:
        hms = [23, 59, rng.randint(50, 59)]
    else:
        hms = [rng.choice([0, 1, 9, 10, 12, 23, rng.randint(0, 23)]), rng.choice([0, 59, rng.randint(0, 59)]),
               rng.choice([0, 59, rng.randint(0, 59)])]
    comps = [_num(rng, v) for v in hms[:n]]
    if r < 0.55:
        pass
    elif r < 0.93:
        i = rng.randrange(n)
        comps[i] = _bad_comp(rng, (23, 59, 59)[i])
    else:
        k = rng.choice(['parts', 'parts', 'trailing', 'leading', 'empty', 'dot', 'dotneg', 'sep'])
        if k == 'parts':
            comps = comps + [_num(rng, rng.randint(0, 59)) for _ in range(4 - n)]
        elif k == 'trailing':
            comps.append('')
        elif k == 'leading':
            comps.insert(0, '')
        elif k == 'empty':
            comps = ['']
        elif k == 'dot':
            return '.'.join(comps)
        elif k == 'dotneg':
            return '-1.' + '.'.join(comps)
        else:
            return rng.choice(['-', '/', ' ', ';', ',']).join(comps + ['1'])
    return ':'.join(comps)


def gen_date_text(rng):
    r = rng.random()
    if rng.random() < 0.6:
        y, m, d = rng.choice(SPECIAL_DATES)
    else:
        y, m = rng.randint(1980, 2099), rng.randint(1, 12)
        d = rng.randint(1, _mdays(y, m))
    sep = rng.choice(['-', '-', '/'])
    sep2 = sep if rng.random() < 0.85 else rng.choice(['-', '/'])
    if rng.random() < 0.4 and (y <= 1999 or y <= 2079):
        ys = '%02d' % (y % 100)      # two-digit year (78/79 are unspecified, 00-77/80-99 map to a century)
    else:
        ys = '%d' % y
    comps = [_num(rng, m), _num(rng, d), ys]
    if r < 0.5:
        pass
    elif r < 0.62:
        # impossible day of month
        m2 = rng.choice([2, 2, 4, 6, 9, 11])
        y2 = rng.choice([2023, 2024, 2000, 1999, 2096, 2100 - 1])
        d2 = rng.choice([_mdays(y2, m2) + 1, 30, 31]) if m2 == 2 else 31
        comps = [_num(rng, m2), _num(rng, d2), '%d' % y2]
    elif r < 0.72:
        comps[2] = rng.choice(['1979', '2100', '1900', '0', '100', '999', '78', '79', '77', '80', '00', '5', '080',
                               '02024', '9999', '10000', '65536', '1_980', '19_80', '+2024', '+24', ' 2024',
                               '2024 ', '', ' ', 'MM', '2024a', '24.0', '1e3'])
    elif r < 0.9:
        i = rng.randrange(2)
        comps[i] = rng.choice([_bad_comp(rng, (12, 31)[i]), '0', '00', str((13, 32)[i])])
    else:
        k = rng.choice(['two', 'four', 'neg', 'empty', 'time', 'sep'])
        if k == 'two':
            return sep.join(comps[:2])
        elif k == 'four':
            return sep.join(comps + ['1'])
        elif k == 'neg':
            i = rng.randrange(3)
            comps[i] = '-' + comps[i]
        elif k == 'empty':
            return ''
        elif k == 'time':
            return '%s:%s:%s' % tuple(comps)
        else:
            return rng.choice(['.', ' ', ':', '\\']).join(comps)
    return comps[0] + sep + comps[1] + sep2 + comps[2]


ENV_NAMES = ['QZA', 'QZb', 'qzPath', 'QZ_X1', 'qz.tmp', 'Qz$', 'QZLONGNAME0123456789']


def _recase(rng, s):
    return ''.join(c.upper() if rng.random() < 0.5 else c.lower() for c in s)


def gen_env_value(rng):
    k = rng.choice(['ascii', 'ascii', 'ascii', 'space', 'eq', 'high', 'high', 'ctrl', 'nul', 'empty', 'long', 'quote'])
    n = rng.randint(1, 12)
    if k == 'ascii':
        return ''.join(rng.choice('abcXYZ019 _-/\\:;.,%') for _ in range(n))
    if k == 'space':
        return ' ' * rng.randint(1, 3) + 'v' + ' ' * rng.randint(0, 3)
    if k == 'eq':
        return rng.choice(['a=b', '=', '==x', 'k=v=w', 'x='])
    if k == 'high':
        return ''.join(chr(rng.choice([rng.randint(128, 255), rng.randint(32, 126)])) for _ in range(n))
    if k == 'ctrl':
        return ''.join(chr(rng.choice([rng.randint(1, 31), 127, rng.randint(32, 126)])) for _ in range(n))
    if k == 'nul':
        return rng.choice(['B\x00C', '\x00', 'x\x00', '\x00y'])
    if k == 'empty':
        return ''
    if k == 'long':
        return ''.join(rng.choice('abcdefgh') for _ in range(rng.randint(100, 220)))
    return rng.choice(['"', 'a"b', '""'])


def gen(rng, tier, prop):
    thorough = tier != 'quick'
    n = rng.randint(4, 60 if thorough else 24)
    y, mo, d, h, mi, s = rng.choice(SPECIAL_STARTS)
    start = us_of(K.RealDateTime(y, mo, d, h, mi, s)) + rng.choice([0, 0, 1, 499999, 500000, 999999, rng.randrange(SEC)])
    weights = rng.choice(['mixed', 'mixed', 'clock', 'env'])
    jumps = rng.random() < 0.3
    ops = []
    for _ in range(n):
        r = rng.random()
        if weights == 'env':
            r = 0.80 + r * 0.2 if r > 0.25 else r * 4 * 0.8
        elif weights == 'clock' and r >= 0.80:
            r = rng.random() * 0.8
        if r < 0.16:
            ops.append({'op': 'settime', 'text': gen_time_text(rng)})
        elif r < 0.30:
            ops.append({'op': 'setdate', 'text': gen_date_text(rng)})
        elif r < 0.46:
            ops.append({'op': 'read', 'via': rng.choice(['print', 'eval', 'var'])})
        elif r < 0.52:
            ops.append({'op': rng.choice(['readtime', 'readdate', 'timer'])})
        elif r < 0.70:
            k = rng.random()
            if k < 0.55:
                secs = rng.choice([0.3, 0.5, 1, 1, 2, 2.5, 5, 9, 10, 30, 59, 60, 61, rng.randint(1, 120)])
            elif k < 0.85:
                secs = rng.choice([600, 3599, 3600, 3601, 86399, 86400, 86401, 43200, rng.randint(100, 90000)])
            else:
                secs = rng.choice([86400 * 2, 86400 * 27, 86400 * 31, 86400 * 365, 86400 * 366, 86400 * 59,
                                   rng.randint(86400, 86400 * 800)])
            ops.append({'op': 'sleep', 's': secs})
        elif r < 0.73:
            ops.append({'op': 'bwait', 'k': rng.choice([1, 2, 4])})
        elif r < 0.80:
            if jumps:
                ops.append({'op': 'jump', 's': rng.choice([-86400, -3600, -61, -1, 1, 61, 3600, 86400, 86400 * 31,
                                                          -86400 * 366, 86400 * 366])})
            else:
                ops.append({'op': 'read', 'via': 'eval'})
        elif r < 0.90:
            name = rng.choice(ENV_NAMES)
            k = rng.random()
            if k < 0.85:
                ops.append({'op': 'setenv', 'name': _recase(rng, name), 'value': gen_env_value(rng)})
            elif k < 0.93:
                bad = rng.choice(['hi', 'nul', 'ctrl'])
                nm = {'hi': 'QZ\xe9' + name[2:], 'nul': 'QZ\x00N', 'ctrl': 'QZ\x01' + name[2:]}[bad]
                ops.append({'op': 'setenv', 'name': nm, 'value': gen_env_value(rng)})
            else:
                ops.append({'op': 'setraw', 'text': rng.choice(['', '=', '=x', 'QZNOEQ', ' ', 'qz novalue'])})
        else:
            name = rng.choice(ENV_NAMES + ['QZUNSET', 'QZ\xe9A', 'QZ\x01A'])
            ops.append({'op': 'getenv', 'name': _recase(rng, name)})
    for op in ops:
        if op['op'] in ('settime', 'setdate') and rng.random() < 0.12:
            op['typed_after'] = rng.choice([0.5, 1.2, 3, 3, 7.7, 30, 61])
    if rng.random() < 0.15:
        # crash/restart: the session is saved, dropped and rebuilt from the state file; what was set stays set
        for _ in range(rng.randint(1, 2)):
            ops.insert(rng.randint(1, len(ops)), {'op': 'restart'})
    cfg = {
        'world': {'start_us': start, 'sleep0_us': rng.choice([0, 1, 50, 50, 500, 20000]),
                  'sim_cap_s': 86400 * 366 * 40},
        'session': {'codepage': rng.choice(['437', '437', '437', '850', '866', '932', '936', '949', '1258', 'koi8-r'])},
    }
    return {'machine': NAME, 'prop': prop, 'cfg': cfg, 'ops': ops}


def simplify(cfg, ops):
    for i, op in enumerate(ops):
        if op['op'] == 'sleep' and op['s'] > 1:
            for s in (1, op['s'] // 2):
                if s < op['s']:
                    yield cfg, ops[:i] + [dict(op, s=s)] + ops[i + 1:]
        if op['op'] == 'read' and op['via'] != 'eval':
            yield cfg, ops[:i] + [dict(op, via='eval')] + ops[i + 1:]
        if op['op'] == 'setenv' and len(op['value']) > 3:
            yield cfg, ops[:i] + [dict(op, value=op['value'][:len(op['value']) // 2])] + ops[i + 1:]
    if cfg['session'].get('codepage') != '437':
        c = dict(cfg)
        c['session'] = dict(cfg['session'], codepage='437')
        yield c, ops
    if cfg['world'].get('sleep0_us') != 50:
        c = dict(cfg)
        c['world'] = dict(cfg['world'], sleep0_us=50)
        yield c, ops


###############################################################################
# reference model of the clock

class ClockModel(object):

    def __init__(self):
        # candidate closed intervals for off = B - host, microseconds; None = unknown
        self.iv = [(0, 0)]
        self.last = 'initial'
        self.offset_set = False
        self.rolled = set()

    @property
    def synced(self):
        return self.iv is not None

    def forget(self, why):
        self.iv = None
        self.last = why

    def _norm(self, ivs):
        ivs = sorted(set(ivs))
        out = []
        for lo, hi in ivs:
            if out and lo <= out[-1][1] + 1:
                out[-1] = (out[-1][0], max(out[-1][1], hi))
            else:
                out.append((lo, hi))
        return out

    def _dates(self, lo, hi, c0, c1):
        """All calendar days (as us of midnight) that B may lie on."""
        a = (c0 + lo) // DAY
        z = (c1 + hi) // DAY
        return [k * DAY for k in range(a, min(z, a + 3) + 1)]

    def set_time(self, hms, c0, c1):
        if self.iv is None:
            return
        t = (hms[0] * 3600 + hms[1] * 60 + hms[2]) * SEC
        new = []
        for lo, hi in self.iv:
            for day in self._dates(lo, hi, c0, c1):
                new.append((day + t - c1, day + t + SEC - 1 - c0))
        self.iv = self._norm(new)
        self.offset_set = True
        self.rolled = set()

    def set_date(self, ymd, c0, c1):
        if self.iv is None:
            return
        target = us_of(K.RealDateTime(*ymd))
        new = []
        for lo, hi in self.iv:
            for day in self._dates(lo, hi, c0, c1):
                # B keeps its time of day: off shifts by whole days; restrict to the part of the
                # interval that lies on `day` (over-approximated by the whole interval)
                new.append((lo + target - day, hi + target - day))
        self.iv = self._norm(new)
        self.offset_set = True
        self.rolled = set()

    def year_range(self, c0, c1):
        ys = set()
        for lo, hi in self.iv:
            ys.add(dt_of(c0 + lo).year)
            ys.add(dt_of(c1 + hi).year)
        return min(ys), max(ys)

    def observe(self, c0, c1, date=None, tod=None):
        """
        Intersect with an observation made with the host clock somewhere in [c0, c1]:
        date = (y, m, d) or None, tod = second of day or None. Returns False on contradiction.
        """
        if date is not None:
            base = us_of(K.RealDateTime(*date))
            if tod is not None:
                want = [(base + tod * SEC, base + tod * SEC + SEC - 1)]
            else:
                want = [(base, base + DAY - 1)]
        else:
            want = None
        if self.iv is None:
            if date is not None and tod is not None:
                self.iv = [(want[0][0] - c1, want[0][1] - c0)]
                return True
            return True
        new = []
        for lo, hi in self.iv:
            if want is None:
                # every day on which B may lie
                ws = [(day + tod * SEC, day + tod * SEC + SEC - 1) for day in
                      [k * DAY for k in range((c0 + lo) // DAY - 1, (c1 + hi) // DAY + 2)]]
            else:
                ws = want
            for a, z in ws:
                nlo, nhi = max(lo, a - c1), min(hi, z - c0)
                if nlo <= nhi:
                    new.append((nlo, nhi))
        if not new:
            return False
        self.iv = self._norm(new)
        return True

    def describe(self, c0, c1):
        if self.iv is None:
            return 'unknown'
        return ' or '.join('%s..%s' % (dt_of(c0 + lo).strftime('%m-%d-%Y %H:%M:%S.%f'),
                                       dt_of(c1 + hi).strftime('%m-%d-%Y %H:%M:%S.%f')) for lo, hi in self.iv)


_TIME_RE = re.compile(br'^(\d\d):(\d\d):(\d\d)$')
_DATE_RE = re.compile(br'^(\d\d)-(\d\d)-(\d{4})$')


_CP = {}


def cp_info(name):
    """Independent reading of a codepage file: normalised table, multiplicity of each cluster, lead bytes."""
    if name not in _CP:
        import unicodedata
        import collections
        from pcbasic.data import read_codepage
        norm = {}
        for k, v in read_codepage(name).items():
            v = unicodedata.normalize('NFC', v)
            if len(k) == 1 and 0x20 <= bytearray(k)[0] <= 0x7e:
                v = chr(bytearray(k)[0])
            norm[k] = v
        for c in range(0x20, 0x7f):
            norm[bytes(bytearray([c]))] = chr(c)
        count = collections.Counter(norm.values())
        lead = set(k[:1] for k in norm if len(k) == 2)
        combining = set(k for k, v in norm.items() if any(unicodedata.combining(ch) for ch in v))
        _CP[name] = (norm, count, lead, combining)
    return _CP[name]


def is_cp_text(v, cpname):
    """
    True if the byte string is text of the codepage that has exactly one encoding: a sequence of
    defined single bytes / lead+trail pairs, each mapping to a cluster no other code point maps to,
    none of them NUL or a combining mark. Only for such values does "reads back the value" have
    one meaning; anything else is left unspecified (crashes excepted).
    """
    norm, count, lead, combining = cp_info(cpname)
    i = 0
    while i < len(v):
        c = v[i:i + 1]
        if c in lead and i + 1 < len(v) and v[i:i + 2] in norm:
            unit = v[i:i + 2]
        elif c in lead or c not in norm:
            return False
        else:
            unit = c
        cl = norm[unit]
        if count[cl] != 1 or u'\0' in cl or unit in combining:
            return False
        i += len(unit)
    return True


def _env_value_class(v, cpname='437'):
    if b'\x00' in v:
        return 'nul'
    if not is_cp_text(v, cpname):
        return 'cp-odd'
    if any(c >= 128 for c in bytearray(v)):
        return 'high'
    if any(c < 32 or c == 127 for c in bytearray(v)):
        return 'ctrl'
    if v == b'':
        return 'empty'
    if b'=' in v:
        return 'eq'
    if v != v.strip(b' '):
        return 'space'
    if len(v) > 60:
        return 'long'
    return 'ascii'


def _env_name_class(n):
    if b'\x00' in n:
        return 'nul'
    if any(c >= 128 for c in bytearray(n)):
        return 'high'
    if any(c < 32 or c == 127 for c in bytearray(n)):
        return 'ctrl'
    return 'plain'


def _session_kwargs(cfg):
    sk = {}
    name = cfg.get('session', {}).get('codepage', '437')
    if name != '437':
        from pcbasic.data import read_codepage
        sk['codepage'] = read_codepage(name)
    return sk


def _body(run):
    case = run.case
    w = run.w
    env_before = dict(os.environ)
    m = ClockModel()
    env = {}
    cpname = case['cfg'].get('session', {}).get('codepage', '437')
    with w:
        d = Driver(w, **_session_kwargs(case['cfg']))
        last_day = [None]

        def crash_guard(fn, tag):
            """Run an engine call; a crash is reported with the input shape in its signature."""
            try:
                return fn()
            except EngineCrash as e:
                run.res['status'] = 'crash'
                run.violate('C44', 'crash:%s:%s' % (e.signature, tag),
                            '%s: %s (during %r)\n%s' % (e.exc_type, e.exc_msg, e.where, e.tb))
                run.stop = True
                return None

        def bucket():
            return (m.synced, m.offset_set, tuple(sorted(m.rolled)), m.last)

        def note_roll(c):
            """Coverage only: which calendar boundaries the BASIC clock crossed since the last set."""
            if m.iv is None:
                last_day[0] = None
                return
            dtv = dt_of(c + m.iv[0][0])
            cur = (dtv.year, dtv.month, dtv.day)
            prev = last_day[0]
            last_day[0] = cur
            if prev is None or prev == cur:
                return
            m.rolled.add('day')
            if m.offset_set:
                run.probe('midnight-crossed-with-offset-set')
            if prev[:2] != cur[:2]:
                m.rolled.add('month')
                run.probe('month-rolled')
            if prev[0] != cur[0]:
                m.rolled.add('year')
                run.probe('year-rolled')
            if (prev[1], prev[2]) == (2, 29) or (cur[1], cur[2]) == (2, 29):
                run.probe('leap-day-boundary')
            if cur[0] > 2099 or cur[0] < 1980:
                run.probe('outside-1980-2099')

        def check_obs(kind, c0, c1, date, tod, shown):
            """
            Compare an observation with the model; resync the model on mismatch. DATE$ and TIME$
            of one read are two clock readings, each somewhere in [c0, c1] (they may even be two
            statements), so they are applied as two separate constraints.
            """
            run.probe('reads-compared' if m.synced else 'reads-resync')
            if m.synced and date is not None:
                y0, y1 = m.year_range(c0, c1)
                if y0 < 1980 or y1 > 2099:
                    # what DATE$ shows outside the settable range is not specified
                    date = None
                    if tod is None:
                        return
            if m.synced:
                before = m.describe(c0, c1)
                ok = True
                if date is not None:
                    ok = m.observe(c0, c1, date, None)
                if ok and tod is not None:
                    ok = m.observe(c0, c1, None, tod)
                if ok:
                    return
                run.violate('C44', 'clock-mismatch:%s:%s%s' % (kind, m.last, '+midnight-crossed' if m.rolled else ''),
                            '%s shows %r but set value + elapsed simulated time gives %s' % (kind, shown, before))
                m.forget('mismatch')
            if date is not None and tod is not None:
                # learn the offset from a full reading, unless it is so close to midnight that
                # the date and the time may belong to different days
                margin = (c1 - c0) + SEC
                if margin < tod * SEC < DAY - margin:
                    m.observe(c0, c1, date, tod)

        def parse_time(tv, fn):
            mt = _TIME_RE.match(tv or b'')
            if not mt or int(mt.group(1)) > 23 or int(mt.group(2)) > 59 or int(mt.group(3)) > 59:
                run.violate('C44', 'clock-format:' + fn, '%s returned %r' % (fn, tv))
                return None
            return int(mt.group(1)) * 3600 + int(mt.group(2)) * 60 + int(mt.group(3))

        def parse_date(dv, fn):
            mt = _DATE_RE.match(dv or b'')
            ok = bool(mt)
            if ok:
                mo, dd, yy = int(mt.group(1)), int(mt.group(2)), int(mt.group(3))
                ok = 1 <= mo <= 12 and 1 <= yy <= 9999 and 1 <= dd <= _mdays(yy, mo)
            if not ok:
                run.violate('C44', 'clock-format:' + fn, '%s returned %r' % (fn, dv))
                return None
            return (yy, mo, dd)

        for op in case['ops']:
            if run.stop:
                break
            k = op['op']
            c0 = w.clock_us
            if k in ('settime', 'setdate'):
                text = b(op['text'])
                isdate = k == 'setdate'
                fn = 'date' if isdate else 'time'
                cls, info = (classify_date if isdate else classify_time)(text)
                tag = '%s-%s' % (fn, cls if cls == 'valid' else info)
                stmt = (b'DATE$=' if isdate else b'TIME$=') + bstr(text)
                delay = op.get('typed_after')
                if delay and text and all(32 <= ch < 127 for ch in bytearray(text)):
                    # the value is typed by the user while the statement waits for it: what is set counts from
                    # the moment the value is there, not from the moment the statement began
                    stmt = (b'DATE$=' if isdate else b'TIME$=') + b'INPUT$(%d)' % len(text)
                    w.at_time(delay, K.sig_stream(u(text)))
                    tag += ':operand-typed-later'
                    r = crash_guard(lambda: d.exec(stmt, poll_cap=200000), tag)
                    c0 = max(c0, min(w.clock_us, c0 + int(delay * 1e6)))
                    run.probe('set-with-blocking-operand')
                else:
                    r = crash_guard(lambda: d.exec(stmt), tag)
                if r is None:
                    break
                c1 = w.clock_us
                outcome = 'ok' if r.err is None else 'e%d' % r.err
                run.state(k, cls, info if cls != 'valid' else len(text.split(b':')), outcome, bucket())
                if r.err not in (None, 5):
                    run.violate('C44', '%s-set-wrong-error:%s' % (fn, tag), '%s -> %r, expected no error or error 5' % (stmt, r))
                    m.forget('odd-error')
                elif cls == 'valid':
                    if r.err is None:
                        (m.set_date if isdate else m.set_time)(info, c0, c1)
                        m.last = 'after-%s-set' % fn
                        run.probe('valid-set-accepted')
                    else:
                        run.violate('C44', '%s-valid-rejected' % fn, '%s -> error %d' % (stmt, r.err))
                        m.last = 'after-rejected-%s-set' % fn
                elif cls == 'invalid':
                    if r.err == 5:
                        # nothing may change: the model stays as it is and later reads check it
                        m.last = 'after-rejected-%s-set' % fn
                        run.probe('invalid-set-rejected')
                    else:
                        run.violate('C44', '%s-invalid-accepted:%s' % (fn, info),
                                    '%s was accepted (%s component), expected Illegal function call; %s$ now %r' % (
                                        stmt, info, fn.upper(), d.eval(b'DATE$' if isdate else b'TIME$')))
                        m.forget('invalid-accepted')
                else:
                    run.probe('unspecified-shape:' + info)
                    if r.err is None:
                        m.forget('unspecified-accepted')
                    else:
                        m.last = 'after-rejected-%s-set' % fn
                last_day[0] = None
                note_roll(w.clock_us)
            elif k == 'read':
                via = op.get('via', 'eval')
                if via == 'print':
                    r = crash_guard(lambda: d.exec(b'PRINT DATE$;"|";TIME$'), 'read')
                    if r is None:
                        break
                    parts = r.out.strip().split(b'|') if r.err is None else [None, None]
                    dv, tv = (parts + [None])[:2]
                elif via == 'var':
                    r = crash_guard(lambda: d.exec(b'D$=DATE$:T$=TIME$'), 'read')
                    if r is None:
                        break
                    dv, tv = d.get(b'D$'), d.get(b'T$')
                else:
                    v = crash_guard(lambda: d.eval(b'DATE$+"|"+TIME$'), 'read')
                    if run.stop:
                        break
                    dv, tv = (v or b'|').split(b'|')
                c1 = w.clock_us
                note_roll(c0)
                run.state(k, via, bucket())
                date = parse_date(dv, 'DATE$')
                tod = parse_time(tv, 'TIME$')
                if date is not None and tod is not None:
                    check_obs('DATE$+TIME$', c0, c1, date, tod, (dv, tv))
            elif k in ('readtime', 'readdate', 'timer'):
                expr = {'readtime': b'TIME$', 'readdate': b'DATE$', 'timer': b'TIMER'}[k]
                v = crash_guard(lambda: d.eval(expr), 'read')
                if run.stop:
                    break
                c1 = w.clock_us
                note_roll(c0)
                run.state(k, bucket())
                if k == 'readtime':
                    tod = parse_time(v, 'TIME$')
                    if tod is not None and m.synced:
                        check_obs('TIME$', c0, c1, None, tod, v)
                elif k == 'readdate':
                    date = parse_date(v, 'DATE$')
                    if date is not None and m.synced:
                        check_obs('DATE$', c0, c1, date, None, v)
                else:
                    if not isinstance(v, float) or not (0 <= v < 86400):
                        run.violate('C44', 'clock-format:TIMER', 'TIMER returned %r' % (v,))
                    elif m.synced:
                        check_obs('TIMER', c0, c1, None, int(v), v)
            elif k == 'sleep':
                w.sleep(op['s'])
                run.state(k, op['s'] >= 86400, op['s'] >= 3600, bucket())
                note_roll(w.clock_us)
            elif k == 'bwait':
                r = crash_guard(lambda: d.exec(b'PLAY "MF P%d P64"' % op['k'], poll_cap=5000), 'bwait')
                if r is None:
                    break
                run.state(k, bucket())
                note_roll(w.clock_us)
            elif k == 'restart':
                path = os.path.join(run.make_scratch(), 'state.bin')
                d2 = crash_guard(lambda: suspend_resume(d, path), 'restart')
                if d2 is None:
                    break
                d = d2
                run.state(k, bucket(), len(env) > 0)
            elif k == 'jump':
                w.jump_clock(op['s'])
                # DESIGN C44: under a clock step only "no internal error" is required
                m.forget('after-clock-jump')
                last_day[0] = None
                run.state(k, op['s'] > 0)
            elif k in ('setenv', 'setraw'):
                if k == 'setenv':
                    name, value = b(op['name']), b(op['value'])
                    text = name + b'=' + value
                    ncls, vcls = _env_name_class(name), _env_value_class(value, cpname)
                    if b'=' in name or name == b'':
                        ncls = 'malformed'
                else:
                    text = b(op['text'])
                    eq = text.find(b'=')
                    name, value = (text[:eq], text[eq + 1:]) if eq > 0 else (b'', b'')
                    ncls, vcls = ('malformed' if eq <= 0 else _env_name_class(name)), _env_value_class(value, cpname)
                tag = 'environ-' + ('name-nul' if ncls == 'nul' else 'value-' + vcls)
                stmt = b'ENVIRON ' + bstr(text)
                r = crash_guard(lambda: d.exec(stmt), tag)
                if r is None:
                    break
                run.state(k, ncls, vcls, 'ok' if r.err is None else 'e%d' % r.err, len(env) > 0)
                if ncls == 'malformed':
                    if r.err != 5:
                        run.violate('C44', 'env-invalid-accepted:no-name', '%s -> %r, expected error 5' % (stmt, r))
                elif r.err is None:
                    if ncls == 'nul' or vcls == 'nul':
                        # cannot be stored on this host; cannot have been accepted faithfully
                        run.probe('env-nul-accepted')
                    env[name.upper()] = value
                    run.probe('env-set')
                elif r.err == 5 and (ncls in ('nul', 'high') or vcls in ('nul', 'cp-odd')):
                    # refusal of something the host environment cannot hold (NUL), of a name outside
                    # ASCII, or of bytes that are not text of the codepage: nothing changes
                    run.probe('env-refused:' + ('name-' + ncls if ncls != 'plain' else 'value-' + vcls))
                else:
                    run.violate('C44', 'env-valid-rejected:name-%s-value-%s' % (ncls, vcls), '%s -> %r' % (stmt, r))
            elif k == 'getenv':
                name = b(op['name'])
                ncls = _env_name_class(name)
                stmt = b'E$="?":E$=ENVIRON$(' + bstr(name) + b')'
                r = crash_guard(lambda: d.exec(stmt), 'environ$-name-' + ncls)
                if r is None:
                    break
                key = name.upper()
                run.state(k, ncls, key in env, 'ok' if r.err is None else 'e%d' % r.err)
                if r.err is not None:
                    if not (r.err == 5 and ncls in ('high', 'nul') and key not in env):
                        run.violate('C44', 'env-read-error:name-' + ncls, '%s -> %r' % (stmt, r))
                    continue
                got = d.get(b'E$')
                want = env.get(key, b'')
                if key in env and (_env_value_class(want, cpname) in ('nul', 'cp-odd') or ncls in ('nul', 'high')):
                    # stored something that has no single faithful representation: not judged
                    run.probe('env-read-unspecified')
                    continue
                run.probe('env-reads-compared')
                if name not in (key, ) and key in env:
                    run.probe('env-read-in-other-case')
                if got != want:
                    vcls = _env_value_class(want, cpname) if key in env else 'unset'
                    run.violate('C44', 'env-readback:value-' + vcls,
                                'after ENVIRON %r (name as stored %r), ENVIRON$(%r) = %r, expected %r (codepage %s)' % (
                                    key + b'=' + want, key, name, got, want, case['cfg'].get('session', {}).get('codepage')))
            else:
                raise K.HarnessError('unknown op %r' % (op,))
        if not d.closed:
            try:
                d.close()
            except EngineCrash:
                if not run.stop:
                    raise
    if dict(os.environ) != env_before:
        raise K.HarnessError('os.environ not restored by the World')


def run(case):
    return execute(case, _body, world_cfg=case['cfg'].get('world', {}))
